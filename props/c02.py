ID = "C02"
THEOREMS = [
    "C02.pass_log_sublist",
    "C02.exec_pass_order",
    "C02.sortSal_spec",
    "C02.kb_add_after_equals",
    "C02.kb_remove_enable_keep_order",
    "C02.activeAt_iff",
    "C02.fired_was_eligible",
    "C02.exec_fired_was_eligible",
    "C02.history_accepted",
    "C02.no_loop_once",
    "C02.lock_on_active_once",
    "C02.activation_group_one_per_pass",
    "C02.activation_group_fires_first_true",
    "C02.set_debug_transparent",
    "C02.workflow_step_is_focus_then_execute",
    "C02.calls_are_history",
    "C02.exec_passes_accepted_rel",
    "C02.exec_passes_accepted",
    "C02.exec_err_accepted",
    "C02.history_passes_accepted",
    "C02.workflow_steps_accepted",
    "C02.should_iff",
    "C02.segPass_sublist",
    "C02.activeAt_boundaries",
    "C02.exec_date_boundaries",
]
LEAN_TARGETS = ["RreModel.C02.Theorems", "RreModel.C02.Theorems2"]
N = {"quick": 12000, "thorough": 150000}
EXHAUSTIVE = {"quick": False, "thorough": False}
# C02's oracle uses the counter / fixpoint predicates of C03.Spec, so those files are audited as well
LEAN_FILES = ["RreModel/C03/Model.lean", "RreModel/C03/Spec.lean", "RreModel/C02/Api.lean", "RreModel/C02/ApiLemmas.lean"]
RULE = ("cases = corpus (incl. the F-C02 witness) + N random histories of 1..5 API calls on one RustRuleEngine "
        "(execute_at_time(t), execute_with_callback, set_agenda_focus, pop, clear, reset_no_loop_tracking, "
        "activate_agenda_group, KB add/remove/enable/disable, facts.set; and the wrappers: plain execute, set_debug_mode, the KB calls "
        "through knowledge_base_mut(), knowledge_base().clear(), execute_workflow_step(g), execute_workflow([g..]); 1 case in 12 on an engine "
        "built with RustRuleEngine::new = default configuration) over rule sets of 2..8 rules with salience from "
        "{i32::MIN,-5,0,0,7,7,i32::MAX}, all combinations of enabled/no-loop/lock-on-active, 2..3 agenda groups "
        "(MAIN implicit and explicit), 0..2 activation groups, date windows at 9,10,11,19,20,21,29,30,31 around the evaluation "
        "timestamps 10/20/30 and around 'now' for the callback twin, Set / field+k / ActivateAgendaGroup actions, max_cycles in {1,2,3,5}. "
        "Instants are nanoseconds in the model (<sec>f<nanos> in the case text): a boundary-walk family (N/15: one engine, a rule with the window [e, x) "
        "plus one-sided, disabled and empty-window neighbours, execute_at_time at the ticks e-1, e, e+1, x-1, x, x+1 in ascending / descending / random "
        "order, tick = 1 s, 100 ms, 500 us, 1 us or 1 ns on a base instant with a sub-second part, so that evaluation instants and bounds share the second / "
        "millisecond / microsecond and differ in the part below; dates through the three builders with 3 / 6 / 9 fractional digits in the texts, the evaluation "
        "timestamp through the text or as a DateTime<Utc> built by chrono arithmetic, X<t>u) and a knowledge-base replacement family (N/20: edits that raise the "
        "version counter, an execute, then *knowledge_base_mut() = new_kb with a freshly built base of the same / a smaller / a larger version() and more, as many "
        "or fewer rules — op H<s|l|g>&rule&… —, further executes; the op is also drawn in the random histories). "
        "Every date attribute is handed to the rule in one of three ways (recorded in the case text, nat@how): with_date_effective_str / "
        "with_date_expires_str on the RFC 3339 text ending in Z; the same string twins on the SAME instant written with a UTC offset "
        "(16 real-world and extreme offsets from -23:59 to +23:59 incl. +00:00, +05:30, +05:45, -12:00, +14:00, and random minute offsets; "
        "a negative offset puts the text on 31 December of the year before); the DateTime<Utc> twins with_date_effective / with_date_expires "
        "(instant built by chrono arithmetic). A date-window family (N/12 cases: 2..5 always-true rules, each with a window on or next to an "
        "evaluation timestamp, mostly offset strings, every timestamp 10/20/30 visited in random order, sometimes the callback twin) "
        "concentrates on the boundaries; a focus-history family (N/5: long set/pop/clear/activate/workflow-step histories with executes in the "
        "middle) and an abort family (N/20: an execute that returns Err or ends at the bound after activation-group rules fired, repaired or "
        "not, then further executes). "
        "Each case is run on the real engine (firing sequence through the callback and through marker actions for execute_at_time, "
        "result counters, get_active_agenda_group, facts after every call) and on the Lean model; the observation lines are diffed and the "
        "Spec clauses (C02.Ref.scan = no-loop once / lock-on-active once per activation over the whole history; fired rules enabled, in "
        "their date window and in the focused group; counters; fixpoint on early stop; and the segmented replay C02.segAccept on EVERY call that returns Ok, "
        "however many passes it made: the log is cut into cycle_count passes by walking the sorted vector pass after pass from reference bookkeeping derived from "
        "the observations (facts and focus as observed, the fired rules' actions applied, no-loop / lock-on-active sets carried across passes and calls, "
        "activation groups per pass); at every rule's turn the letter of the property decides whether it fires, so every pass is a subsequence of the stable "
        "descending sort with at most one rule per activation group, the one that fires is the first eligible one with a true condition, and the last pass "
        "of a call that returns before the bound fires nothing; a call that returns Err is replayed up to the rule whose action fails (C02.segAcceptErr); execute_workflow is replayed step by step "
        "the same way (C02.segWorkflow, also when it returns Err: the oracle is never blind)) are evaluated on the implementation's observations. "
        "Further families (N/15, N/25, N/25), shared by C02 and C03 (c02.rs): several-pending-activations histories (2..4 activate_agenda_group calls — same group, different groups, MAIN — interleaved with set_agenda_focus / pop / clear before each execute, rules with true and false conditions in every group: every queued activation is applied before the first pass); caller-owned undo frames (ops Ub / Uc / Ur = facts.begin_undo_frame / commit_undo_frame / rollback_undo_frame around the execute calls, nested, left open, unbalanced; rules that write flat keys, dotted paths of the existing object o0 (O.0 / O.2 -> Facts::set_nested) and of a missing object (O.1): every call returns under the per-case deadline, after a rollback the facts are those observed at the matching begin — clauses rollback_not_restored / frame_call_changed_facts, and the harness compares the complete fact map incl. nested objects: res u!undo); confusable-names histories (agenda groups, activation groups and rule names reach the engine through name tables whose small ids are easy to confuse as strings: prefix relations through / . : blank, the empty string, a group named like a rule, look-alikes of MAIN, case / trailing-blank twins — all distinct names, injectivity asserted at start-up; lock-on-active / no-loop rules in 2..4 such groups, activate one, execute, focus another, come back by pop or by a new activation, execute). "
        "non-trivial = a rule fired whose firing depended on an attribute (no-loop, lock-on-active, activation group, date window, non-MAIN group); "
        "distinct = distinct case text.")
TRUSTED = [
    "Lean 4.33 kernel; axioms of every property theorem within {propext, Classical.choice, Quot.sound} (audited each run)",
    "hand-written model RreModel/C02/Model.lean tied to src/engine/{engine,agenda,workflow,knowledge_base,rule}.rs by the correspondence check only (differential testing)",
    "harness/src/bin/c02.rs, RreModel/C02/{Wire,Oracle}.lean and Driver/C02.lean parsing/printing/oracle glue, check.py diff",
    "condition/action semantics restricted to integer fields (field==k, field<k, field>k; field:=k, field:=field+k); the full evaluator is C01's",
    "the knowledge-base vector is modelled sequentially (stable insertion sort); its concurrent behaviour is C15's",
]
ASSUMPTIONS = [
    "timeout = None (30 s, never reached, for the engines built with RustRuleEngine::new); scheduled tasks outside (cases with workflow calls never have a ready task); no custom functions; the only custom action is the harness's marker, which never fails",
    "rule names, agenda and activation groups are identifiers (Nat) mapped to strings r<n>, MAIN/G<g>, A<a>; salience within i32",
    "dates are abstract seconds mapped order-preservingly to 2001-01-01T00:00:ss / 2201-01-01T00:00:ss so that the wall clock of execute_with_callback lies strictly between; "
    "the UTC-offset renderings of an instant are computed by the harness (date_str_off) and denote the same instant by RFC 3339; the evaluation timestamps of "
    "execute_at_time are always built from the Z text; the harness has no chrono dependency (DateTime<Utc> values come from Rule::date_effective of throw-away rules and chrono's own +, -, *)",
    "the history alphabet of the lock-on-active theorem counts set_agenda_focus, activate_agenda_group and executed ActivateAgendaGroup actions as activations",
]


def classify(case, impl, model, oracle, kind):
    if impl == "hang-skipped":
        return "hang-skipped"   # not run: two earlier cases of the batch did not return
    if impl.startswith("hang"):
        return "hang"
    if impl.startswith("panic") or impl.startswith("crash"):
        return "panic"
    if kind == "oracle":
        return "oracle:" + oracle.replace("fail ", "").split("@")[0]
    return "diff"


LEVEL_TEXT = ("Lean 4 theorems (kernel-checked, unbounded: every rule set, every history of API calls, every timestamp and max_cycles) about an "
              "executable model of the forward engine's control (pass with its six gates in code order, AgendaManager, ActivationGroupManager, "
              "no-loop set, workflow activation queue and sync, stable salience sort): the log of a pass is a sublist of the stably sorted vector "
              "(descending salience, insertion order among equals); a fired rule was enabled, inside effective<=t<expires and in the focused "
              "group at its turn; over whole histories a no-loop name fires at most once between resets and a lock-on-active rule at most once "
              "between activations of its group; per pass at most one rule of an activation group fires and it is the first eligible one with a "
              "true condition. Tied to the Rust code by a correspondence check on random API histories (both execute twins) and by evaluating "
              "the same Spec clauses on the implementation's firing log.")
LEVEL_NOTE = ("Trusted: Lean kernel + {propext, Classical.choice, Quot.sound}; hand-written model tied to the code by differential testing only; "
              "harness/driver glue. Model follows the code after fix-C02.patch (ActivateAgendaGroup no longer queues the activation it applies).")
DESIGN_REF = "§6 C02"
