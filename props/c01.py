ID = "C01"
THEOREMS = [
    "C01.evalExprString_render",
    "C01.evalExprString_render_fuel",
    "C01.arithCond_resplit",
    "C01.evalOp_eq_spec",
    "C01.evalLeaf_eq_spec",
    "C01.evalCond_eq_spec",
    "C01.pass_fires_iff",
    "C01.pass_eq_spec",
    "C01.cycles_eq_spec",
    "C01.calls_eq_spec",
    "C01.caller_setNested_reads_back",
    "C01.caller_setNested_err_unchanged",
    "C01.caller_remove_absent",
    "C01.caller_clear_reads_null",
    "C01.store_reads_back",
    "C01.set_reads_back",
    "C01.parenthesised_counterexample",
    "C01.signed_operand_counterexample",
    "C01.leading_sign_counterexample",
    "C01.operator_in_string_counterexample",
    "C01.string_literal_is_literal_counterexample",
    "C01.prefix_absent_reference_counterexample",
]
N = {"quick": 3000, "thorough": 60000}
EXHAUSTIVE = {"quick": False, "thorough": False}
RULE = ("cases = corpus + N generated (rule set of 1-4 rules, fact store). Facts: flat keys, an object nested to depth 3, flat dotted "
        "keys, values int/float (incl. NaN, +-inf, -0.0)/numeric and non-numeric strings/\"null\"/bool/array/null/absent. Conditions: "
        "trees to depth 6 over && || !, leaves over all twelve operators with literal / field-reference / arithmetic right-hand sides "
        "and arithmetic left-hand sides (Test-CE text), mixed + - * / % with random blank padding, string concatenation; literals are "
        "aimed near the current field value so that leaves are balanced (tags leafT / leafF count every evaluated leaf). Actions: Set/Append "
        "to existing, new, nested, missing-root, non-object-root and missing-link targets. Every case is run through "
        "execute_with_callback and execute (= execute_at_time) on rules built programmatically exactly as the parser builds them, and - for "
        "one third of the cases (flag G1) - additionally on the rules obtained from generated GRL text through GRLParser. The observation "
        "(status, counters, rule name + complete facts after each firing, final facts; floats as bit patterns, keys sorted) is diffed with "
        "the Lean model's prediction, and the oracle evaluates Spec.holds on each reported pre-state (previous snapshot) against the reported "
        "firing whenever the pre-state is in the domain Spec.wf, plus read-back of assignments (a Set is judged when no later action of "
        "the same rule writes under the same root and its right-hand side is a literal or it is the rule's first action) and equality of the two entry points. "
        "Four dedicated families (N/20 cases each, N/10 of (c), after the main stream): (a) `in` against membership lists of 31..80 elements (mostly > 32; one type "
        "or mixed; literal or held in a flat/nested fact) probed with members, plain non-members and non-members of another type with the same text "
        "(Integer 7 / Number 7.0 / String \"7\", true / \"true\", null / \"null\"), plain, negated and under && / ||; (b) arithmetic text WITHOUT blanks "
        "around operators (`o.price-5`, `rate*2+e-1`): names ending in e/E directly followed by an operator and a digit-initial operand, exponent numerals "
        "(1e2, 2E1; 2.5e-3 on the right of a comparison) as controls, as assignment value, right-hand side of a field comparison and both sides of an "
        "arithmetic comparison; (c) ONE engine object used for max_cycles 1..8 and 1..4 execute calls with self-modifying rules whose thresholds are "
        "arithmetic over dot-less or nested facts (`q >= floor + step` ... `floor = floor + step`), the caller replacing facts between the calls (same "
        "or new Facts object); (d) ordinary generated cases run with max_cycles 1..3 and called again after 1..3 facts were replaced. For (c)/(d) the "
        "model runs C01.cycles per call from the current facts and the oracle judges every consideration of a rule in every cycle of every call on the "
        "facts the implementation itself reported for that moment. "
        "(e) reach family (N/10 cases, after everything else): a base case of the ordinary / (d) / (c) generator is decorated with variant bits V — engine from "
        "RustRuleEngine::new (default configuration, 100 cycles), rules added after construction through knowledge_base() / knowledge_base_mut() / "
        "add_rules_from_grl, analytics enabled, facts stored through Facts::add (serde_json) wherever the value survives the JSON round trip, an undo frame open "
        "around every call, whole-text GRLParser::parse_rules, rules built with Operator::from_str (both spellings) / Value::from / inert with_* builders — and "
        "with 1..3 more execute calls before which the caller removes facts (present, absent, the object a nested condition reads), clears the store and "
        "rebuilds part of it, writes through Facts::set / Facts::set_nested (existing path, missing root, non-object on the way: Err ignored) or hands the "
        "content over in a new Facts object (add_value, merge, snapshot + restore, to_context + from_context). The variant bits other than `new` do not "
        "concern the model (same prediction: the twin doors must behave the same); caller edits are C01.applyCaller in model and oracle. "
        "(f) extreme-number family (N/5 cases, last): facts x y z w / p.mass p.volume p.k hold tiny non-zero floats (subnormal, min normal, both sides of "
        "f64::EPSILON, both signs), huge ones (results overflow to +-inf / underflow to 0), floats and integers around 2^53 and 2^63, -0.0, NaN, +-inf, "
        "i64::MIN / i64::MAX and neighbours, numeric strings of those classes (\"1e-300\", \"NaN\", \"1e400\", \"-0\"), mixed with ordinary numbers, in EVERY operand "
        "position of + - * / % (1..3 operators, uniform; numerals incl. 1e300, inf, NaN, 9223372036854775807/8) on the left of arithmetic conditions (right side: numeral, "
        "a field aimed at the exact value / a neighbouring double / the negation / the same number in the other numeric class, or more arithmetic), on the right of field "
        "comparisons, in assignments (first action judged by read-back; self-modifying `x = x * y` over 1..4 cycles), and on both sides of all six comparisons and `in` as "
        "field / literal / field reference; now and then with variant bits and 1..2 later calls after the caller replaced an operand by another extreme number. The same "
        "pools are mixed into the ordinary stream (n1/n2 arithmetic material 1/12, special scalars). "
        "Oracle clause for calls that end in Err/panic: beyond the last reported firing, in-domain rules whose condition does not hold are passed over and the first one "
        "whose condition holds must have stored its assignments - if every right-hand side is defined (first action in Spec.wfRhs on the pre-state, later ones literals) the "
        "error is the failure reads_back:error_instead_of_store. "
        "non-trivial = at least one rule was judged in-domain with >= 2 leaves or a judged read-back; distinct = distinct case text.")
TRUSTED = [
    "Lean 4.33 kernel; axioms of every property theorem within {propext, Classical.choice, Quot.sound} (audited each run)",
    "hand-written model RreModel/C01/Model.lean tied to src/engine/engine.rs, src/expression.rs, src/types.rs, src/engine/facts.rs by the correspondence check only (differential testing, whole observations compared)",
    "harness/src/bin/c01.rs, Driver/C01.lean parsing/printing glue (incl. the driver's decimal f64 reader used as FloatOps.parse), check.py diff",
    "IEEE-754 double arithmetic: the theorems are parametric in FloatOps F and never look inside a float; the driver instantiates F := Float (same hardware type as f64, fmod from libm)",
    "the agenda and rule attributes are C02/C03's subject: here rules without attributes, in insertion order; the cycle loop (max_cycles passes, stop after a pass without a firing) "
    "and repeated execute calls on one engine with caller-side edits of the store in between are modelled as iteration of the one-pass model from the current facts (C01.cycles, C01.calls; theorems cycles_eq_spec, calls_eq_spec)",
]
ASSUMPTIONS = [
    "ASCII text: the code indexes expression text by bytes/chars interchangeably (multibyte input is C05's subject); trim = ASCII whitespace",
    "integers are i64 modelled as Int (parse range-checked); integer arithmetic goes through f64 exactly as the code does (FloatOps.ofInt/toInt)",
    "domain Spec.wf (decidable, evaluated by the oracle on every pre-state): arithmetic is defined (all operand fields present and numeric / concatenable), "
    "no field token is present both as a flat dotted key and as a nested path, no _retracted_<object> marker for the object read, a quoted string literal "
    "on the right of a field comparison does not name a fact, arithmetic text contains no parenthesis / signed operand / operator character inside a quoted operand "
    "(each exclusion has a machine-checked ..._counterexample)",
    "generated float literals in rule text are short decimals that are exactly representable, or one of a fixed list of extreme numerals / numeric strings (1e-300, 5e-324, 1.5e-18, 2.5e-16, "
    "1e300, 1e400, 9007199254740993, 9223372036854775808, inf, NaN ...) on which the driver's decimal reader was checked bit-for-bit against Rust's; floats in facts are arbitrary bit patterns",
    "the documented semantics is defined for every non-zero divisor of any magnitude (the only undefined division is by a value == 0.0, i.e. +0.0 / -0.0 / integer 0); "
    "overflow to +-inf, underflow to 0, NaN operands and integers beyond 2^53 (which lose exactness because the code computes in f64 and casts back saturating) are IN the domain "
    "and judged with the f64 meaning",
]


def _runs(obs):
    """split an observation into its C / X / G streams: tag -> list of runs (one per execute call), each a token list"""
    out, cur = {}, None
    for t in obs.split():
        if t in ("C", "X", "G"):
            cur = []
            out.setdefault(t, []).append(cur)
        elif cur is not None:
            cur.append(t)
    return out


def classify(case, impl, model, oracle, kind):
    if kind == "oracle":
        import re
        # callback:call2:fires_iff@0:expected_true -> oracle:callback:later_call:fires_iff
        return "oracle:" + re.sub(r":call\d+", ":later_call", oracle.replace("fail ", "").split("@")[0])
    ri, rm = _runs(impl), _runs(model)
    for k in ("C", "X", "G"):
        ai, am = ri.get(k) or [], rm.get(k) or []
        if ai != am:
            for j in range(max(len(ai), len(am))):
                a = ai[j] if j < len(ai) else ["-"]
                b = am[j] if j < len(am) else ["-"]
                if a == b:
                    continue
                call = "" if j == 0 else ":call%d" % j
                if a[0] != b[0]:
                    return "diff:%s%s:status:%s/%s" % (k, call, a[0], b[0])
                if a[1:4] != b[1:4]:
                    return "diff:%s%s:counters" % (k, call)
                return "diff:%s%s:facts" % (k, call)
    return "diff"


LEVEL_TEXT = ("Lean 4 theorems (kernel-checked, unbounded: every arithmetic AST, every condition tree, every rule list, every fact store, every float "
              "structure) that on the domain Spec.wf the executable model of evaluate_conditions / evaluate_single_condition / evaluate_arithmetic_condition / "
              "evaluate_expression / execute_action computes the documented meaning Spec.holds (rightmost-operator string splitting = usual precedence and left "
              "associativity; rfind re-split of Test-CE text; operator table; missing field = null; field-reference right-hand sides), that a whole execute call of any "
              "max_cycles is the documented pass iterated on the current facts (cycles_eq_spec), and that assignments read back, "
              "with the excluded boundaries machine-checked by counterexample theorems; tied to the source by a correspondence check of whole observations "
              "(programmatic and GRL-parsed rules, both entry points) and by evaluating Spec.holds on the implementation's own reported pre-states.")
LEVEL_NOTE = ("Trusted: Lean kernel + {propext, Classical.choice, Quot.sound}; hand-written model tied to the code by differential testing only; harness/driver glue; "
              "IEEE arithmetic abstracted (FloatOps); ASCII text; firing loop/agenda/attributes left to C02/C03.")
DESIGN_REF = "§6 C01"
