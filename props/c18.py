ID = "C18"
THEOREMS = [
    "C18.graph_agrees_with_decls",
    "C18.decls_name_existing_modules",
    "C18.reach_complete",
    "C18.reach_sound",
    "C18.acyclic_invariant",
    "C18.cycle_closing_import_refused",
    "C18.import_accepted_iff",
    "C18.refused_import_changes_nothing",
    "C18.visibility_total",
    "C18.listing_total",
    "C18.visible_iff",
    "C18.exports_iff",
    "C18.get_visible_eq_filter",
    "C18.model_meets_spec",
    "C18.unfixed_delete_counterexample",
    # the remaining queries that read the module set / the import relation (reach audit)
    "C18.validate_total",                      # validate_module answers exactly for the existing modules
    "C18.validate_finds_no_missing_module",    # after every history: is_valid, no "non-existent module" error
    "C18.dependencies_exclude_self",           # get_transitive_dependencies never reports the module itself
]
N = {"quick": 3000, "thorough": 40000}
EXHAUSTIVE = {"quick": True, "thorough": True}
RULE = ("cases = corpus + EXHAUSTIVE: after each of 3 preset states over modules MAIN,A,B,C and rules r1,r2,s1, every operation "
        "sequence of length <=4 over a 15-operation core alphabet (9 imports incl. self-import, wildcard/?ALL patterns, a re-export, "
        "imports of and into MAIN; delete A/B/C; create A/B/C) and of length <=3 over a 26-operation alphabet (adds export changes, "
        "add_rule/add_template, template imports, delete MAIN, imports naming a missing module), plus every sequence of length <=5 "
        "over 10 operations from the empty manager (thorough: length <=5 over the core alphabet after the first preset) + N random sequences of 1..7 operations (from the empty "
        "manager or after a preset; 8 module names incl. a never-created one, 3 rules, 2 templates, 8 patterns, all 5 import types, "
        "re-export lists) + N/10 GRL texts with defmodule blocks run through GRLParser::parse_with_modules "
        "+ a constructive RECONVERGENT-GRAPH family (no randomness): every DAG over 4 and 5 modules and a fixed sample of 400 DAGs over 6 "
        "modules (5..9 imports) built by accepted imports, followed by every cycle-closing import whose search meets a module reachable "
        "along two different paths; each (graph, closing import) repeated under 12 (4 modules) / 2 (5, 6 modules) injective renamings over "
        "7 names incl. MAIN with varied creation / import order - every repetition runs on a fresh manager whose HashSets have their own "
        "random hash keys, so the iteration order of a module's import set differs - plus once through the GRL front-end (the closing "
        "module plays MAIN): the import must be refused and the relation stay acyclic on every repetition "
        "+ a constructive EXPORT-ORDER family: module A (rules r1, s1, templates t1, r1) imported by B in 4 ways; A's export list has 2 "
        "entries (every ordered pair over Rule/Template/Fact/All x 5 overlapping patterns), 3 entries (every triple of distinct entries "
        "over 4 types x 3 patterns with >= 2 types, every order) or 4 entries (one per type, every pattern choice, every order). "
        "Each case is run on the real "
        "ModuleManager and on the Lean model; after every operation (exhaustive cases: after the last two) the result of the operation, "
        "get_imports/get_rules/get_templates/get_exports of every module, get_import_graph, and is_rule_visible / is_template_visible / "
        "get_visible_rules for every (name, module) of the case incl. a never-owned rule and non-existing modules are diffed, and the Spec "
        "predicates (C18.snapOk, C18.stepOk) are evaluated on the implementation's observations. After every operation (exhaustive cases: "
        "after the last one) the remaining queries that read the module set and the import relation are observed as well: list_modules, "
        "get_transitive_dependencies and validate_module for every module name of the case (diffed with the model RreModel/C18/Extra.lean; "
        "oracle C18.extraOk: the listing names exactly the existing modules, the dependencies are exactly the modules reachable in the "
        "observed import graph and never the module itself, validation answers exactly for existing modules, is valid without errors, "
        "and its warnings follow the declarations), and get_import_graph_debug / get_stats / validate_all_modules are compared with "
        "get_import_graph / get_module / validate_module of the same snapshot. GRL texts also assign rules to modules by `;; MODULE:` comments (oracle grl_rule_assignment). A case is non-trivial when an import was "
        "accepted, the graph is non-empty, and a cycle-closing import was refused, an imported module was deleted, or a rule is visible "
        "through an import; distinct = distinct case text.")
TRUSTED = [
    "Lean 4.33 kernel; axioms of every property theorem within {propext, Classical.choice, Quot.sound} (audited each run)",
    "hand-written model RreModel/C18/Model.lean tied to src/engine/module.rs by the correspondence check only (differential testing)",
    "harness/src/bin/c18.rs, Driver/C18.lean parsing/printing glue, check.py diff",
    "HashMap/HashSet are finite maps/sets: modelled as association lists / membership lists; only order-independent observables are compared (sorted)",
]
ASSUMPTIONS = [
    "operations are the ModuleManager-level ones (create_module, delete_module, export_all_from, get_module_mut(..).add_rule/add_template, "
    "import_from, import_from_with_reexport); declarations pushed directly with the public Module::add_import bypass the manager and are outside the property",
    "only the kind of an error is compared (already exists / not found / default module / source not found / cyclic import), not the message text or the cycle path",
    "current_focus, fact types, salience, statistics and validate_module are not modelled",
    "model follows the code with fix-C18.patch (delete_module drops declarations naming the deleted module) and fix-C18b.patch "
    "(get_visible_rules lists re-exported rules) applied",
]


def classify(case, impl, model, oracle, kind):
    if kind == "oracle":
        return "oracle:" + oracle.replace("fail ", "").split("@")[0]
    if impl.startswith("panic"):
        return "panic"
    return "diff"


LEVEL_TEXT = ("Lean 4 theorems (kernel-checked, by induction over every finite history of create/delete/export/add_rule/add_template/import "
              "operations, any names and patterns): the import graph and the per-module declarations record the same relation and name only "
              "existing modules; detect_cycle (BFS, well-founded recursion on (unvisited targets, queue length)) answers exactly reachability; "
              "no module reaches itself through declared imports; an import is accepted iff both modules exist, differ and the source does "
              "not reach the importer, and a refused operation changes nothing; visibility queries on existing modules always answer; "
              "is_rule_visible/is_template_visible = owned or imported with matching pattern from an exporting module (re-exports as coded); "
              "get_visible_rules = known rules filtered by is_rule_visible. Tied to src/engine/module.rs and the GRL defmodule front-end by a "
              "correspondence check (exhaustive short histories + random ones; model vs implementation observations after every operation) and "
              "by evaluating the same Spec predicates on the implementation's observations.")
LEVEL_NOTE = ("Trusted: Lean kernel + {propext, Classical.choice, Quot.sound}; hand-written model tied to the code by differential testing only; "
              "harness/driver glue. Two genuine defects were repaired first (fix-C18.patch, fix-C18b.patch); the model is of the repaired code.")
DESIGN_REF = "§6 C18"
