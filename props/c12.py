ID = "C12"
THEOREMS = [
    "C12.aligned_contains",
    "C12.aligned_unique",
    "C12.tw_model_meets_spec",
    "C12.record_retains_exactly",
    "C12.add_event_half_open",
    "C12.record_front_only_counterexample",
    "C12.aggregates_meet_spec",
    "C12.aggregates_are_folds",
    "C12.windowed_stream_partition",
    "C12.ws_model_meets_spec",
    "C12.ws_defined_iff",
    "C12.manager_places_once",
    "C12.manager_invariant",
    "C12.wm_model_meets_spec",
    "C12.wm_trace_defined",
    "C12.alpha_model_meets_spec",
    "C12.alpha_never_fails",
    "C12.alpha_sliding_retains_exactly",
    "C12.alpha_tumbling_holds_current",
    "C12.alpha_front_only_counterexample",
    "C12.alpha_tumbling_old_counterexample",
]
N = {"quick": 4000, "thorough": 60000}
EXHAUSTIVE = {"quick": False, "thorough": False}
RULE = ("cases = corpus (defect witnesses + corner cases) + for every timestamp sequence of length <=4 over 0..3 "
        "(thorough: <=5 over 0..4): sliding TimeWindow::record (d=1,2; with and without a binding cap), sliding StreamAlphaNode "
        "under the injected clock, tumbling WindowManager and WindowedStream + N random cases split evenly over the four "
        "components (TimeWindow add_event/record, WindowManager::process_event, WindowedStream::new tumbling, "
        "StreamAlphaNode::process_event with none/sliding/tumbling window): <=12 events, timestamps from dense domains "
        "(0..8/20/40), in order / reversed / nearly sorted with late events / shuffled, integer-valued Number and Integer "
        "fields, non-numeric and missing fields, durations 1.. (and 0 = sub-millisecond: the documented panic), caps 0,1,2,3,5,100, "
        "window limits 0..100. Each case runs on the real code and on the Lean model; observations after every call "
        "(return value, span, retained event ids, count/sum/average/min/max through TimeWindow, Aggregator::aggregate, "
        "Aggregator::aggregate_events and operators::{Count,Sum,Average,Min,Max}) are diffed and the Spec predicates "
        "twRunOk / wmRunOk / wsOk / anRunOk are evaluated on the implementation's observations. A case is non-trivial when "
        "it has >=2 events with at least one late (out-of-order) arrival; distinct = distinct case text.")
TRUSTED = [
    "Lean 4.33 kernel; axioms of every property theorem within {propext, Classical.choice, Quot.sound} (audited each run)",
    "hand-written model RreModel/C12/Model.lean tied to src/streaming/window.rs, operators.rs, aggregator.rs, event.rs and "
    "src/rete/stream_alpha_node.rs by the correspondence check only (differential testing)",
    "harness/src/bin/c12.rs, Driver/C12.lean parsing/printing glue (incl. IEEE division for average on the driver side), check.py diff",
    "hook: #[cfg(rre_verif)] thread-local clock override read by StreamAlphaNode::current_time_ms (hooks-C12.patch); with the cfg "
    "off the function reads the system clock as before",
    "not modelled: session windows of StreamAlphaNode, the sliding/session branch of WindowedStream::new, the non-numeric aggregates "
    "(CountDistinct, StdDev, Percentile, First, Last, CountBy), StreamAnalytics",
]
ASSUMPTIONS = [
    "timestamps/durations are u64 milliseconds modelled as Nat (saturating_sub = Nat subtraction); no u64 overflow",
    "numeric fields are integer valued with |sum| < 2^53, so the f64 sum/min/max are exact and fold order is irrelevant; "
    "average = IEEE quotient of two exactly representable integers, compared as bit patterns; theorems hold for every division function",
    "event identity = caller-assigned id (StreamEvent.id), unique per case",
    "WindowedStream windows come out of a HashMap in arbitrary order: compared as the list sorted by start (starts are proved distinct); "
    "counts() compared as a sorted multiset",
    "retention cap semantics: the oldest-arrived event is dropped first; StreamAlphaNode counts the cap on arrival, before eviction",
]


def classify(case, impl, model, oracle, kind):
    comp = case.split(" ", 1)[0]
    if kind == "oracle":
        return "oracle:" + oracle.split("@")[0].replace("fail ", "")
    return "diff:" + comp


LEVEL_TEXT = ("Lean 4 theorems (kernel-checked, unbounded: every duration/cap/limit, every finite event history in any arrival order, "
              "every clock sequence) that the executable model of TimeWindow (add_event, record), tumbling WindowedStream::new, "
              "StreamAlphaNode (none/sliding/tumbling, explicit clock) and the aggregates satisfies the observation-level specs "
              "twRunOk / wmRunOk / wsOk / anRunOk / aggOk, plus aligned_contains/aligned_unique, record_retains_exactly, "
              "windowed_stream_partition, manager_places_once + manager_invariant for WindowManager::process_event, and machine-checked "
              "counterexamples for the pre-fix eviction (F-C12) and the pre-fix tumbling roll-over (F-C12b); tied to the Rust code by a "
              "correspondence check (exhaustive short sequences + random longer ones, every public entry point, observations after every call) "
              "and by evaluating the same Spec predicates on the implementation's observations.")
LEVEL_NOTE = ("Trusted: Lean kernel + {propext, Classical.choice, Quot.sound}; hand-written model tied to the code by differential testing only; "
              "harness/driver glue; clock hook. Session windows of StreamAlphaNode, sliding/session WindowManager (correspondence only) "
              "and the sliding/session branch of WindowedStream::new are outside the theorems.")
DESIGN_REF = "§6 C12"
