ID = "C12"
THEOREMS = [
    "C12.aligned_contains",
    "C12.aligned_unique",
    "C12.tw_model_meets_spec",
    "C12.record_retains_exactly",
    "C12.add_event_half_open",
    "C12.record_front_only_counterexample",
    "C12.aggregates_meet_spec",
    "C12.aggregates_are_folds",
    "C12.windowed_stream_partition",
    "C12.ws_model_meets_spec",
    "C12.ws_defined_iff",
    "C12.manager_places_once",
    "C12.manager_invariant",
    "C12.wm_model_meets_spec",
    "C12.wm_trace_defined",
    "C12.alpha_model_meets_spec",
    "C12.alpha_never_fails",
    "C12.alpha_sliding_retains_exactly",
    "C12.alpha_tumbling_holds_current",
    "C12.alpha_front_only_counterexample",
    "C12.alpha_tumbling_old_counterexample",
    # sliding / session modes (C12c)
    "C12.wm_fixed_model_meets_spec",
    "C12.wm_fixed_trace_defined",
    "C12.manager_fixed_places_once",
    "C12.manager_fixed_invariant",
    "C12.manager_sliding_span_complete_counterexample",
    "C12.manager_session_gap_counterexample",
    "C12.windowed_stream_sliding_grid",
    "C12.windowed_stream_sliding_exact",
    "C12.wss_model_meets_spec",
    "C12.ws_grid_length",
    "C12.ws_sliding_old_diverges",
    "C12.alpha_session_model_meets_spec",
    "C12.alpha_session_invariant",
    "C12.alpha_session_step",
    "C12.alpha_session_keeps_live_session_counterexample",
    "C12.wm_fixed_zero_duration",
    "C12.aggregates2_meet_spec",
    "C12.aggregates2_are_exact",
    # extended reals (XV) and sub-millisecond duration tokens
    "C12.xmin_meets_spec",
    "C12.xmax_meets_spec",
    "C12.xextreme_unique",
    "C12.parseDur_truncates",
    # round 4 (Theorems2.lean): sums as folds in the code's order, StdDev / percentiles over abstract floats,
    # the stream operators of operators.rs, moving average, statistics, field extraction
    "C12.xsum_meets_spec",
    "C12.sum_is_fold",
    "C12.record_sum_is_fold",
    "C12.stddev_is_fold",
    "C12.stddev_oracle_is_variance",
    "C12.percentile_picks_sorted_index",
    "C12.percentile_index_meets_spec",
    "C12.keyBy_partition",
    "C12.keyed_windowed_per_key",
    "C12.keyed_windowed_stream_partition",
    "C12.keyed_windowed_stream_sliding",
    "C12.windowed_aggregate_is_fold",
    "C12.reduce_is_fold",
    "C12.kw_model_meets_spec",
    "C12.alpha_statistics_exact",
    "C12.moving_average_is_fold",
    "C12.detect_anomalies_exact",
    "C12.calculate_trend_exact",
    "C12.ms_model_meets_spec",
    "C12.window_statistics_exact",
    "C12.field_extraction_exact",
    # round 5 (Theorems3.lean, Clear.lean): windows reused after clear()
    "C12.tw_clear_model_meets_spec",
    "C12.tw_clear_restarts",
    "C12.twTraceC_no_clear",
    "C12.an_clear_model_meets_spec",
    "C12.ans_clear_model_meets_spec",
]
LEAN_TARGETS = ["RreModel.C12.Theorems", "RreModel.C12.Theorems2", "RreModel.C12.Theorems3"]
N = {"quick": 4000, "thorough": 60000}
EXHAUSTIVE = {"quick": False, "thorough": False}
RULE = ("cases = corpus (defect witnesses + corner cases) + for every timestamp sequence of length <=4 over 0..3 "
        "(thorough: <=5 over 0..4): sliding TimeWindow::record (d=1,2; with and without a binding cap), sliding StreamAlphaNode "
        "under the injected clock, tumbling WindowManager and WindowedStream + N random cases split evenly over the four "
        "components (TimeWindow add_event/record, WindowManager::process_event, WindowedStream::new tumbling, "
        "StreamAlphaNode::process_event with none/sliding/tumbling window): <=12 events, timestamps from dense domains "
        "(0..8/20/40), in order / reversed / nearly sorted with late events / shuffled, integer-valued Number and Integer "
        "fields, non-numeric and missing fields, durations 1.. (and 0 = sub-millisecond: the documented panic), caps 0,1,2,3,5,100, "
        "window limits 0..100. Each case runs on the real code and on the Lean model; observations after every call "
        "(return value, span, retained event ids, count/sum/average/min/max through TimeWindow, Aggregator::aggregate, "
        "Aggregator::aggregate_events and operators::{Count,Sum,Average,Min,Max}) are diffed and the Spec predicates "
        "twRunOk / wmRunOk / wsOk / anRunOk are evaluated on the implementation's observations. A case is non-trivial when "
        "it has >=2 events with at least one late (out-of-order) arrival; distinct = distinct case text. "
        "Sliding/session modes (C12c): for every timestamp sequence of length <=4 over 0..3 additionally a sliding and a session "
        "WindowManager (with and without a binding window limit) and a session StreamAlphaNode (two clock regimes), for every "
        "sequence of length <=3 a sliding/session WindowedStream::new with d=1,3,4; + 3N/4 random cases split over "
        "WindowManager S/N (fixed windows, first fit; wmfRunOk), WindowedStream::new S/N (durations 0,1,2,3,4,5,7,8,10,13 — 1 ms is the "
        "former hang; each constructor call runs in a child process of the harness killed at a deadline, observation `hang`; wssOk) and "
        "StreamAlphaNode session windows (gaps timeout-1/timeout/timeout+1, late and stale events, timeouts 0..8; ansRunOk); "
        "+ max(60,N/50) cases with ONE window of 33..130 events (record, add_event, tumbling manager, tumbling and sliding "
        "WindowedStream) whose aggregates are compared with the fold; + max(54,N/8) cases of every component with all timestamps "
        "moved up by 1_700_000_000_123, 2^40-3, 2^40+5, 2^32-2, 250*2^32+17 or 2^53 (tumbling durations 1,10,100,250 there); "
        "+ N/8 cases `AG`: First, Last, CountDistinct, CountBy, Percentile 0/25/50/75/100 and StdDev-definedness of one window "
        "(0..40 events, few distinct values as Number / Integer / String twins, missing fields; agg2Ok). "
        "Round 3: + max(96,N/16) cases `micro`: any of the above generators (all components, all window types) with its duration d ms "
        "replaced by Duration::from_micros(1000 d + 0/1/400/500/900/999) — durations that are not whole milliseconds; the model "
        "truncates like as_millis(), so grouping grid and window span must agree; + max(60,N/20) cases `huge`: effectively unbounded "
        "windows (u64::MAX, u64::MAX-1, 2^63, 2^63+1, u64::MAX-1.7e12, u64::MAX/1000 ms) for a sliding / tumbling / session "
        "StreamAlphaNode and TimeWindow::record/add_event on [0,d), small and epoch-sized clocks: every event not in the future is "
        "retained up to the cap; + `XV`: every value sequence of length <=3 over {1,-2,+inf,-inf,NaN,missing} and max(72,N/10) random "
        "windows (1..12 events filled by record or add_event) whose Number fields range over all of f64 (infinities, NaN, +-f64::MAX next "
        "to integers / non-numeric / missing): min and max through TimeWindow, Aggregator and operators::{Min,Max} against xMinOk/xMaxOk "
        "(None iff no numeric value; NaN iff all NaN; else a non-NaN member bounding all non-NaN members) and the fold model xMin/xMax; "
        "the sum ALWAYS (round 4): compared with the closed form where the order of addition does not matter and with the fold in the order "
        "of the deque where it does (NaN, +-f64::MAX; + max(40,N/40) cases `xv-order`: runs of +-f64::MAX between small integers). "
        "Round 4: for every timestamp sequence of length <=4 over 0..3 three `KW` cases (two keys; tumbling / sliding / binding cap) + max(96,N/8) "
        "random `KW` cases: DataStream::from_events/new+push/len/is_empty/count/aggregate/reduce/key_by/group_by/window, KeyedStream::"
        "count/keys/aggregate/reduce/flatten/window, KeyedWindowedStream::aggregate/reduce, GroupedStream::aggregate/count/first/last, "
        "WindowedStream::aggregate/reduce/flatten on <=12 events with 1..10 keys (key 0 = no key field, key 9 = a key field that is not a "
        "string: StreamEvent::get_string), tumbling / sliding / session configuration, caps 0..100, durations in ms and micros; the aggregator "
        "is a CustomAggregator reporting the ids it was handed and the answers of the real Count/Sum/Average/Min/Max on them, the reducer "
        "appends ids (kwOk); + max(48,N/16) `ST`: the VALUE of StdDev as f64 bits and 1..6 percentiles k/10 with k any integer (ties of the rank, "
        "above 100 %, negative) of one window of 0..40 events (stOk: exact integer arithmetic); + max(48,N/16) `MS`: a WindowManager of any type "
        "after <=12 events: total_event_count, latest_window, get_statistics, aggregate_across_windows, StreamAnalytics::moving_average over the "
        "last 0,1,2,3,100 windows (msOk); + max(48,N/16) `TS`: TimeWindow::latest_timestamp / events_in_range / duration_ms / clear after a run of "
        "add_event / record (tsOk); + max(32,N/32) `AS`: StreamAlphaNode::event_count / window_stats / clear after a run under the injected clock "
        "(asOk); + max(48,N/16) `SA`: StreamAnalytics::detect_anomalies (thresholds -0.5..3.0) and calculate_trend over 0..6 hand-built windows "
        "of 0..30 events (equal values, outliers, windows without numeric value; anomaliesOk / trendOk in exact integer / rational arithmetic, "
        "exact ties accepted either way); + 24 `EV`: get_numeric / get_string / get_boolean of a field of every Value class (evOk). "
        "Round 5: windows REUSED after clear() - an op `c` in TW / AN / AN E op lists (TimeWindow::clear, StreamAlphaNode::clear; Clear.lean: "
        "twRunOkC / anRunOkC / ansRunOkC - after a clear the window is empty, its span has not moved, and every later step is judged against "
        "what was offered since the clear): every history of length <=3 over {record t, add_event t (t in 0..3), clear} (the sibling insertion paths "
        "mixed in every order on one window, with and without clears) on 4 sliding configurations, each followed by one more record, + max(300,N/3) TW / AN / AN E cases of the generators above with 1..3 "
        "clears put in anywhere (first, last, twice in a row).")
TRUSTED = [
    "Lean 4.33 kernel; axioms of every property theorem within {propext, Classical.choice, Quot.sound} (audited each run)",
    "hand-written model RreModel/C12/Model.lean tied to src/streaming/window.rs, operators.rs, aggregator.rs, event.rs and "
    "src/rete/stream_alpha_node.rs by the correspondence check only (differential testing)",
    "harness/src/bin/c12.rs, Driver/C12.lean parsing/printing glue (incl. IEEE division for average on the driver side), check.py diff",
    "hook: #[cfg(rre_verif)] thread-local clock override read by StreamAlphaNode::current_time_ms (hooks-C12.patch); with the cfg "
    "off the function reads the system clock as before",
    "the sliding/session WindowedStream::new call runs in a child process of the harness binary (same code, RRE_C12_INPROC) "
    "so that a non-returning constructor can be killed at a deadline (800 ms; 120 ms after 6 hangs in one run)",
    "round 4: floats are a parameter of the model (FOps / FCmp: zero, add, sub, mul, div, sqrt, abs, comparisons); the driver instantiates "
    "them with Lean's Float (IEEE double: +, -, *, /, sqrt, round, abs correctly rounded as in Rust; f64::powi(2) = x*x; the saturating "
    "`as usize` cast = Float.toUSize) and only bit patterns / integers cross the wire; that instance is trusted, the declarative oracles "
    "stdOk / pctOkQ / anomaliesOk / trendOk are evaluated in exact integer arithmetic on the implementation's answers independently of it",
    "round 4: the reducer / aggregator / key selector handed to the generic stream operators are the harness's (id-appending reducer, "
    "id-reporting CustomAggregator around the real Count/Sum/Average/Min/Max, get_string(\"k\") key selector); the model treats a reduce "
    "on the carrier `trace of events` (parametricity of the generic code in the closure is assumed)",
    "not modelled: Aggregator::aggregate_events for the non-basic types (answers None by design), StreamAnalytics::aggregate_cached (a TTL "
    "cache, no windowing), DataStream filter/map/flat_map/take/skip/union/sort_by/find/any/all (no windowing, no aggregate), "
    "TimeWindow::events_by_type, WindowManager::windows_with_event_type, StreamEvent::matches_pattern/age_ms",
]
ASSUMPTIONS = [
    "timestamps/durations are u64 milliseconds modelled as Nat (saturating_sub = Nat subtraction); no u64 overflow",
    "numeric fields are integer valued with |sum| < 2^53, so the f64 sum/min/max are exact and fold order is irrelevant; "
    "average = IEEE quotient of two exactly representable integers, compared as bit patterns; theorems hold for every division function",
    "XV cases only: Number fields over all of f64 as the ordered type XNum (-inf < -f64::MAX < integers < f64::MAX < +inf, NaN unordered; "
    "f64::min/max return the other operand when one is NaN); any NaN prints as `z`; operators::Min/Max are not observed when a NaN is "
    "present (they compare with partial_cmp().unwrap()), the sum is not observed when a NaN or +-f64::MAX is present (order dependent); "
    "xmin_meets_spec/xmax_meets_spec prove that the fold model xMin/xMax satisfies the declarative oracle xMinOk/xMaxOk for every value "
    "list and xextreme_unique that the oracle admits no other answer; the sum over XNum is modelled as the fold the code performs "
    "(xSumFold: IEEE addition on the value classes, MAX + small integer = MAX) and xsum_meets_spec proves it equal to the closed form "
    "xSum for every list without NaN / +-f64::MAX; with these values the sum depends on the order and the oracle clause is the fold",
    "round 4, StdDev: stddev_is_fold proves the formula and its fold order over abstract float operations; that the f64 instance meets "
    "stdOk (answer^2 = exact population variance up to 2^-20) is checked on every case, not proved (stddev_oracle_is_variance proves that "
    "the oracle's integer expression IS the scaled sum of squared deviations). Percentiles: percentile_index_meets_spec proves pctOkQ from "
    "the premise that the f64 index is within 1/2 of k/1000*(n-1) — that premise is the float part. detect_anomalies / calculate_trend: "
    "*_exact prove structure and fold order; the comparisons are float parameters, decided exactly by the oracles (ties either way; a first "
    "half of >= 2 window averages cancelling to exactly 0 is left undecided)",
    "round 4, tumbling windows of a (keyed) WindowedStream come out of a HashMap: their aggregates / reduces are compared as sorted "
    "multisets of canonical strings, flatten as a sorted id list; keyed maps are listed by ascending key; KW cases use sliding/session "
    "durations >= 2 ms (the <= 1 ms constructor is exercised by the WS cases under a deadline)",
    "durations cross the wire as `<ms>` or `u<micros>`; the driver hands DurArg.ms to the model (micros/1000), proved equal to "
    "Duration::as_millis() of Duration::from_millis / from_micros as std defines them (parseDur_truncates; Dur mirrors secs + subsec nanos); "
    "TimeWindow::new with start + duration > u64::MAX (an overflowing add in the code) is not generated: unbounded windows start at 0",
    "event identity = caller-assigned id (StreamEvent.id), unique per case",
    "WindowedStream windows come out of a HashMap in arbitrary order: compared as the list sorted by start (starts are proved distinct); "
    "counts() compared as a sorted multiset",
    "retention cap semantics: the oldest-arrived event is dropped first; StreamAlphaNode counts the cap on arrival, before eviction",
    "sliding/session WindowManager and session StreamAlphaNode are specified AS CODED (first fit into fixed windows, the session "
    "timeout is not read by the manager; the node's 'last activity' is the last ARRIVED timestamp): what they do not guarantee is "
    "stated and refuted in Lean (manager_sliding_span_complete_counterexample, manager_session_gap_counterexample, "
    "alpha_session_keeps_live_session_counterexample) and tagged in the evidence (span-incomplete, late-wipe), not flagged",
    "manager theorems for sliding/session need duration >= 1 ms (with 0 the manager holds no window at all; covered by the diff only)",
]


def classify(case, impl, model, oracle, kind):
    comp = case.split(" ", 1)[0]
    if kind == "oracle":
        return "oracle:" + oracle.split("@")[0].replace("fail ", "")
    return "diff:" + comp


LEVEL_TEXT = ("Lean 4 theorems (kernel-checked, unbounded: every duration/cap/limit, every finite event history in any arrival order, "
              "every clock sequence) that the executable model of TimeWindow (add_event, record), tumbling WindowedStream::new, "
              "StreamAlphaNode (none/sliding/tumbling, explicit clock) and the aggregates satisfies the observation-level specs "
              "twRunOk / wmRunOk / wsOk / anRunOk / aggOk, plus aligned_contains/aligned_unique, record_retains_exactly, "
              "windowed_stream_partition, manager_places_once + manager_invariant for WindowManager::process_event, and machine-checked "
              "counterexamples for the pre-fix eviction (F-C12) and the pre-fix tumbling roll-over (F-C12b); the same for the sliding and "
              "session modes: wm_fixed_model_meets_spec (WindowManager S/N, every clause of wmfStepOk over all histories), "
              "manager_fixed_places_once/_invariant, windowed_stream_sliding_grid/_exact + wss_model_meets_spec (WindowedStream::new S/N after "
              "fix-C12c, no hypothesis on duration/cap/events; termination by the positive step, ws_grid_length), ws_sliding_old_diverges "
              "(F-C12c: the pre-fix loop guard holds after any number of iterations when d <= 1 ms), alpha_session_model_meets_spec/"
              "_invariant/_step (StreamAlphaNode session windows under any clock); aggregates2_meet_spec/_are_exact (First, Last, "
              "CountDistinct, CountBy, Percentile as order statistic); round 4 (Theorems2.lean, 21 theorems): xsum_meets_spec (the sum folded "
              "in the code's order = the closed-form oracle), sum_is_fold / record_sum_is_fold / stddev_is_fold / detect_anomalies_exact / "
              "calculate_trend_exact over abstract float operations, percentile_picks_sorted_index + percentile_index_meets_spec (any percentile), "
              "keyBy_partition, keyed_windowed_per_key (+ definedness), keyed_windowed_stream_partition / _sliding (per-key instances of the "
              "single-stream theorems), windowed_aggregate_is_fold, reduce_is_fold, kw_model_meets_spec (every clause of kwOk for all the stream "
              "operators, any key function / configuration / event list), moving_average_is_fold, ms_model_meets_spec, window_statistics_exact, "
              "alpha_statistics_exact, field_extraction_exact, stddev_oracle_is_variance; tied to the Rust code by a "
              "correspondence check (exhaustive short sequences + random longer ones, every public entry point, observations after every call) "
              "and by evaluating the same Spec predicates on the implementation's observations.")
LEVEL_NOTE = ("Trusted: Lean kernel + {propext, Classical.choice, Quot.sound}; hand-written model tied to the code by differential testing only; "
              "harness/driver glue; clock hook. Sliding/session WindowManager and session StreamAlphaNode are specified as coded (first fit; "
              "last-arrived timestamp) — see ASSUMPTIONS. Floats are a parameter of the model; that IEEE arithmetic meets the exact oracles "
              "for StdDev / percentile index / z-score / trend is checked per case, not proved. StreamAnalytics::aggregate_cached and the "
              "non-windowing DataStream combinators are outside the model.")
DESIGN_REF = "§6 C12"
