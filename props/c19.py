ID = "C19"
THEOREMS = [
    "C19.parallel_perm_sequential",
    "C19.same_fired_set",
    "C19.evaluated_exactly_once",
    "C19.levels_descending",
    "C19.chunks_cover",
    "C19.level_parallel_blocks",
    "C19.returns",
    "C19.returns_of_fair",
    "C19.worker_reads_only",
    "C19.schedule_preserves_facts",
    "C19.model_meets_spec",
    "C19.max_threads_zero_errors",
    "C19.schedule_independent_counterexample",
]
N = {"quick": 3000, "thorough": 40000}
EXHAUSTIVE = {"quick": False, "thorough": False}
RULE = ("cases = corpus + a systematic sweep of chunking shapes (n rules on one level x max_threads 1..16, thorough: every "
        "n in 1..24; quick: n in 1,4,..,22 x selected thread counts; debug_mode alternating off / configured engine / both engines) "
        "+ a contention family + a SLOW-WORKER family (6 cases, thorough 24: one level - every third case two - of simple rules really split over 2..16 workers; in the perturbed repetition ONE worker - first, middle or last - sleeps 1.3 s / 2.5 s (a few short delays 5..900 ms too) at its schedule point before it evaluates its chunk, in the middle of it, or before it publishes its results, the other workers running freely: the harness defines the C symbol sched_yield itself and picks a schedule seed under which that point is the only one that yields, so the unchanged hook delays exactly that worker; a run in which no worker took the delay reports slow-not-taken) + N/8 UNUSUAL-RULE-NAME cases (name tokens %L<pad>.<w>.<k> / %h<hex>, opaque for the model: names longer than 40 / 64 / 255 / 16 / 32 / 128 / 256 / 1024 bytes with a 2-, 3- or 4-byte character at every alignment around that offset, multi-byte only, long ASCII, the empty name, blanks, newline / NUL / separators / quotes / format braces, names differing only in case or normalisation form, and in a quarter of them the same name twice in one knowledge base (add_rule rejects the later rule: it is on neither path); debug_mode off / configured engine / sequential engine / both in equal parts, parallelism off in 1/6; half random plain cases, half one or two levels of simple rules most of which fire) + 12 action-kind cases (one parallelised level whose rules carry every ActionType there is: Set, MethodCall, "
        "Log, Retract, Append, Custom with no function registered, the four workflow kinds) + N/6 cases of the EXTENDED grammar (a plain "
        "case or session in which 2/5 of the leaves are replaced by Value::Expression right-hand sides - the GRL parser's form of `a > b`, "
        "`a > U.x`, `a > b + 1`: bare field names and one-step + - * arithmetic over integers, integral floats, numeric strings, booleans, "
        "words and missing fields, evaluated by expression::evaluate_expression which reads the FLAT key first - and by the string operators "
        "contains / not_contains / startsWith / endsWith / matches / in against string constants, other fields and non-strings; string facts "
        "that are substrings of one another; a field two objects deep (U.p.q), a path through a scalar (U.x.y) and flat keys spelled like "
        "them; half of the rules with actions of the other kinds; a quarter with engines built from ParallelConfig::default() (max_threads "
        "overridden), half with the facts built through set + create_object + set_nested, from_context, or merge + remove + snapshot + clear + "
        "restore instead of add_value) + N random cases: 17/24 plain configurations (1..24 typed-core rules with "
        "salience ties over 1..4 levels, enabled on/off, max_threads 1..16, min_rules_per_thread 1..4, parallelism on/off, "
        "And/Or/Not condition trees to depth 3 over fields incl. a nested object and a never-present field, integer-literal and "
        "field-reference right-hand sides, a quarter of them with constants and fact values of every scalar type (Integer, integral "
        "Number, Boolean, numeric-looking and word String), assignments that would flip other rules' verdicts if performed), "
        "1/8 look-alike families (one level of single-comparison rules on one or two fields, mostly == / !=, constants that print "
        "alike but differ in type - 25 / 25.0 / \"25\", true / \"true\" - as twins of each other, few threads so that they share a "
        "worker's chunk), 1/6 sessions (ONE engine object per configuration run on two or three different KnowledgeBase objects of "
        "the same name: same number of rules (same version()) but other conditions / saliences / enabled flags / names, the same "
        "rules on other facts, or one rule more or fewer); in a quarter of the fact stores (plain, session stages) and a third of the "
        "two-field look-alike stores, FLAT top-level keys spelled like the dotted fields (`~U.x` = add_value(\"U.x\", v)) beside the object "
        "field of the same spelling holding another value (or its look-alike in another type), beside an object that lacks the field, "
        "or with no object at all - the model's lookup is get_nested first, flat key as the fallback; debug_mode = true in half of the cases (configured engine, sequential "
        "engine, or both; the engine's stdout goes to /dev/null). Each stage of a case is executed on the real "
        "ParallelRuleEngine::execute_parallel 2+reps times on engine objects that live for the whole case: once with enabled=false "
        "(the engine's own sequential path, S), "
        "once as configured, and reps (3, thorough 4; sessions 1) times under seeded schedule points (hook rre_verif, yield/micro-sleep "
        "in the worker loop and before the critical section). The Lean model is run on the same case under a pseudo-random "
        "interleaving; S is compared exactly, every parallel run as (sorted (name,fired) multiset, evaluated, fired, facts "
        "after). The Spec predicate C19.runOk (+ sameAsRun against S) is evaluated on every implementation run of every stage, against "
        "the reference of that stage's own rules and facts: counters = "
        "vector, same pairs/counts as the one-by-one reference, facts untouched, level segments in descending salience, each "
        "parallel segment = the chunk segments in some append order. Non-trivial = a level really ran on >= 2 worker threads "
        "and the case has both fired and non-fired rules; distinct = distinct case text.")
TRUSTED = [
    "Lean 4.33 kernel; axioms of every property theorem within {propext, Classical.choice, Quot.sound} (audited each run)",
    "hand-written model RreModel/C19/Model.lean tied to src/engine/parallel.rs by the correspondence check only (differential testing)",
    "the theorems are about the model's abstract schedule semantics (any list of worker indices; one atomic step = evaluate one "
    "rule incl. its actions, or the single results.extend under the mutex); std::sync::Mutex/RwLock mutual exclusion, "
    "thread::spawn/join and Arc are assumed; real OS interleavings are only sampled (perturbed by the rre_verif schedule points)",
    "harness/src/bin/c19.rs, Driver/C19.lean parsing/printing glue, check.py diff",
]
ASSUMPTIONS = [
    "typed core: Single(field op scalar literal | field op string literal-or-other-field | field op Value::Expression(name | name +-* k)) / Compound And,Or / Not conditions over scalar-valued "
    "(Integer, integral Number, Boolean, String) flat or nested facts of any depth (incl. flat keys spelled like a nested path; a condition never reads a path whose value is an object), "
    "operators == != > >= < <= (== / != type-sensitive as Value's PartialEq, ordering through to_number) contains not_contains startsWith endsWith matches in (string arms through as_string_ref; "
    "`in` only against non-arrays), every ActionType (Custom only with no function registered); arithmetic right-hand sides only with fact numbers within +-2^31 and k <= 2^20 (f64 exact); integers and integral floats within +-2^53 (i as f64 exact), string "
    "literals are decimal integers or words that Rust's f64 parser rejects; no Null / Array / Expression values; no custom functions registered, no accumulate/exists/forall/multifield/function-call conditions "
    "(accumulate conditions and registered custom functions can write the shared facts: outside the theorem's ReadOnly hypothesis)",
    "max_threads >= 1 (max_threads = 0 panics in usize::div_ceil when a level is parallelised: modelled as an explicit error, corpus case)",
    "rule names are opaque identifiers, unique per knowledge base (KnowledgeBase::add_rule rejects a name that is already there: the driver drops such a rule from the case before the model sees it, the harness checks that add_rule did reject it); salience i32 modelled as Int",
    "a worker thread does not panic (the typed-core evaluator has no panicking path); execution_time / parallel_speedup / the debug text not observed",
    "the engine is stateless between calls (the model evaluates every call of a session as the same function of that call's rules and facts)",
]


def _canon(run):
    p = run.split("/")
    if len(p) == 5 and p[0] == "ok":
        ctx = "," .join(sorted(p[3].split(","))) if p[3] != "-" else "-"
        return "/".join([p[0], p[1], p[2], ctx, p[4]])
    return run


def _stages(line):
    """observation / prediction -> list of stages, each a list of run tokens (stages are separated by `;;`)"""
    out, cur = [], []
    for t in line.split():
        if t == ";;":
            out.append(cur)
            cur = []
        else:
            cur.append(t)
    out.append(cur)
    return out


def _agree_stage(i, m):
    if len(m) != 2 or len(i) < 2:
        return False
    if i[0] != m[0]:                       # sequential path: exact, order included
        return False
    want = _canon(m[1][2:])
    return all(t.startswith("P:") and _canon(t[2:]) == want for t in i[1:])


def agree(case, impl, model):
    si, sm = _stages(impl), _stages(model)
    return len(si) == len(sm) and all(_agree_stage(i, m) for i, m in zip(si, sm))


def classify(case, impl, model, oracle, kind):
    if kind == "oracle":
        import re
        # `K<n>:` = the failing call is on an engine that has already run n other knowledge bases
        return "oracle:" + re.sub(r"K\d+", "K", re.sub(r"P\d+", "P", oracle.replace("fail ", "")))
    si, sm = _stages(impl), _stages(model)
    later = ""
    for k, (i, m) in enumerate(zip(si, sm)):
        if not _agree_stage(i, m):
            later = "later-stage:" if k > 0 else ""
            if i[:1] != m[:1]:
                return "diff:" + later + "sequential-path"
            break
    return "diff:" + later + "parallel-run"


LEVEL_TEXT = ("Lean 4 theorems (kernel-checked, unbounded: every read-only evaluator/action semantics, every configuration with "
              "max_threads >= 1, every rule list, every facts, every schedule = arbitrary interleaving of the workers' atomic steps) "
              "that the executable model of ParallelRuleEngine::execute_parallel (grouping by salience, should_parallelize, "
              "div_ceil chunking, workers as a shared-memory small-step machine, join) returns, without error, a context vector "
              "that is a permutation of the one-by-one evaluation of the enabled rules on the same facts, with equal evaluated/fired "
              "counts, facts untouched, levels in descending salience, chunks partitioning each level into <= max_threads non-empty "
              "segments, and every worker appended after any fair finite schedule; the typed-core actions/evaluator are proved "
              "read-only and a counterexample shows the hypothesis is necessary. Tied to src/engine/parallel.rs by a correspondence "
              "check against the real engine (sequential path exact; parallel runs as multisets, repeated under seeded schedule "
              "points) and by evaluating the same Spec predicate on every implementation run. PARTIAL: the schedule semantics is "
              "abstract; real OS interleavings are only sampled.")
LEVEL_NOTE = ("Trusted: Lean kernel + {propext, Classical.choice, Quot.sound}; hand-written model tied to the code by differential "
              "testing only; Mutex/RwLock/spawn/join assumed; OS interleavings sampled, not enumerated; harness/driver glue.")
DESIGN_REF = "§6 C19"
