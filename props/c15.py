"""C15 — knowledge base lookups, listing order, index and version stay consistent (sequential histories and schedules)."""
import os
import re
import subprocess
import time

ID = "C15"
THEOREMS = [
    # sequential: refinement of the insertion-ordered-list specification, for all histories
    "C15.kb_refines_spec",
    "C15.model_meets_spec",
    "C15.bulk_load_is_prefix",
    "C15.bulk_load_state",
    "C15.lookup_latest",
    "C15.duplicate_rejected_no_effect",
    "C15.listing_once_sorted_stable",
    "C15.sort_is_stable_sort",
    "C15.index_consistent",
    "C15.version_strictly_increases",
    "C15.statistics_consistent",
    # the remaining public surface that shows the stored rules (reach audit): Clone, export_to_grl, get_rules_snapshot
    "C15.clone_same_listing_lookups",        # kb.clone(): same listing, same lookups, exact index, version = number of rules
    "C15.clone_histories_meet_spec",         # histories that continue on a clone at arbitrary points satisfy xrunOk (the oracle)
    "C15.clone_histories_refine",
    "C15.clone_independent",                 # a call on the clone / the original changes no observation of the other one
    "C15.fork_keeps_original",
    "C15.twins_show_listing",                # get_rules_snapshot / export_to_grl show the specification's listing, version, count
    # schedules: over the lock table regenerated from the source text on every run
    "C15.locks_ordered",
    "C15.mutators_take_write_first",
    "C15.methods_two_phase",
    "C15.table_covers_api",
    "C15.ordered_acquisition_deadlock_free",
    "C15.kb_deadlock_free",
    "C15.guards_mutually_exclusive",
    "C15.two_phase_atomic",
    "C15.linSearch_sound",
    # schedules WITH DATA: abstract concurrent machine (three RwLocks, shared state = the three components, one call per
    # thread = acquire* . read* . body (Model.step on the private copies) . write* . release* . return, all interleavings)
    "C15.table_footprints_ok",               # decide, over the regenerated table: every row is a well-formed lock program
    "C15.footprint_sound",                   # the declared footprints are footprints of Model.step (all states/arguments)
    "C15.footprint_exact",                   # covers(need) <=> well-formed for every call of the method (the check is exact)
    "C15.footprint_has_teeth",               # ... and dropping / weakening a guard makes a row ill-formed
    "C15.table_programs_wellformed",
    "C15.two_phase_footprint_linearizable",  # general: strict 2PL + footprints => linearizable (real time, results, state)
    "C15.kb_linearizable",                   # for the programs of the regenerated table, every interleaving
    "C15.kb_linearizable_complete",
    "C15.kb_concurrent_consistent",          # => index exact / sorted / unique names / lookup = latest after any concurrent execution
    "C15.kb_history_linearizable",           # same, in the vocabulary of the runtime oracle (Event / RespectsRealTime / Replays)
    # PROGRESS of the data-carrying machine (Theorems2.lean / Live.lean)
    "C15.data_machine_deadlock_free",        # ordered rows + a free lock is granted to a waiter => some pending call can always progress
    "C15.data_machine_step_measure",         # every step decreases the call's mandatory-step count or is a stutter (re-read / write)
    "C15.data_machine_progress_bounded",     # <= sum(3|row|+3) non-stutter steps in any execution of n calls
    "C15.data_machine_terminates_under_fairness",  # an infinite execution is eventually only stutters: finitely many => finite
    "C15.data_machine_fair_run_completes",   # scheduled runs: fairness (no starvation of enabled progress, finite loops) => every call returns
    "C15.data_machine_maximal_complete",     # nothing but fresh invocations possible => no call pending
    "C15.data_machine_can_always_complete",  # from every reachable configuration all invoked calls can be completed within 2*Mu steps
    "C15.kb_calls_can_complete",             # ... for the regenerated table, and the completed execution is linearizable
    "C15.kb_maximal_complete",               # for the regenerated table: no deadlock; maximal executions are complete AND linearizable
    # the bodies against the source: write footprints re-extracted from the text on every run (Generated kbWrites)
    "C15.table_writes_match_model",          # decide: the components a method writes through a guard = what Model.step may change
    "C15.write_guards_all_used",             # decide: written components = the locks taken in write mode (no unused write guard)
]
LEAN_TARGETS = ["RreModel.C15.Theorems", "RreModel.C15.Theorems2"]
LEAN_FILES = []          # RreModel/C15/** (incl. Generated/KbLocks.lean) is audited by default
N = {"quick": 2000, "thorough": 40000}
EXHAUSTIVE = {"quick": True, "thorough": True}
# exhaustive enumerations streamed by extra(): (names, saliences, alphabet, minlen, maxlen)
ENUM = {
    "quick": [(4, 3, "full", 5, 5)],
    "thorough": [(4, 3, "full", 5, 6), (2, 2, "arc", 6, 8)],
}
RULE = ("cases = corpus + EXHAUSTIVE mutator sequences (add/remove/enable/disable/clear; every sequence up to renaming of the "
        "rule names, each emitted under a random renaming; every prefix is its own case, observed by a full snapshot of all "
        "observers after its last call). Quick: every length <=5 over 4 names x 3 saliences (530,951 canonical sequences = all "
        "10,172,525 plain ones up to renaming; lengths <=4 through the generic pipeline, length 5 streamed) and <=5 over 2 names x 2 "
        "saliences (88,580); large knowledge bases: N/25 histories that store 21..48 rules under numbered names in 3-4 salience classes "
        "in non-monotone insertion order with removals, toggles, rejected duplicates and re-adds (insertion order among equals must "
        "survive sorts of more than 20 elements). Thorough: <=6 over 4 x 3 (11,949,396 canonical = 254,313,150 plain) and <=8 over 2 names x 2 saliences "
        "with add/remove/clear (3.4M). Plus N random histories of length 1..14 with a snapshot after every call "
        "N/10 bulk loads (add_rules_from_grl after a random pre-history); forks: every mutator sequence of length <=3 over 2 names x 2 "
        "saliences with a fork (`spare = kb; kb = kb.clone()`, both stay alive) inserted at a random position, continued on the clone "
        "resp. on the original, with a look at the other one at the end (`z` exchanges the two); N/10 random histories with several "
        "forks and exchanges; forks of >20 stored rules inside the large histories (model cloneKB = re-adding into a new state, "
        "two independent states; specification Spec.clone); every "
        "snapshot also reads export_to_grl back (header name/version/count + rule blocks = the get_rules listing) and compares "
        "get_rules_snapshot with get_rules; "
        "and N/8 concurrent histories of 3 threads x 4 calls (mutators and observers incl. get_rules_snapshot, export_to_grl and clone, invocation/response stamps from one atomic "
        "counter, cfg-guarded yield points between lock acquisitions) checked for linearizability against the sequential model by "
        "exhaustive search over linearizations; plus N/16 'readers under contention' histories: two threads of mutators and one thread "
        "of four read calls dealt round-robin over ALL eleven public read methods (get_rule, get_rules, get_rule_names, rule_count, "
        "get_rules_by_salience, get_rule_by_index, version, get_statistics, get_rules_snapshot, export_to_grl, clone) — the tags rd_<m> "
        "count the histories in which method <m> ran while a changing call of another thread was in flight. Each sequential case is run on KnowledgeBase (real code) and on the Lean model, the "
        "observations are diffed, and Spec.runOk (abstract insertion-ordered-list specification) is evaluated on the implementation's "
        "observations. Non-trivial = a duplicate was rejected, a rule was removed, the salience order differs from insertion order, "
        "or >=2 rules stored (sequential); overlapping calls with at least one successful change (concurrent). distinct = distinct case text.")
TRUSTED = [
    "Lean 4.33 kernel; axioms of every property theorem within {propext, Classical.choice, Quot.sound} (audited each run)",
    "hand-written model RreModel/C15/Model.lean tied to src/engine/knowledge_base.rs by the correspondence check only (differential testing)",
    "the lock-table translator props/c15.py:extract_lock_table (text-level: comments/strings stripped, brace matching, "
    "`self.<field>.read()/write()` and `self.<method>(` patterns; refuses anything else that touches a lock field)",
    "the write-footprint reader props/c15.py:extract_write_table (text-level, best effort: per guard variable, uses are classified as "
    "written (`*g = / += `, a `&mut self` method of Vec/HashMap such as push/insert/remove/clear/sort_by_key/get_mut, `&mut g`), read, or "
    "not understood; a method with a use that is not understood gets NO row and no claim is made about it)",
    "std::sync::RwLock: mutual exclusion of a writer with everyone else (hypothesis `AdmSafe` of kb_linearizable: a guard is "
    "granted only if compatible with the guards of the other threads), and a free lock is granted to some waiter (hypothesis "
    "`Fair` of the deadlock theorems)",
    "Rust's guard discipline: a method touches a protected component only through a live guard on it (RwLock<T> owns the data), "
    "so reads happen between acquisition and release, writes only under a write guard — this is what the steps read/write of "
    "the machine in Lin.lean encode; each individual copy of one component is atomic",
    "harness/src/bin/c15.rs, Driver/C15.lean parsing/printing glue, check.py diff",
    "real OS interleavings are sampled (3 threads x 4 calls with perturbation), not enumerated",
]
ASSUMPTIONS = [
    "a rule is (name, salience, enabled, tag); tag stands for the remaining content of the rule (stored in Rule::description)",
    "HashMap<String,usize> modelled as an association list with unique keys; get_rule_names compared as a multiset (sorted)",
    "slice::sort_by_key / sort_by are stable sorts (std documentation); modelled by a stable insertion sort proved sorted+stable+permutation",
    "version is u64 modelled as Nat (no overflow)",
    "schedules: each method = acquire locks in textual order, body, release everything at the end (guards are function-level lets)",
    "schedules with data (Lin.lean): a call = invoke, acquisitions in the row's order, reads of held components at any time before "
    "the body (as early as the lock allows), the body = Model.step on the private copies once every lock of the row is held, writes "
    "of arbitrary intermediate values and finally of the computed values at any time after the body while write-held (as late as "
    "the lock allows), releases in any order after the body, return. Progress (Live.lean): the admission policy grants a lock that "
    "nobody holds to one of the calls waiting for it (AdmLive — true of plain RwLock compatibility: rwAdm_live); the optional loops "
    "read*/write* of a call are finite (the fairness assumption under which data_machine_terminates_under_fairness yields termination: "
    "a Rust method body is a terminating sequential program). A read that the real code performs after its last acquisition "
    "returns what a read before it returns (the component is held throughout), so placing all reads before the body loses nothing; "
    "the mutators take all their locks before they touch anything. Composite methods (add_rules_from_grl, clone) are sequences of "
    "such calls and are not calls of the model",
]
LEVEL_TEXT = ("Lean 4 theorems (kernel-checked, unbounded: every finite history of add/remove/enable/disable/clear and observer calls) that the "
              "executable model of KnowledgeBase (rules vector + name->position index + version) forward-simulates the abstract specification "
              "'insertion-ordered list without duplicate names': every method returns what the specification returns, lookups return the most "
              "recently added rule of that name, duplicates are rejected without effect, listings are the stable descending-salience sort, "
              "rules[index[n]].name = n always, the version grows by one on every successful change; tied to src/engine/knowledge_base.rs by "
              "an exhaustive short-history + random correspondence check and by evaluating the Spec predicate on the implementation's own "
              "observations. Schedules: the per-method lock acquisition table is re-extracted from the source text on every run; theorems by "
              "`decide` over that table (one global order, mutators take the rules write lock first, two-phase) and a general theorem that "
              "ordered acquisition is deadlock-free in an abstract interleaving semantics. Schedules with data: an abstract concurrent "
              "machine (three RwLocks, shared memory = the three components, any number of threads each executing one call as "
              "acquire*.read*.body.write*.release*, every interleaving, arbitrary intermediate writes) for which it is proved that "
              "strict two-phase locking with footprints implies linearizability w.r.t. the sequential model (real-time order, exact "
              "results, exact final state) — `two_phase_footprint_linearizable`, instantiated for the regenerated table by "
              "`table_footprints_ok` (decide: every row covers the footprint of its Model.step clause, proved sound for all states) "
              "as `kb_linearizable`; concurrent histories of the real code are in addition checked for linearizability against the model. "
              "Progress of that machine: no reachable configuration is a deadlock (`data_machine_deadlock_free`: some pending call can always "
              "take a step that brings it closer to its response), every step is progress or one of the two optional stutters (re-read, "
              "write), at most sum(3|row|+3) progress steps, an infinite execution is eventually only stutters, and an execution that cannot "
              "be continued has completed every call and is linearizable (`kb_maximal_complete`). The write footprints of the method bodies "
              "(which components are written through a guard) are re-extracted from the source text on every run and compared with the "
              "model's footprints and with the lock rows by `decide` (`table_writes_match_model`, `write_guards_all_used`).")
LEVEL_NOTE = ("Trusted: Lean kernel + {propext, Classical.choice, Quot.sound}; hand-written model tied to the code by differential testing; "
              "text-level lock-table translator; RwLock semantics assumed (a guard is granted only if compatible; a free lock is granted to "
              "some waiter); linearizability is proved for the abstract machine of Lin.lean whose lock programs are the rows of the "
              "regenerated table and whose bodies are the sequential model — that the real method bodies access the components "
              "only under their guards is Rust's RwLock<T> ownership, that they compute Model.step is the sequential correspondence "
              "check; real OS schedules are additionally sampled (3 threads x 4 calls) and checked by the proved-sound search.")
DESIGN_REF = "§6 C15"


def classify(case, impl, model, oracle, kind):
    pre = "conc:" if case.startswith("C") else "seq:"
    if kind == "oracle":
        return pre + "oracle:" + oracle.split("@")[0].replace("fail ", "")
    return pre + "diff"


def agree(case, impl, model):
    # concurrent histories are schedule dependent: the model predicts nothing, the oracle decides
    if case.startswith("C"):
        return True
    return impl == model


# ------------------------------------------------------------------------------------------------
# lock-table translator: src/engine/knowledge_base.rs  ->  lean/RreModel/C15/Generated/KbLocks.lean
# ------------------------------------------------------------------------------------------------
class ExtractError(Exception):
    pass


def _strip(src):
    """blank out comments, string and char literals (same length, newlines kept) so that braces and
    identifiers inside them are never seen"""
    out, i, n = [], 0, len(src)
    while i < n:
        c = src[i]
        if src.startswith("//", i):
            while i < n and src[i] != "\n":
                out.append(" ")
                i += 1
        elif src.startswith("/*", i):
            depth = 0
            while i < n:
                if src.startswith("/*", i):
                    depth += 1
                    out.append("  ")
                    i += 2
                elif src.startswith("*/", i):
                    depth -= 1
                    out.append("  ")
                    i += 2
                    if depth == 0:
                        break
                else:
                    out.append("\n" if src[i] == "\n" else " ")
                    i += 1
        elif c == '"':
            out.append(" ")
            i += 1
            while i < n and src[i] != '"':
                if src[i] == "\\":
                    out.append(" ")
                    i += 1
                out.append("\n" if src[i] == "\n" else " ")
                i += 1
            out.append(" ")
            i += 1
        elif c == "'" and re.match(r"'(\\.|[^\\'])'", src[i:i + 4]):
            m = re.match(r"'(\\.|[^\\'])'", src[i:i + 4])
            out.append(" " * len(m.group(0)))
            i += len(m.group(0))
        else:
            out.append(c)
            i += 1
    return "".join(out)


def _block(s, open_idx):
    """index one past the brace matching s[open_idx] == '{'"""
    depth = 0
    for j in range(open_idx, len(s)):
        if s[j] == "{":
            depth += 1
        elif s[j] == "}":
            depth -= 1
            if depth == 0:
                return j + 1
    raise ExtractError("unbalanced braces")


def extract_lock_table(path):
    """-> (lock field names in declaration order, [(method, [(rank, mode, to_end)], early_release, composite)],
           {method: why its row could not be extracted})
    A method whose body is not understood (or that calls such a method) loses ITS row only — the rows of the other
    methods are still regenerated from the current text; what is wrong with the struct / impl blocks as a whole raises."""
    s = _strip(open(path).read())
    m = re.search(r"\bstruct\s+KnowledgeBase\s*\{", s)
    if not m:
        raise ExtractError("struct KnowledgeBase not found")
    body = s[m.end():_block(s, m.end() - 1) - 1]
    locks = []
    for fm in re.finditer(r"(\w+)\s*:\s*([^,]+)", body):
        if re.search(r"\b(RwLock|Mutex)\s*<", fm.group(2)):
            locks.append(fm.group(1))
    if not locks:
        raise ExtractError("no RwLock/Mutex field in struct KnowledgeBase")
    rank = {f: i for i, f in enumerate(locks)}

    bodies = {}
    impls = list(re.finditer(r"\bimpl\s+(?:Clone\s+for\s+)?KnowledgeBase\s*\{", s))
    if not impls:
        raise ExtractError("impl KnowledgeBase not found")
    for im in impls:
        end = _block(s, im.end() - 1)
        blk = s[im.end():end - 1]
        pos = 0
        for fm in re.finditer(r"\bfn\s+(\w+)\s*(<[^>]*>)?\s*\(", blk):
            if fm.start() < pos:
                raise ExtractError("nested fn in " + fm.group(1))
            ob = blk.find("{", fm.end())
            semi = blk.find(";", fm.end())
            if ob < 0 or (0 <= semi < ob):
                raise ExtractError("cannot find the body of fn " + fm.group(1))
            cb = _block(blk, ob)
            if fm.group(1) in bodies:
                raise ExtractError("duplicate fn " + fm.group(1))
            bodies[fm.group(1)] = blk[ob:cb]
            pos = cb
    if not bodies:
        raise ExtractError("no methods found")

    lockre = "|".join(re.escape(f) for f in locks)
    direct = {}
    errors = {}

    def analyse(name, b):
        # every textual mention of a lock field must be a recognised acquisition
        events = []   # (offset, kind, payload)
        for mm in re.finditer(r"\bself\s*\.\s*(%s)\b(?!\s*\()" % lockre, b):
            tail = b[mm.end():]
            am = re.match(r"\s*\.\s*(read|write|lock)\s*\(\s*\)\s*\.\s*unwrap\s*\(\s*\)", tail)
            if not am:
                raise ExtractError(f"fn {name}: lock field `{mm.group(1)}` used other than by .read()/.write().unwrap()")
            mode = "read" if am.group(1) == "read" else "write"
            # held to the end <=> `let [mut] x = self.f.mode().unwrap();` at depth 1 of the function body
            pre = b[:mm.start()]
            depth = pre.count("{") - pre.count("}")
            lm = re.search(r"\blet\s+(mut\s+)?(\w+)\s*(:[^=]+)?=\s*$", pre)
            stmt_end = re.match(r"\s*;", tail[am.end():])
            to_end = bool(lm) and depth == 1 and bool(stmt_end) and lm.group(2) != "_"
            scoped = bool(lm) and depth > 1 and bool(stmt_end)
            events.append((mm.start(), "acq", (rank[mm.group(1)], mode, to_end, lm.group(2) if lm else None, scoped)))
        for mm in re.finditer(r"\bself\s*\.\s*(\w+)\s*\(", b):
            callee = mm.group(1)
            if callee not in bodies:
                raise ExtractError(f"fn {name}: call of unknown method self.{callee}() — cannot determine its locks")
            events.append((mm.start(), "call", callee))
        # a lock field reached through anything else than `self.` (e.g. a local alias) is not understood
        for f in locks:
            for mm in re.finditer(r"(?<![\w.])%s\s*\.\s*(read|write|lock|try_read|try_write|try_lock)\s*\(" % re.escape(f), b):
                raise ExtractError(f"fn {name}: `{f}.{mm.group(1)}()` not through self")
        if re.search(r"\.\s*(try_read|try_write|try_lock)\s*\(", b):
            raise ExtractError(f"fn {name}: try_* acquisition not supported")
        early = False
        guards = {e[2][3] for e in events if e[1] == "acq" and e[2][3]}
        for mm in re.finditer(r"\b(?:std\s*::\s*mem\s*::\s*)?drop\s*\(\s*(\w+)\s*\)", b):
            if mm.group(1) in guards:
                early = True
        if any(e[1] == "acq" and e[2][4] for e in events):
            early = True
        events.sort()
        direct[name] = (events, early)

    for name, b in bodies.items():
        try:
            analyse(name, b)
        except ExtractError as e:
            errors[name] = str(e)

    resolved = {}

    def resolve(name, stack):
        if name in resolved:
            return resolved[name]
        if name in stack:
            raise ExtractError("recursive methods: " + " -> ".join(stack + [name]))
        if name in errors:
            raise ExtractError(f"calls self.{name}(), whose row could not be extracted")
        events, early = direct[name]
        acqs = []
        if events and all(k == "call" for _, k, _ in events):
            # holds no lock of its own: a sequence of complete (atomic) calls of other methods
            for _, _, callee in events:
                resolve(callee, stack + [name])
            resolved[name] = ([], False, True)
            return resolved[name]
        for _, kind, payload in events:
            if kind == "acq":
                acqs.append(payload[:3])
            else:
                sub, sub_early, sub_comp = resolve(payload, stack + [name])
                if sub_comp:
                    raise ExtractError(f"fn {name}: calls the composite method {payload} while holding a lock")
                early = early or sub_early
                # locks taken inside a callee are released when it returns: temporaries of the caller
                acqs += [(r, m, False) for (r, m, _) in sub]
        resolved[name] = (acqs, early, False)
        return resolved[name]

    table = []
    for name in bodies:
        if name in errors:
            continue
        try:
            acqs, early, comp = resolve(name, [])
        except ExtractError as e:
            errors[name] = "fn %s: %s" % (name, e)
            continue
        table.append((name, acqs, early, comp))
    extract_lock_table.last = (locks, bodies, direct, dict(errors))
    return locks, table, errors


# ------------------------------------------------------------------------------------------------
# write-footprint translator: which protected components does a method WRITE through a guard?
# ------------------------------------------------------------------------------------------------
# methods of Vec / HashMap / u64 / &mut T that need `&mut self` on the guarded value (a write through the guard) ...
_MUT_METHODS = {
    "push", "insert", "remove", "clear", "sort", "sort_by", "sort_by_key", "sort_by_cached_key", "sort_unstable",
    "sort_unstable_by", "sort_unstable_by_key", "retain", "retain_mut", "truncate", "extend", "extend_from_slice", "pop",
    "swap", "swap_remove", "drain", "append", "dedup", "dedup_by", "dedup_by_key", "reverse", "resize", "resize_with",
    "get_mut", "iter_mut", "values_mut", "entry", "first_mut", "last_mut", "as_mut", "as_mut_slice", "deref_mut",
    "split_off", "fill", "fill_with", "rotate_left", "rotate_right", "remove_entry", "push_str", "take", "replace",
    "get_or_insert_with", "or_insert", "or_insert_with", "or_default", "and_modify", "copy_from_slice", "clone_from",
    "splice", "insert_str", "set", "borrow_mut",
}
# ... and methods that only need `&self`
_READ_METHODS = {
    "len", "get", "iter", "clone", "cloned", "contains_key", "contains", "keys", "values", "is_empty", "first", "last",
    "to_vec", "to_owned", "as_slice", "as_ref", "binary_search", "binary_search_by", "binary_search_by_key", "capacity",
    "get_key_value", "starts_with", "ends_with", "cmp", "partial_cmp", "eq", "ne", "lt", "le", "gt", "ge", "to_string",
    "as_str", "deref", "borrow", "windows", "chunks", "split_at", "split_first", "split_last", "join", "concat",
    "is_some", "is_none", "hash", "min", "max", "copied", "to_grl", "checked_add", "wrapping_add", "saturating_add",
}
_ASSIGN = re.compile(r"\s*(?:=(?!=)|\+=|-=|\*=|/=|%=|\|=|&=(?!&)|\^=|<<=|>>=)")


def _classify_place(b, i):
    """b[i:] is what follows a place expression rooted in a guard (`g`, `*g`, `self.f.write().unwrap()`).
    Skips `[..]` and `.field` projections. -> ('w' | 'r' | '?', something_consumed)"""
    n, used = len(b), False
    while True:
        m = re.match(r"\s*\[", b[i:])
        if m:
            j, depth = i + m.end() - 1, 0
            while j < n:
                if b[j] == "[":
                    depth += 1
                elif b[j] == "]":
                    depth -= 1
                    if depth == 0:
                        break
                j += 1
            if j >= n:
                return "?", True
            i, used = j + 1, True
            continue
        m = re.match(r"\s*\.\s*(\w+)\s*(\(|::\s*<)?", b[i:])
        if m:
            if m.group(2):
                if m.group(1) in _MUT_METHODS:
                    return "w", True
                if m.group(1) in _READ_METHODS:
                    return "r", True
                return "?", True
            if m.group(1) == "await":
                return "?", True
            i, used = i + m.end(), True
            continue
        break
    if _ASSIGN.match(b[i:]):
        return "w", True
    if re.match(r"\s*\?", b[i:]):
        return "?", True
    return "r", used


def _classify_use(b, start, end):
    """one textual use b[start:end] of a guard-rooted place -> 'w' | 'r' | '?' | None (not a use)"""
    pre = b[:start]
    if re.search(r"\.\s*$", pre):
        return None                       # `x.<name>`: a field / method of something else
    if re.search(r"&\s*mut\s*\*?\s*$", pre):
        return "w"                        # a mutable borrow of the protected value
    if re.search(r"\bdrop\s*\(\s*$", pre):
        return None                       # explicit release (seen by the lock-row extractor)
    if re.match(r"\s*:(?!:)", b[end:]) or (re.search(r"[|,]\s*(&\s*)?(mut\s+)?$", pre) and re.match(r"\s*\|", b[end:])):
        return "?"                        # struct-field label / type ascription / closure parameter of the same name
    deref = bool(re.search(r"\*\s*$", pre))
    shared = bool(re.search(r"&\s*\*?\s*$", pre))
    cls, used = _classify_place(b, end)
    if cls != "r":
        return cls
    if used or deref or shared:
        return "r"
    return "?"                            # the bare guard moved / passed on: not understood


def extract_write_table():
    """after extract_lock_table: -> ({method: {rank: (mode, 'w'|'r'|'?')}}, {method: why not extracted}).
    `mode` = strongest mode in which the method acquires the lock of that rank, class = whether the protected value is
    written through a guard on it ('w'), only read ('r'), or used in a way this text-level reader does not understand ('?').
    Nested `self.m()` calls are merged in. Never raises for a single method: what is not understood is reported as not
    extracted (the lock rows are not affected)."""
    locks, bodies, direct, errors = extract_lock_table.last
    lockre = "|".join(re.escape(f) for f in locks)
    rank = {f: i for i, f in enumerate(locks)}
    own, why = {}, {}

    def merge(d, r, mode, cls):
        m0, c0 = d.get(r, ("read", "r"))
        mode = "write" if "write" in (m0, mode) else "read"
        cls = "w" if "w" in (c0, cls) else ("?" if "?" in (c0, cls) else "r")
        d[r] = (mode, cls)

    for name, b in bodies.items():
        if name in errors or name not in direct:
            why[name] = "no lock row"
            continue
        try:
            d, names_seen = {}, {}
            for mm in re.finditer(r"\bself\s*\.\s*(%s)\b(?!\s*\()" % lockre, b):
                tail = b[mm.end():]
                am = re.match(r"\s*\.\s*(read|write|lock)\s*\(\s*\)\s*\.\s*unwrap\s*\(\s*\)", tail)
                if not am:
                    raise ExtractError("acquisition not understood")
                r = rank[mm.group(1)]
                mode = "read" if am.group(1) == "read" else "write"
                acq_end = mm.end() + am.end()
                pre = b[:mm.start()]
                lm = re.search(r"\blet\s+(mut\s+)?(\w+)\s*(:[^=]+)?=\s*$", pre)
                if lm and re.match(r"\s*;", b[acq_end:]):
                    g = lm.group(2)
                    if g in names_seen:
                        raise ExtractError(f"two guards named `{g}`")
                    names_seen[g] = r
                    merge(d, r, mode, "r")
                    scope = b[acq_end:]
                    if re.search(r"\blet\s+(mut\s+)?%s\b" % re.escape(g), scope) or re.search(r"\b(ref\s+)?(mut\s+)?%s\s*@" % re.escape(g), scope):
                        merge(d, r, mode, "?")
                        continue
                    for um in re.finditer(r"\b%s\b" % re.escape(g), scope):
                        cls = _classify_use(scope, um.start(), um.end())
                        if cls:
                            merge(d, r, mode, cls)
                else:
                    # a temporary guard: `*self.f.read().unwrap()`, `self.f.write().unwrap().push(..)`, `*self.f.write().unwrap() += 1`
                    cls = _classify_use(b, mm.start(), acq_end)
                    merge(d, r, mode, cls or "?")
            own[name] = d
        except ExtractError as e:
            why[name] = str(e)

    resolved = {}

    def resolve(name, stack):
        if name in resolved:
            return resolved[name]
        if name in stack or name not in own:
            raise ExtractError("callee %s not extracted" % name)
        d = dict(own[name])
        for _, kind, payload in direct[name][0]:
            if kind == "call":
                for r, (mode, cls) in resolve(payload, stack + [name]).items():
                    merge(d, r, mode, cls)
        resolved[name] = d
        return d

    out = {}
    for name in bodies:
        if name in why:
            continue
        try:
            out[name] = resolve(name, [])
        except ExtractError as e:
            why[name] = str(e)
    return out, why


def render_lock_table(locks, table, src_path, writes=None):
    L = ["/- GENERATED on every run by props/c15.py (extract_lock_table) from the CURRENT text of",
         "   src/engine/knowledge_base.rs — do not edit. One row per `fn` of `impl KnowledgeBase` (and of",
         "   `impl Clone for KnowledgeBase`): the `self.<field>.read()/write()` acquisitions in textual order, nested",
         "   `self.m()` calls inlined; lock = rank of the field in the declaration order of the struct. -/",
         "import RreModel.C15.Locks",
         "namespace C15.Generated",
         "open C15.Locks",
         "",
         "def lockNames : List String := [" + ", ".join('"%s"' % f for f in locks) + "]",
         "",
         "def kbMethods : List Method := ["]
    rows = []
    for name, acqs, early, comp in table:
        a = ", ".join("{ lock := %d, mode := .%s, toEnd := %s }" % (r, m, "true" if t else "false") for r, m, t in acqs)
        rows.append('  { name := "%s", acqs := [%s], earlyRelease := %s, composite := %s }'
                    % (name, a, "true" if early else "false", "true" if comp else "false"))
    L.append(",\n".join(rows))
    L.append("]")
    L.append("")
    L.append("/-- per method (rows only for the methods whose body the write-footprint reader understood completely): the ranks")
    L.append("of the components that the method WRITES through a guard (assignment / `+=` through `*guard`, a `&mut self` method of")
    L.append("the protected value such as push / insert / remove / clear / sort_by_key / get_mut, a `&mut` borrow) -/")
    L.append("def kbWrites : List (String × List Nat) := [")
    L.append(",\n".join('  ("%s", [%s])' % (n, ", ".join(str(r) for r in ws)) for n, ws in (writes or [])))
    L.append("]")
    L.append("")
    L.append("end C15.Generated")
    return "\n".join(L) + "\n"


# declared footprint of each modelled method (mirror of Lin.need, for the readable diagnosis only — Lean is the judge)
NEED = {
    "add_rule": [(0, "write"), (1, "write"), (2, "write")],
    "remove_rule": [(0, "write"), (1, "write"), (2, "write")],
    "set_rule_enabled": [(0, "write"), (1, "read"), (2, "write")],
    "clear": [(0, "write"), (1, "write"), (2, "write")],
    "get_rule": [(0, "read"), (1, "read")],
    "get_rules": [(0, "read")],
    "get_rules_snapshot": [(0, "read")],
    "get_rule_names": [(1, "read")],
    "rule_count": [(0, "read")],
    "get_rules_by_salience": [(0, "read")],
    "get_rule_by_index": [(0, "read")],
    "version": [(2, "read")],
    "get_statistics": [(0, "read"), (2, "read")],
    # Lin.aliases: methods with the footprint of a modelled one
    "clone": [(0, "read")],
    "export_to_grl": [(0, "read"), (2, "read")],
}


def pre_lean(ctx):
    repo = os.environ.get("RRE_REPO", "/repo")
    src = os.path.join(repo, "src", "engine", "knowledge_base.rs")
    root = os.path.dirname(os.path.dirname(os.path.abspath(__file__)))
    dst = os.path.join(root, "lean", "RreModel", "C15", "Generated", "KbLocks.lean")
    try:
        locks, table, row_errors = extract_lock_table(src)
        # write footprints (which components a method writes through a guard): a second, independent reading of the
        # bodies. Whatever it does not understand is "not extracted" (a note) — it never invalidates the lock rows.
        wrows, wtable, wwhy = [], {}, {}
        try:
            wtable, wwhy = extract_write_table()
            comp_names = {n for n, _, _, comp in table if comp}
            for name, _, _, comp in table:
                d = wtable.get(name)
                if d is None or comp or any(cls == "?" for _, cls in d.values()):
                    continue
                if any(mode == "read" and cls == "w" for mode, cls in d.values()):
                    continue
                wrows.append((name, sorted(r for r, (mode, cls) in d.items() if cls == "w")))
        except Exception as e:   # noqa: BLE001 — the reader is best effort by design
            ctx.notes.append("write-footprint extraction not available: %r" % (e,))
            wrows, wtable, wwhy = [], {}, {}
        text = render_lock_table(locks, table, src, wrows)
        if not os.path.exists(dst) or open(dst).read() != text:
            os.makedirs(os.path.dirname(dst), exist_ok=True)
            open(dst, "w").write(text)
        ctx.notes.append("lock table regenerated from %s: %d methods, locks %s" % (src, len(table), "<".join(locks)))
        ctx.lock_table = (locks, table)
        # a method whose body the translator does not understand has no row: the other rows are current, and the
        # theorems that name the method (table_covers_api, table_footprints_ok) will not check — said here in words
        for name, why in row_errors.items():
            ctx.broken.append(("lock-row-extraction",
                               "props/c15.py could not extract the lock acquisition row of one method from %s: %s. "
                               "The regenerated table has no row for it (the rows of the other %d methods are current); "
                               "the schedule theorems do not cover this method%s." % (
                                   src, why, len(table),
                                   " and C15.table_covers_api / C15.table_footprints_ok name it, so they no longer check"
                                   if name in NEED or name in ("get_rules_snapshot",) else "")))
        # readable diagnosis of what the `decide` theorems over the table will reject (the Lean build is the judge)
        for name, acqs, early, comp in table:
            shown = ", ".join("%s.%s%s" % (locks[r], m, "" if t else "(temp)") for r, m, t in acqs)
            ranks = [r for r, _, _ in acqs]
            if any(a >= b for a, b in zip(ranks, ranks[1:])):
                ctx.broken.append(("lock-order", f"fn {name} acquires [{shown}] — not in the one global order "
                                   f"{' < '.join(locks)} (theorem C15.locks_ordered no longer holds: a deadlock with another method is possible)"))
            if any(m == "write" for _, m, _ in acqs) and acqs[0] != (0, "write", True):
                ctx.broken.append(("lock-write-first", f"fn {name} acquires [{shown}] — a mutator must take {locks[0]}.write first and hold it "
                                   "to the end (theorem C15.mutators_take_write_first no longer holds)"))
            if not comp and (early or any(not t for _, _, t in acqs[:-1])):
                ctx.broken.append(("lock-two-phase", f"fn {name} [{shown}] releases a guard before its end (explicit drop / inner-block guard / "
                                   "temporary followed by another acquisition): the method is no longer two-phase, so not atomic "
                                   "(theorems C15.methods_two_phase and C15.table_footprints_ok no longer hold: kb_linearizable does not cover it)"))
        # write footprints against the guards and against the model (the `decide` theorems C15.write_guards_all_used /
        # C15.table_writes_match_model over the generated `kbWrites` are the judge; this is the readable diagnosis)
        fname = lambda r: locks[r] if r < len(locks) else "#%d" % r
        not_extracted = sorted(set(n for n, d in wtable.items() if any(c == "?" for _, c in d.values())) |
                               set(n for n in wwhy if n in NEED))
        ctx.notes.append("write footprints extracted for %d methods (%s)%s" % (
            len(wrows), ", ".join("%s:{%s}" % (n, ",".join(fname(r) for r in ws)) for n, ws in wrows if ws),
            "; NOT extracted (no claim made): " + ", ".join(not_extracted) if not_extracted else ""))
        ctx.write_table = {"rows": {n: [fname(r) for r in ws] for n, ws in wrows}, "not_extracted": not_extracted}
        for name, d in wtable.items():
            for r, (mode, cls) in sorted(d.items()):
                if mode == "write" and cls == "r":
                    ctx.broken.append(("lock-write-unused", f"fn {name} takes {fname(r)}.write() but never writes through that guard "
                                       "(only reads): it excludes every reader of the component for nothing, and its lock row claims a "
                                       "change that the body does not make (theorem C15.write_guards_all_used no longer holds)"))
                if mode == "read" and cls == "w":
                    ctx.broken.append(("lock-write-through-read", f"fn {name} writes {fname(r)} through a guard it obtained with .read() "
                                       "(interior mutability / a lock that is not the one protecting the data?): concurrent readers "
                                       "can observe the write (theorem C15.write_guards_all_used no longer covers the method)"))
            if name in NEED and all(c != "?" for _, c in d.values()):
                we = sorted(r for r, (_, c) in d.items() if c == "w")
                wm = sorted(r for r, m in NEED[name] if m == "write")
                if we != wm:
                    ctx.broken.append(("lock-write-footprint", f"fn {name} writes [{', '.join(fname(r) for r in we)}] through its guards, but "
                                       f"its sequential behaviour in the model (Model.step, Lin.need) changes [{', '.join(fname(r) for r in wm)}] "
                                       "(theorem C15.table_writes_match_model no longer holds: the body of the abstract machine is not the "
                                       "body of the method)"))
        rows = {name: (acqs, early, comp) for name, acqs, early, comp in table}
        for name, need in NEED.items():
            if name not in rows:
                ctx.broken.append(("lock-footprint", f"fn {name} has no row in the extracted lock table "
                                   "(theorem C15.table_footprints_ok no longer holds: kb_linearizable does not cover it)"))
                continue
            acqs, early, comp = rows[name]
            shown = ", ".join("%s.%s%s" % (locks[r] if r < len(locks) else r, m, "" if t else "(temp)") for r, m, t in acqs)
            for r, m in need:
                if not any(ar == r and (m == "read" or am == "write") for ar, am, _ in acqs):
                    ctx.broken.append(("lock-footprint", f"fn {name} holds [{shown}] but its sequential behaviour (Model.step) "
                                       f"{'changes' if m == 'write' else 'reads'} component #{r} "
                                       f"({['rules', 'rule_index', 'version'][r]}): not held in {m} mode when the last lock has been "
                                       "taken (theorem C15.table_footprints_ok no longer holds: the method is not covered by kb_linearizable)"))
    except (ExtractError, OSError) as e:
        # loud failure: the schedule obligations (locks_ordered, …) are about a table that could not be
        # re-derived from the current source; the stale table is left in place so that the rest still builds
        ctx.broken.append(("lock-table-extraction",
                           "props/c15.py could not re-extract the per-method lock acquisition table from %s: %s. "
                           "The theorems locks_ordered / mutators_take_write_first / methods_two_phase / kb_deadlock_free "
                           "no longer speak about the current source." % (src, e)))
        ctx.notes.append("lock table extraction FAILED: %s" % e)


# ------------------------------------------------------------------------------------------------
# streamed exhaustive enumeration (too many cases to hold in memory through the generic pipeline)
# ------------------------------------------------------------------------------------------------
def _run_lines(cmd, lines):
    p = subprocess.run(cmd, input="\n".join(lines) + "\n", capture_output=True, text=True)
    out = p.stdout.split("\n")
    if out and out[-1] == "":
        out.pop()
    return p.returncode, out


def extra(ctx):
    fails, cov = [], {}
    total = agree_n = nontrivial = 0
    t0 = time.time()
    block = 200000
    by_sig = {}
    enum_desc = []
    for (names, nsals, alpha, lo, hi) in ENUM[ctx.tier]:
        cmd = [ctx.bin, "enum", str(names), str(nsals), alpha, str(lo), str(hi), str(ctx.seed)]
        gen = subprocess.Popen(cmd, stdout=subprocess.PIPE, text=True, bufsize=1 << 20)
        count = 0
        while True:
            cases = []
            for line in gen.stdout:
                line = line.rstrip("\n")
                if line:
                    cases.append(line)
                if len(cases) >= block:
                    break
            if not cases:
                break
            count += len(cases)
            from concurrent.futures import ThreadPoolExecutor
            with ThreadPoolExecutor(2) as ex:
                f2 = ex.submit(_run_lines, [ctx.drv, "model"], cases)
                rc1, impl = _run_lines([ctx.bin, "exec"], cases)
                rc2, model = f2.result()
            if len(impl) != len(cases) or len(model) != len(cases):
                ctx.broken.append(("enum-run", f"exec/model produced {len(impl)}/{len(model)} lines for {len(cases)} cases"))
                break
            rc3, oracle = _run_lines([ctx.drv, "oracle"], [c + " | " + o for c, o in zip(cases, impl)])
            if len(oracle) != len(cases):
                ctx.broken.append(("enum-run", f"oracle produced {len(oracle)} lines for {len(cases)} cases"))
                break
            for c, i, m, o in zip(cases, impl, model, oracle):
                if o.startswith("ok") and i == m:
                    agree_n += 1
                    if o.endswith("nontrivial"):
                        nontrivial += 1
                else:
                    kind = "oracle" if not o.startswith("ok") else "diff"
                    r = {"case": c, "impl": i, "model": m, "oracle": o, "kind": kind}
                    sig = classify(c, i, m, o, kind)
                    if sig not in by_sig or len(c) < len(by_sig[sig][0]["case"]):
                        by_sig[sig] = (r, by_sig.get(sig, (None, 0))[1] + 1)
                    else:
                        by_sig[sig] = (by_sig[sig][0], by_sig[sig][1] + 1)
        gen.wait()
        total += count
        enum_desc.append(f"{names} names x {nsals} saliences, alphabet {alpha}, length {lo}..{hi}: {count} canonical sequences")
    for sig, (r, cnt) in list(by_sig.items())[:6]:
        rep = ctx.shrink(r)
        fails.append((ctx.signature(rep), rep, cnt))
    cov["exhaustive_enumeration"] = {
        "what": enum_desc, "cases": total, "agree_and_oracle_ok": agree_n, "nontrivial": nontrivial,
        "failing": sum(c for _, c in by_sig.values()), "wall_s": round(time.time() - t0, 1)}
    lt = getattr(ctx, "lock_table", None)
    wt = getattr(ctx, "write_table", None)
    if wt:
        cov["write_footprints"] = wt
    if lt:
        cov["lock_table"] = {"order": lt[0], "methods": {n: [f"{lt[0][r]}.{m}{'' if t else '(temp)'}" for r, m, t in a] for n, a, _, _ in lt[1]}}
    return fails, cov
