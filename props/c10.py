ID = "C10"
THEOREMS = [
    "C10.rollback_restores",
    "C10.rollback_restores_data",
    "C10.model_meets_spec",
    "C10.rollback_no_frame_noop",
    "C10.commit_no_frame_noop",
    "C10.commit_keeps_data",
    "C10.set_nested_records_root",
    "C10.set_nested_rollback",
    "C10.set_nested_error_keeps_data",
    "C10.discard_on_commit_counterexample",
]
N = {"quick": 5000, "thorough": 50000}
EXHAUSTIVE = {"quick": True, "thorough": True}
RULE = ("part A: cases = corpus + EVERY sequence of length <= 6 over the alphabet {begin, commit, rollback, set k0:=1, "
        "set_nested k0.f0:=2, remove k0, set k2:={}} (137,257 sequences; thorough adds remove k1 and set_nested k0.f1.f0: "
        "597,871) on the store {k0:{f0:0}, k1:7} + N random sequences of length 1..10 of all six operations over 3 keys "
        "(integer and object values, nested paths of 1-3 components, random initial stores). After EVERY operation the "
        "harness observes the call's result, the frame depth (hook) and get_all_facts/snapshot (values and type entries of "
        "k0..k2, canonical rendering); the model's observations are diffed against them and Spec C10.checkFrom (rollback = "
        "store at the matching begin, commit/begin keep the store, no-frame close is a no-op, mutators touch one key) is "
        "evaluated on the implementation's observations. Non-trivial = some rollback closed a frame and changed the store.")
TRUSTED = [
    "Lean 4.33 kernel; axioms of every property theorem within {propext, Classical.choice, Quot.sound} (audited each run)",
    "hand-written model RreModel/C10/Model.lean tied to src/engine/facts.rs by the correspondence check only (differential testing)",
    "harness/src/bin/c10.rs, Driver/C10.lean parsing/printing glue, check.py diff",
    "hook Facts::verif_undo_depth (cfg rre_verif, read-only) reports the frame depth",
]
ASSUMPTIONS = [
    "HashMap<String, Value> is a finite map: modelled as a total function key -> (value?, type entry?)",
    "values in the tie: integers and one-level objects with integer fields (reach every branch of set_nested)",
    "mutators that do NOT record undo information (add_value, add, clear, merge, restore) are outside the property's operation list; "
    "the harness uses add_value only to build the initial store",
]


def classify(case, impl, model, oracle, kind):
    if kind == "oracle":
        # which operation broke the spec
        try:
            idx = int(oracle.split("@")[1])
            op = case.split()[1].split(",")[idx]
            return "oracle:stepOk:" + op[0]
        except Exception:
            return "oracle:" + oracle.replace("fail ", "").split("@")[0]
    return "diff"

LEVEL_TEXT = ("Lean 4 theorems (kernel-checked, unbounded: every operation sequence, key, value and enclosing frame stack): "
              "rollback_restores (begin; any well-bracketed inner; rollback = identity on data and frame stack) and model_meets_spec "
              "(for ARBITRARY sequences every rollback returns the store of the matching begin), on an executable model of the "
              "undo-frame API of Facts after fix F-C10a (merge on commit); tied to src/engine/facts.rs by exhaustive enumeration of "
              "all sequences of length <= 6 over a 7-letter alphabet plus random sequences up to 10, observed after every call, "
              "and by evaluating the same Spec predicate on the implementation's observations. Part B (failed query leaves facts "
              "untouched) is checked by the C09 harness oracle (iii) on every strategy and proved on the DFS model.")
LEVEL_NOTE = ("Trusted: Lean kernel + {propext, Classical.choice, Quot.sound}; hand-written model tied to the code by differential "
              "testing only; harness/driver glue; hook verif_undo_depth. Pre-fix code (commit discards) violates the theorem: "
              "C10.discard_on_commit_counterexample.")
DESIGN_REF = "§6 C10"
