ID = "C10"
THEOREMS = [
    "C10.rollback_restores",
    "C10.rollback_restores_data",
    "C10.model_meets_spec",
    "C10.rollback_no_frame_noop",
    "C10.commit_no_frame_noop",
    "C10.commit_keeps_data",
    "C10.set_nested_records_root",
    "C10.set_nested_rollback",
    "C10.set_nested_error_keeps_data",
    "C10.discard_on_commit_counterexample",
    # part B — the search model (RreModel/C09/Model.lean)
    "C10.rule_firing_rolls_back",
    "C10.rule_firing_commit_rolls_back",
    "C10.query_effect",
    "C10.not_provable_restores",
    "C10.query_frames_balanced",
    "C10.query_no_leaked_frames",
    "C10.query_inside_frame_rolls_back",
    # negated query goal `NOT <atom>` (RreModel/C09/Ext.lean)
    "C10.neg_query_effect",
    "C10.neg_not_provable_restores",
    "C10.neg_query_frames_balanced",
    # a Null fact is restored as Null, not as "absent" (RreModel/C09/ValTheorems.lean)
    "C10.failed_query_keeps_null",
]
LEAN_TARGETS = ["RreModel.C10.Theorems", "RreModel.C10.SearchTheorems", "RreModel.C09.ExtTheorems", "RreModel.C09.ValTheorems"]
LEAN_FILES = ["RreModel/C09/Model.lean", "RreModel/C09/Spec.lean", "RreModel/C09/Lemmas.lean", "RreModel/C09/Candidates.lean",
              "RreModel/C09/Ext.lean", "RreModel/C09/ExtTheorems.lean", "RreModel/C09/ValTheorems.lean"]
EXTRA_BINS = ["c09"]
N_B = {"quick": 1500, "thorough": 20000}


def pre_lean(ctx):
    import subprocess, os
    subprocess.run(["lake", "build", "drv_c09"], cwd=os.path.join(os.path.dirname(os.path.dirname(os.path.abspath(__file__))), "lean"),
                   capture_output=True, text=True)


def extra(ctx):
    """part B on the real code: the C09 generator (every strategy; its last two families — failing first alternative at
    depth >= 1, non-Set actions — are there for this clause), oracle (iii) — facts restored when not provable, no undo
    frame left open whatever the answer — evaluated FIRST (`drv_c09 oracle3`) on the implementation's observations.
    One representative per signature is minimised with the harness's own shrinker."""
    import subprocess, os
    root = os.path.dirname(os.path.dirname(os.path.abspath(__file__)))
    binp = os.path.join(root, "harness", "target", "debug", "c09")
    drv = os.path.join(root, "lean", ".lake", "build", "bin", "drv_c09")

    def run_cases(cases, timeout=300):
        if not cases:
            return [], []
        e = subprocess.run([binp, "exec"], input="\n".join(cases) + "\n", capture_output=True, text=True, timeout=timeout)
        impl = (e.stdout.split("\n") + [""] * len(cases))[:len(cases)]
        o = subprocess.run([drv, "oracle3"], input="\n".join(c + " | " + i for c, i in zip(cases, impl)) + "\n",
                           capture_output=True, text=True, timeout=timeout)
        return impl, (o.stdout.split("\n") + [""] * len(cases))[:len(cases)]

    def sig_of(i, r):
        if r.startswith("fail caller-"):
            # query inside a caller-owned undo frame (cfg `^r` / `^k`): clause + verdict of the query
            return "oracle:partB:" + ":".join(r.split()[1:3])
        if r.startswith("fail leaked-frames") or r.startswith("fail not-restored") or r.startswith("fail query-panic") \
                or i.startswith("panic") or not (r.startswith("ok") or r.startswith("fail")):
            return "oracle:partB:" + (r.split()[1] if r.startswith("fail") else "crash")
        return None

    cases = []
    cdir = os.path.join(root, "corpus", "C09")
    if os.path.isdir(cdir):
        for f in sorted(os.listdir(cdir)):
            if f.endswith(".case"):
                cases += [l.rstrip("\n") for l in open(os.path.join(cdir, f)) if l.strip() and not l.startswith("#")]
    g = subprocess.run([binp, "gen", str(ctx.seed + 7), str(N_B[ctx.tier]), ctx.tier], capture_output=True, text=True)
    cases += [l for l in g.stdout.split("\n") if l]
    impl, orc = run_cases(cases, timeout=1200)
    fails, cov = [], {}
    bad = {}
    failing_goal_with_work = 0
    hist = {}
    caller = {}
    for c, i, r in zip(cases, impl, orc):
        if r.startswith("ok") and "caller_frame" in r:
            rs_ = r.split()
            k = ("rollback" if "caller_rollback" in rs_ else "commit") + ":" + ("provable" if "provable" in rs_ else "notprovable") \
                + (":derived_facts" if "derived_facts" in rs_ else "")
            caller[k] = caller.get(k, 0) + 1
        if r.startswith("ok") and "notprovable" in r and "rules_fireable" in r:
            failing_goal_with_work += 1
            for t in ("act_append", "act_retract", "act_call", "or_or_nonEq", "multi_action_rule", "dfs", "bfs", "ids"):
                if t in r.split():
                    hist[t] = hist.get(t, 0) + 1
        sig = sig_of(i, r)
        if sig:
            bad.setdefault(sig, []).append({"case": c, "impl": i, "model": "", "oracle": r, "kind": "oracle"})
    for sig, rs in bad.items():
        rs.sort(key=lambda x: len(x["case"]))
        rep, budget = rs[0], 300
        while budget > 0:                      # greedy minimisation: first smaller candidate with the same signature
            sh = subprocess.run([binp, "shrink"], input=rep["case"] + "\n", capture_output=True, text=True)
            cands = [l for l in sh.stdout.split("\n") if l and len(l) < len(rep["case"])][:60]
            if not cands:
                break
            budget -= len(cands)
            ci, co = run_cases(cands)
            nxt = next(({"case": c, "impl": i, "model": "", "oracle": r, "kind": "oracle"}
                        for c, i, r in zip(cands, ci, co) if sig_of(i, r) == sig), None)
            if nxt is None:
                break
            rep = nxt
        fails.append((sig, rep, len(rs)))
    cov["partB_cases"] = len(cases)
    cov["partB_failing_goals_with_fireable_rules"] = failing_goal_with_work
    cov["partB_failing_goals_with_fireable_rules_by_tag"] = dict(sorted(hist.items()))
    cov["partB_caller_frame_cases"] = dict(sorted(caller.items()))
    cov["partB_violations"] = sum(len(v) for v in bad.values())
    return fails, cov

N = {"quick": 5000, "thorough": 50000}
EXHAUSTIVE = {"quick": True, "thorough": True}
RULE = ("part A: cases = corpus + EVERY sequence of length <= 6 over the alphabet {begin, commit, rollback, set k0:=1, "
        "set_nested k0.f0:=2, remove k0, set k2:={}} (137,257 sequences; thorough adds remove k1 and set_nested k0.f1.f0: "
        "597,871) on the store {k0:{f0:0}, k1:7} + N random sequences of length 1..10 of all six operations over 3 keys "
        "(integer and object values, nested paths of 1-3 components, random initial stores); "
        "+ family FALSY: a key holding a value that looks like nothing (null, \"\", 0, 0.0, false, [], {}, {f:null}, {f:{}}, {f:[]}) - "
        "installed with add_value or with set, before or inside an outer frame - is written / removed / nested-set (1-3 path "
        "components, null and empty values written too) directly, in a committed child, in a rolled-back child, beside other keys, "
        "then rolled back (every value x 10 mutators x 6 wrappers), + EVERY sequence of length <= 4 (thorough 5) over the "
        "null-centred alphabet {begin, commit, rollback, set k0:=1, set k0:=null, remove k0, set_nested k1.f0.f0:=2, "
        "set_nested k1.f0:=null, set k2:=null, set_nested k0.f0:=1} on the store {k0:null, k1:{f0:null}}, + N/2 random sequences "
        "over that wide value pool; + family MERGE (constructive, 8-20 operations): for every order of first use of 3 and of 4 "
        "keys (so the order in which a frame records keys differs from their sort order in every way), nesting depth 2..4 of "
        "committed children each touching the next key, optionally a committed sibling, then the parent writes every key again "
        "(ascending / descending / first-use order) and is rolled back, directly or after being committed into an outermost "
        "frame; every write a distinct integer; + N/4 long random sequences (12..30 operations) over 4-5 keys (the observation "
        "then carries 4-5 cells). After EVERY operation the "
        "harness observes the call's result, the frame depth (hook) and get_all_facts/snapshot (values and type entries of "
        "k0..k2 (k0..k4 in the wide families), canonical rendering); the model's observations are diffed against them and Spec C10.checkFrom (rollback = "
        "store at the matching begin, commit/begin keep the store, no-frame close is a no-op, mutators touch one key) is "
        "evaluated on the implementation's observations. Non-trivial = some rollback closed a frame and changed the store. "
        "part B: corpus/C09 + N_B problems from the C09 generator (every strategy, max_depth 0..6, max_solutions 1/3) run on "
        "BackwardEngine::query, plus its two part-B families, each problem under EVERY strategy: (1) N_B/12 'failing first alternative' "
        "knowledge bases — at depth 1..3 a candidate rule fails after it or its sub-goals wrote to the facts, in each way the DFS "
        "distinguishes (both conditions provable but the rule proving the second undoes the first through a second assignment / Retract / "
        "Append, so the retry does not fire; an action fails (Err) on the retry or on the first attempt, before or after another action "
        "wrote; wrong-value conclusion; underivable second condition; chain cut by max_depth), then a LATER alternative succeeds "
        "((main || spare) && permit, a second candidate rule for the same sub-goal, (main && permit) || (spare && permit)) and the "
        "enclosing rule fails on an underivable last conjunct; (2) N_B/8 knowledge bases whose rules carry Append (absent field / "
        "existing array / non-array value), Retract (absent / present field, the seed fact, a fact derived earlier) and MethodCall "
        "(absent object, non-object: Err after earlier actions wrote; object: success) actions before / after their Set, on chains "
        "with an underivable last conjunct, wrong-value rivals that fire at depth 0 (what BFS / iterative reach), rules with no Set at "
        "all, and random And/Or KBs with random action lists over facts holding arrays and objects. "
        "(3) N_B/10 NEGATED queries `NOT <atom>` (closed-world negation of a C09 goal): the positive form is false in the initial facts but "
        "derivable - at once or only through a chain of 1..3 sub-goal levels - through one or several candidate rules (chained, direct, a second "
        "chain, wrong-value and dead-end rivals, conjunctions over two derived facts, rules with Append / Retract beside their Set), each "
        "problem under DFS with max_solutions 1, 2, 3 AND 5 (the shared solution list also counts the sub-goals' proofs, so these take "
        "different arms of the candidate loop), at a random depth, under BFS and iterative, and as the positive query with max_solutions > 1: "
        "the verdict `not provable` is reached THROUGH found proofs, each of which must have been rolled back; (4) N_B/10 knowledge bases "
        "with DISABLED rules (see C09) under every strategy; (5) CALLER-OWNED UNDO FRAME (cfg `^r` / `^k`): the query runs inside a frame the caller "
        "began on the facts and rolls back / commits afterwards - the search's frames are nested frames of the caller's: N_B/25 constructive chains "
        "of 1..3 levels whose proof derives facts, overwrites / retracts an existing one and appends, asked provable and not provable (missing seed, "
        "wrong value, depth cut) under every strategy x max_solutions 1, 3 x {rollback, commit}, and N_B/2 cases sampled from ALL single-query "
        "families above re-run inside a caller frame; oracle: undo depth 1 after the query and 0 after the close, after the caller's rollback the "
        "facts equal the initial facts WHATEVER the verdict, after its commit they equal the facts the query handed back. "
        "Oracle (iii), evaluated first: not provable => get_all_facts after == before, undo depth after == 0 whatever the answer; "
        "one failing case per signature is minimised with the harness shrinker.")
TRUSTED = [
    "Lean 4.33 kernel; axioms of every property theorem within {propext, Classical.choice, Quot.sound} (audited each run)",
    "hand-written model RreModel/C10/Model.lean tied to src/engine/facts.rs by the correspondence check only (differential testing)",
    "harness/src/bin/c10.rs, Driver/C10.lean parsing/printing glue, check.py diff; part B: harness/src/bin/c09.rs, Driver/C09.lean",
    "part B theorems are about the search model RreModel/C09/Model.lean, tied to src/backward/{search,rule_executor}.rs by the C09 correspondence check",
    "hook Facts::verif_undo_depth (cfg rre_verif, read-only) reports the frame depth",
]
ASSUMPTIONS = [
    "HashMap<String, Value> is a finite map: modelled as a total function key -> (value?, type entry?)",
    "values in the tie: null, booleans, integers, floats (bit patterns), strings, expressions, arrays of scalars, and objects nested "
    "up to two levels whose members are any of these (reach every branch of set_nested; present-null and absent are distinct "
    "cells, printed `z` and `~`); set_nested writes non-object values",
    "mutators that do NOT record undo information (add_value, add, clear, merge, restore) are outside the property's operation list; "
    "the harness uses add_value only to build the initial store",
    "part B actions: Set / Append / Retract / MethodCall(setSpeed) with literal arguments (no Value::Expression), arrays of scalars, "
    "objects with the single key Speed; Log (prints only) and the no-op arms (Custom, agenda, schedule, workflow) are not driven; "
    "part B observes get_all_facts (values), not the fact_types table (part A does)",
]


def classify(case, impl, model, oracle, kind):
    if kind == "oracle":
        # which operation broke the spec
        try:
            idx = int(oracle.split("@")[1])
            op = case.split()[1].split(",")[idx]
            return "oracle:stepOk:" + op[0]
        except Exception:
            return "oracle:" + oracle.replace("fail ", "").split("@")[0]
    return "diff"

LEVEL_TEXT = ("Lean 4 theorems (kernel-checked, unbounded: every operation sequence, key, value and enclosing frame stack): "
              "rollback_restores (begin; any well-bracketed inner; rollback = identity on data and frame stack) and model_meets_spec "
              "(for ARBITRARY sequences every rollback returns the store of the matching begin), on an executable model of the "
              "undo-frame API of Facts after fix F-C10a (merge on commit); tied to src/engine/facts.rs by exhaustive enumeration of "
              "all sequences of length <= 6 over a 7-letter alphabet plus random sequences up to 10, observed after every call, "
              "and by evaluating the same Spec predicate on the implementation's observations. Part B (failed query leaves facts "
              "untouched) is checked by the C09 harness oracle (iii) on every strategy and proved on the search model (DFS, BFS, "
              "iterative; rules with Set / Append / Retract / MethodCall actions, failing actions included: rule_firing_rolls_back, "
              "query_effect, not_provable_restores; negated query goals `NOT <atom>` - whose `not provable` is reached through found and "
              "discarded proofs - for every max_solutions: neg_query_effect, neg_not_provable_restores, neg_query_frames_balanced).")
LEVEL_NOTE = ("Trusted: Lean kernel + {propext, Classical.choice, Quot.sound}; hand-written model tied to the code by differential "
              "testing only; harness/driver glue; hook verif_undo_depth. Pre-fix code (commit discards) violates the theorem: "
              "C10.discard_on_commit_counterexample.")
DESIGN_REF = "§6 C10"
