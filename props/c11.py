ID = "C11"
THEOREMS = [
    "C11.query_history_independent",
    "C11.query_history_independent_injective",
    "C11.cache_invariant",
    "C11.no_memo_stateless",
    "C11.query_history_independent_counterexample",
    "C11.key_collision_stale",
]
N = {"quick": 1500, "thorough": 10000}
EXHAUSTIVE = {"quick": False, "thorough": False}
RULE = ("cases = corpus + N histories on ONE BackwardEngine: 2..6 queries (mostly the same goal again; 1 in 8 through "
        "query_aggregate, 1 in 7 as the NEGATED goal `NOT g`) interleaved with assert / change / remove on the caller's facts, "
        "over generated KBs of 1..5 rules, strategies DFS/BFS/iterative, max_depth 1..4, max_solutions 1/3, memoisation on (5/6) "
        "and off; + N/10 reconfiguration histories (set_config between two askings); + N/10 negation histories (`g` and `NOT g` "
        "on IDENTICAL facts in both orders, 0..3 other queries in between, re-asked after a change / removal); + N/10 permutation "
        "histories (the same query before and after the caller permutes values among the same 2..3 fact names — swap, double "
        "toggle of opposite booleans, rotation of three, values of mixed types — the verdict depending on which name holds which "
        "value, directly or through a rule); + N/6 large-store histories (36..80 extra facts and/or 1..5 strings of 300..900 "
        "letters whose names sort before / between / after the fields the rules use, so that the engine's key text is far beyond "
        "1024 bytes; half of them change only the LAST-sorting relevant fact between two askings, the other half are the random "
        "histories on top of such a store, which sometimes grows past the limit in mid-history); + N/10 whitespace look-alike "
        "histories (string pairs equal after deleting blanks — \"a b\"/\"ab\", \" \"/\"\", \"John Smith\"/\"JohnSmith\" … — as two "
        "query literals on unchanged facts, as a fact value changed to its look-alike between two askings of a direct or "
        "rule-derived goal, and in a bystander fact as control); + N/10 error-path histories (query_aggregate with a malformed "
        "query from a fixed set of 8 — 6 whose header parses and whose WHERE pattern does not, 2 rejected earlier — followed by "
        "negated goals a rule chain derives, plain and aggregate queries, derived facts removed in between; DFS 3/5, "
        "max_solutions 1 in 4/5); + N/10 Null histories (a fact goes absent -> Null -> absent / to and from ordinary values "
        "between askings of `F == null`, `F != null` or a goal derived through `F == null`, `F != null`, the test exists(F); "
        "Null bystanders come and go as control). Before every query the "
        "harness deep-copies the caller's facts and asks a FRESHLY BUILT engine (same rules, same configuration); observed per "
        "query: the long-lived engine's verdict, the fresh engine's verdict, whether the call was answered without searching "
        "(stats.goals_explored == 0), and the key text (query, max_solutions, canonical facts before; a 128-bit digest of it when "
        "longer than 160 bytes). Oracle: every verdict "
        "equals the fresh engine's (needs no model); tie: the Lean cache model, run on the observed keys with the observed fresh "
        "verdicts as its abstract `answer`, must predict every (verdict, hit) pair. Non-trivial = the history contains two "
        "different verdicts.")
TRUSTED = [
    "Lean 4.33 kernel; axioms of every property theorem within {propext, Classical.choice, Quot.sound} (audited each run)",
    "hand-written cache model RreModel/C11/Model.lean tied to backward_engine.rs / goal.rs by evaluating it on observed keys (differential testing)",
    "key injectivity: the fixed key renders (query, max_solutions, facts sorted by name, Debug of each value); Debug is assumed injective on the values used",
    "harness/src/bin/c11.rs (fresh-engine comparison, deep copy of the facts), Driver/C11.lean glue, check.py",
]
ASSUMPTIONS = [
    "the search is an abstract function answer : Query -> Facts -> Bool (the fresh engine's verdict; its own model is C09's)",
    "no RETE engine attached: the proof-graph cache consulted by check_goal_in_facts only exists with Some(engine) and belongs to C17",
    "set_config replaces the GoalManager, i.e. clears the cache; query_aggregate changes max_solutions without set_config, which is why max_solutions is part of the key",
]


def agree(case, impl, model):
    return True


def classify(case, impl, model, oracle, kind):
    if kind == "oracle":
        return "oracle:" + oracle.replace("fail ", "").split("@")[0]
    return "diff"

LEVEL_TEXT = ("Lean 4 theorem (kernel-checked, unbounded: every history of (facts, query) pairs, every search function, every key "
              "function that determines the fresh answer): query_history_independent — the k-th answer of a long-lived engine equals a "
              "fresh engine's answer on the k-th pair — from the cache invariant; counterexample theorem for the pre-fix key (query "
              "string alone) and key_collision_stale: ANY two (query, facts) pairs with different answers and one key give a stale second answer. Tied to the code by comparing every query of generated histories with a freshly built engine inside the "
              "harness and by running the cache model on the observed keys (hit/verdict prediction).")
LEVEL_NOTE = ("The search is abstract in this model (C09 carries it). Trusted: Lean kernel + {propext, Classical.choice, Quot.sound}; "
              "injectivity of the rendered key; harness fresh-engine comparison; RETE-attached proof-graph cache is C17's.")
DESIGN_REF = "§6 C11"
