ID = "C11"
THEOREMS = [
    "C11.query_history_independent",
    "C11.query_history_independent_injective",
    "C11.cache_invariant",
    "C11.no_memo_stateless",
    "C11.query_history_independent_counterexample",
    "C11.key_collision_stale",
    # the engine with the concrete search of C09 inside (RreModel/C11/{Engine,EngineLemmas,Theorems2}.lean)
    "C11.engine_history_fresh",
    "C11.engine_history_verdicts",
    "C11.engine_history_eq_fresh",
    "C11.engine_history_admissible",
    "C11.fresh_query_is_C09_query",
    "C11.engine_refines_cache_model",
    "C11.engine_key_collision_stale",
    "C11.engine_eq_fast",
    "C11.keyDet_without_maxSol",
    "C11.key_needs_facts",
    "C11.key_needs_query",
    "C11.set_config_must_clear",
    "C11.aggregate_needs_memo_off",
    "C11.hit_skips_derivation",
    # U09: negated goals, knowledge-base edits and rebuild_index inside the engine model
    "C11.key_needs_kb_version",
    "C11.rebuild_must_clear",
    "C11.fresh_index_search_eq_new",
    "C11.after_rebuild_eq_new",
    "C11.kb_edit_moves_version_or_noop",
]
LEAN_TARGETS = ["RreModel.C11.Theorems", "RreModel.C11.Theorems2"]
N = {"quick": 1500, "thorough": 10000}
EXHAUSTIVE = {"quick": False, "thorough": False}
RULE = ("cases = corpus + N histories on ONE BackwardEngine: 2..6 queries (mostly the same goal again; 1 in 8 through "
        "query_aggregate, 1 in 7 as the NEGATED goal `NOT g`) interleaved with assert / change / remove on the caller's facts, "
        "over generated KBs of 1..5 rules, strategies DFS/BFS/iterative, max_depth 1..4, max_solutions 1/3, memoisation on (5/6) "
        "and off; + N/10 reconfiguration histories (set_config between two askings); + N/10 negation histories (`g` and `NOT g` "
        "on IDENTICAL facts in both orders, 0..3 other queries in between, re-asked after a change / removal); + N/10 permutation "
        "histories (the same query before and after the caller permutes values among the same 2..3 fact names — swap, double "
        "toggle of opposite booleans, rotation of three, values of mixed types — the verdict depending on which name holds which "
        "value, directly or through a rule); + N/6 large-store histories (36..80 extra facts and/or 1..5 strings of 300..900 "
        "letters whose names sort before / between / after the fields the rules use, so that the engine's key text is far beyond "
        "1024 bytes; half of them change only the LAST-sorting relevant fact between two askings, the other half are the random "
        "histories on top of such a store, which sometimes grows past the limit in mid-history); + N/10 whitespace look-alike "
        "histories (string pairs equal after deleting blanks — \"a b\"/\"ab\", \" \"/\"\", \"John Smith\"/\"JohnSmith\" … — as two "
        "query literals on unchanged facts, as a fact value changed to its look-alike between two askings of a direct or "
        "rule-derived goal, and in a bystander fact as control); + N/10 error-path histories (query_aggregate with a malformed "
        "query from a fixed set of 8 — 6 whose header parses and whose WHERE pattern does not, 2 rejected earlier — followed by "
        "negated goals a rule chain derives, plain and aggregate queries, derived facts removed in between; DFS 3/5, "
        "max_solutions 1 in 4/5); + N/10 Null histories (a fact goes absent -> Null -> absent / to and from ordinary values "
        "between askings of `F == null`, `F != null` or a goal derived through `F == null`, `F != null`, the test exists(F); "
        "Null bystanders come and go as control). Before every query the "
        "harness deep-copies the caller's facts and asks a FRESHLY BUILT engine (same rules, same configuration); observed per "
        "query: the long-lived engine's verdict, the fresh engine's verdict, whether the call was answered without searching "
        "(stats.goals_explored == 0), and the key text (query, max_solutions, canonical facts before; a 128-bit digest of it when "
        "longer than 160 bytes). Oracle: every verdict "
        "equals the fresh engine's (needs no model); tie: the Lean cache model, run on the observed keys with the observed fresh "
        "verdicts as its abstract `answer`, must predict every (verdict, hit) pair. "
        "+ N/10 RETE histories (op `R`: from there on every query goes through query_with_rete_engine with ONE IncrementalEngine "
        "attached for the rest of the history, the fresh engine of the comparison gets a new one; rules conclude the dotted fields "
        "U.P / U.Q, whose Sets are then also inserted there as logical facts and recorded in the search's proof graph; op `T` "
        "retracts everything the attached engine holds, between askings; set_config, aggregates, caller-side removals of the "
        "derived facts in between). ENGINE MODEL (driver, model mode): RreModel/C11/Engine.lean — memo cache keyed (query, "
        "max_solutions, facts), set_config = new cache, query_aggregate = search with max_solutions usize::MAX and no cache access, "
        "rejected aggregate = no change, the search C09.queryFast with the code's candidate computation (C09/Candidates.lean) — is run "
        "over the WHOLE history and predicts for every call the answer (provable / count / Err), whether it was a cache hit, and the "
        "caller's facts after it, as the SET of admissible histories over the enumeration orders of the candidate HashSets; the "
        "observation (7th item field = facts after the call) must be a member. The prediction stops at the first op the C09 grammar "
        "does not have (negated goal, Null, exists(..), extra facts): quick tier 1.2k histories predicted in full, 0.75k up to that "
        "op, ~5.6k calls of which ~0.8k hits. Non-trivial = the history contains two different verdicts.")
TRUSTED = [
    "Lean 4.33 kernel; axioms of every property theorem within {propext, Classical.choice, Quot.sound} (audited each run)",
    "hand-written cache model RreModel/C11/Model.lean tied to backward_engine.rs / goal.rs by evaluating it on observed keys (differential testing)",
    "hand-written engine model RreModel/C11/Engine.lean (query of plain and negated goals / set_config / query_aggregate / knowledge-base "
    "edits / rebuild_index over C09's search model, history model C09/Hist.lean and candidate computation) tied to backward_engine.rs by "
    "predicting answer, hit and facts-after of every call of generated histories (differential testing, set-valued over HashSet orders); "
    "engine_refines_cache_model proves it refines the cache model",
    "key injectivity: the fixed key renders (query, max_solutions, kb.version(), facts sorted by name, Debug of each value); the model keys by these "
    "components (keyCode); that the TEXT determines them (query text -> atom, Debug injective on the values used) is assumed",
    "harness/src/bin/c11.rs (fresh-engine comparison, deep copy of the facts), Driver/C11.lean glue, check.py",
]
ASSUMPTIONS = [
    "knowledge-base edits are add_rule / remove_rule / set_rule_enabled / clear through engine.knowledge_base() on rules of equal salience "
    "(get_rules() = insertion order; KnowledgeBase itself is C15's subject: C09.kbStep mirrors it - the version moves iff the edit changes "
    "something, set_rule_enabled of a known rule always counts)",
    "negated goals `NOT F <op> null` are outside the engine model: for a negated goal check_goal_in_facts evaluates the parsed expression "
    "(an absent field IS Null there), C09.evalAtom reads an absent field as `only != holds`; the two differ exactly for the literal null "
    "(found by this tie; C09's negated cases have no Null literal) - the fresh-engine oracle and the cache model still judge those calls",
    "every call of one history that is compared by the list equation engine_history_eq_fresh enumerates its candidate HashSet alike; "
    "engine_history_admissible / engine_history_fresh drop that (verdict = a fresh verdict for one of the enumerations used)",
    "RETE engine attached: the search objects and their proof graph are built inside every call (new_with_engine -> new_shared()) and "
    "dropped at its end, so the engine model has no such state; that the attachment does not change what ONE search hands back is "
    "checked by the correspondence run only (`R` / `T` histories); the proof graph itself is C17's model",
    "query_aggregate: count(..) over well-formed patterns and rejected texts; sum/avg/min/max/first/last read solution bindings the C09 "
    "model does not carry (only their number)",
    "set_config replaces the GoalManager, i.e. clears the cache; query_aggregate changes max_solutions without set_config, which is why max_solutions is part of the key",
]


def project(impl):
    """what the engine model predicts of an observation line: answer, hit, facts after of every call"""
    impl = impl.strip()
    if impl == "-":
        return "-"
    out = []
    for it in impl.split(";"):
        f = it.split("/")
        if len(f) != 7:
            return None
        out.append("%s:%s:%s" % (f[2], f[4], f[6]))
    return ";".join(out)


def agree(case, impl, model):
    model = model.strip()
    if model in ("-", "many-orders"):
        return True          # outside the modelled class: fresh-engine comparison + cache model (oracle mode) only
    p = project(impl)
    if p is None:
        return False
    for m in model.split("||"):
        m = m.strip()
        if m == p:
            return True
        if m.endswith("*"):          # the prediction stops at the first op outside the modelled class: compare the calls before it
            pre = m[:-1].rstrip(";")
            if pre == "" or p == pre or p.startswith(pre + ";"):
                return True
    return False


def classify(case, impl, model, oracle, kind):
    if kind == "oracle":
        return "oracle:" + oracle.replace("fail ", "").split("@")[0]
    p = project(impl)
    if p is None:
        return "diff:" + impl.split(":")[0][:12]
    ms = [m.strip().split(";") for m in model.split("||")]
    ps = p.split(";")

    def pre_ok(m, k):                 # alternative m agrees with the first k observed calls (`*` = prediction stopped)
        cut = m.index("*") if "*" in m else len(m)
        return (cut >= k and m[:k] == ps[:k]) or (cut < k and m[:cut] == ps[:cut])

    # first call on which no admissible history agrees, and what differs there
    for k in range(len(ps)):
        if not [m for m in ms if pre_ok(m, k + 1)]:
            prev = [m for m in ms if pre_ok(m, k) and len(m) > k and m[k] != "*"]
            what = "shape"
            if prev:
                a, b = ps[k].split(":", 2), prev[0][k].split(":", 2)
                what = "answer" if a[0] != b[0] else "hit" if a[1] != b[1] else "facts-after"
            return "engine-model:" + what
    return "engine-model:shape"

LEVEL_TEXT = ("ENGINE WITH THE CONCRETE SEARCH (Theorems2.lean; unbounded: every naming, initial rule state (knowledge base + index), configuration, "
              "initial facts, history of caller-side fact changes / set_config / query of plain and NEGATED goals / query_aggregate / rejected "
              "aggregate / KNOWLEDGE-BASE EDITS (add_rule, remove_rule, set_rule_enabled, clear) / rebuild_index): engine_history_eq_fresh — the "
              "verdicts of one engine (memo cache keyed by kb version, query, max_solutions, facts + C09.query / C09.queryNeg on the enabled live rules "
              "with C09.topCandsHist / subCandsHist) are call by call those of freshly built engines — built on the rule set as it is at that step, "
              "with the index as fresh as the last rebuild_index made it (fresh_query_is_C09_query; fresh_index_search_eq_new / after_rebuild_eq_new: "
              "with a fresh index resp. right after rebuild_index that is BackwardEngine::with_config on the present rule list); invariant: a cache "
              "entry rendered for the present version holds the present rule state's answer, entries of earlier versions are dead "
              "(kb_edit_moves_version_or_noop); key_needs_kb_version (F-C09g: without the "
              "version in the key an add_rule between two askings is answered from the cache), rebuild_must_clear (the index is not in the key: "
              "a verdict memoised on a stale index would survive rebuild_index); engine_history_admissible / "
              "engine_history_fresh — per step (StepFresh): a searching call hands back exactly the fresh engine's verdict AND facts, a hit "
              "the fresh verdict for an enumeration used earlier and the facts untouched, aggregates and every other step exactly the fresh "
              "engine's result; invariant EngCacheOK; hypothesis on the key: KeyDet = it determines QUERY and FACTS only "
              "(keyDet_without_maxSol: max_solutions is redundant since e8cfd71 switches memoisation off inside query_aggregate). One "
              "kernel-evaluated witness per ingredient on the code's search: key_needs_facts (F-C11), key_needs_query, "
              "set_config_must_clear, aggregate_needs_memo_off (F-C11b); engine_key_collision_stale (= key_collision_stale through "
              "engine_refines_cache_model); hit_skips_derivation (a hit hands back the verdict but not the derived facts — outside "
              "observe_at, mirrored by the model); engine_eq_fast (the driver's executable = the model). CACHE MODEL: Lean 4 theorem (kernel-checked, unbounded: every history of (facts, query) pairs, every search function, every key "
              "function that determines the fresh answer): query_history_independent — the k-th answer of a long-lived engine equals a "
              "fresh engine's answer on the k-th pair — from the cache invariant; counterexample theorem for the pre-fix key (query "
              "string alone) and key_collision_stale: ANY two (query, facts) pairs with different answers and one key give a stale second answer. Tied to the code by comparing every query of generated histories with a freshly built engine inside the "
              "harness and by running the cache model on the observed keys (hit/verdict prediction).")
LEVEL_NOTE = ("The search inside the engine model is C09's (tied there and here by differential testing); negated goals with the literal null are outside it; "
              "text-level injectivity of the key rendering is assumed; with a RETE engine attached only the absence of surviving state is "
              "modelled, the effect of the attachment on one search is checked, not proved. In the older cache-model theorems the search is abstract. Trusted: Lean kernel + {propext, Classical.choice, Quot.sound}; "
              "injectivity of the rendered key; harness fresh-engine comparison; RETE-attached proof-graph cache is C17's.")
DESIGN_REF = "§6 C11"
