import math
import os
import re
import subprocess
import time

ID = "C05"
THEOREMS = [
    # generic boundary lemmas (DESIGN §6 C05)
    "C05.boundary_of_charIndices'",
    "C05.ascii_delim_boundary'",
    "C05.find_plus_len_boundary",
    # (a) ExpressionParser / QueryParser
    "C05.parse_total",
    "C05.index_safe",
    "C05.depth_le_length",
    "C05.parseQuery_total",
    "C05.validateQuery_total",
    "C05.stripPrefix_no_panic",
    "C05.notPrefix_no_panic",
    "C05.notPrefixFixedOffset_counterexample",
    "C05.numAttr_no_panic",
    "C05.grlQueryNums_no_panic",
    "C05.numAttrUnwrap_counterexample",
    # (b) slicing kernels, (c) termination / recursion depth
    "C05.evalExpr_no_panic",
    "C05.evalExpr_total",
    "C05.parseValue_no_panic",
    "C05.parseValue_total",
    "C05.splitTopLevelOr_ok",
    "C05.disjParse_no_panic",
    "C05.extractGoal_no_panic",
    "C05.grlQueryParse_no_panic",
    "C05.grlParseQueries_no_panic",
    "C05.parseFunctionCall_no_panic",
    "C05.parseAggregate_no_panic",
    "C05.hasNested_no_panic",
    "C05.nestedParse_no_panic",
    "C05.extractDirective_no_panic",
    "C05.splitAssign_no_panic",
    "C05.parseWhen_no_panic",
    "C05.parseWhen_total",
    "C05.splitLogical_parts_shorter",
    # the same statements are false of the pre-fix code (witnesses in corpus/C05)
    "C05.unquoteOld_counterexample",
    "C05.findOperatorOld_counterexample",
    "C05.orSliceOld_counterexample",
    "C05.findGoalEndOld_counterexample",
    # --- follow-up (Model2 / Theorems2): text layer of the GRL parser, after fix-C05j
    "C05.stripComments_total",
    "C05.maskLiterals_total",
    "C05.unmask_total",
    "C05.unmask_no_panic",
    "C05.notARuleText_total",
    "C05.maskOld_roundtrip_counterexample",
    # accumulate kernels, module context, attribute section
    "C05.splitAccParts_no_panic",
    "C05.splitAccParts_i32_counterexample",
    "C05.parseAccPattern_no_panic",
    "C05.parseAccFunction_no_panic",
    "C05.parseAccCondition_no_panic",
    "C05.extractModule_no_panic",
    "C05.attrsSection_no_panic",
    # the SetWorkflowData("key=value") branch: the text that is unmasked twice (forged placeholder indices)
    "C05.wfDataSplit_no_panic",
    "C05.wfData_no_panic",
    "C05.wfDataDirect_counterexample",
    # evaluate_expression including the branches of apply_operator
    "C05.evalValue_no_panic",
    "C05.evalValue_total",
    # nom stream grammar over an abstract set of primitive combinators
    "C05.streamParsers_no_panic",
    "C05.streamParsers_consume",
    "C05.nomRef_contract",
    "C05.parseDurationOld_counterexample",
    # --- third part (Model3 / Lemmas3 / Lemmas4 / Theorems3)
    # the round trip of the fixed masker: unmask(table, mask(s)) = s for every text
    "C05.mask_roundtrip",
    "C05.mask_roundtrip_holds",
    "C05.prepare_roundtrip",
    # parse_when_clause as the code has it now (recursion through balanced parentheses), its depth
    "C05.whenStep_shorter",
    "C05.whenFold_no_panic",
    "C05.leafStrip_no_panic",
    "C05.whenShape_total",
    "C05.whenDepth_le_length",
    "C05.whenDepth_stable",
    "C05.whenDepth_4k",
    # Query::variables / extract_variables, action argument splitting, parse_import_spec
    "C05.extractVars_total",
    "C05.queryVars_no_panic",
    "C05.actionArgs_no_panic",
    "C05.importSpec_no_panic",
    # --- fourth part (Model4 / Theorems4): the COST of evaluate_expression - number of calls, not only depth
    "C05.evalCalls_value",
    "C05.evalCalls_linear",
    "C05.evalCalls_4k",
    "C05.evalFallThrough_counterexample",
]
LEAN_TARGETS = ["RreModel.C05.Theorems", "RreModel.C05.Theorems2", "RreModel.C05.Theorems3", "RreModel.C05.Theorems4"]
N = {"quick": 14000, "thorough": 200000}
ROBUST_N = {"quick": 12000, "thorough": 150000}
ROBUST_BUDGET_S = {"quick": 75, "thorough": 700}
EXHAUSTIVE = {"quick": False, "thorough": False}
EXEC_TIMEOUT = 1800
LEVEL = "proof"
RULE = ("PROOF PART: cases = corpus + every string of length <= 3 over {e-acute, \", ', a, +, space, 1} on evaluate_expression and "
        "on parse_value (through a rule) + every `a op b` over 22 arithmetic corner operands (zero divisors, i64 extremes, floats, "
        "numeric/non-numeric strings, integer/float/string/boolean facts) x {+ - * / %} on evaluate_expression + every string of "
        "length <= 4 over {U+0001, U+0002, 0, \", a, newline} and over {/, *, \", newline, a, '} through the text layer "
        "(strip_comments -> mask_string_literals -> clean_text -> unmask, observed in parse_rule's error message) + STRUCTURED MUTATIONS "
        "of every valid input of every entry (31 entries incl. the whole-rule entries parse_rules / parse_with_modules / parse_rule / a when "
        "clause / one then-part statement (FN: parse_action_statement, whose function name is matched after to_lowercase()), which have no "
        "prediction: oracle only): (i) every ASCII blank replaced by a multi-byte white space character (NBSP, NEL, "
        "EM SPACE, IDEOGRAPHIC SPACE each; LINE/PARAGRAPH SEPARATOR, OGHAM, THIN, NARROW NBSP, MEDIUM MATHEMATICAL SPACE, VT, FF rotating) "
        "and by a look-alike that is NOT white space (ZERO WIDTH SPACE, BOM, WORD JOINER, fullwidth parentheses/quotes/operators), every "
        "blank at once, and the character in front of / behind the input; (ii) every digit run (max-depth, max-solutions, salience, window "
        "durations, ScheduleRule delay, placeholder indices, literals in conditions/actions/arrays) replaced by 20 boundary numbers "
        "(i32/u32/i64/u64 = usize MAX and MAX+1, 2^64+1, 20 and 30 nines, 2^128, leading zeros before 7 / usize::MAX / usize::MAX+1) and by "
        "runs of 20/30/64/400 nines or zeros (<= 39 digits where the text ends up in a when leaf: F-C05h); (iii) 16 placeholder-looking "
        "forms (MASK_START <index> MASK_END with indices inside / at / beyond the table, beyond usize, signed, zero-padded, empty, "
        "unterminated, nested) INSIDE every string literal of every statement form (conditions, assignments, Log, function and method "
        "arguments, SetWorkflowData / set_workflow_data key=value literals incl. right after the `=`, rule names, attribute strings, "
        "query goals, stream names); (iv) the CLASS of characters whose case mapping changes the UTF-8 length or the number of chars "
        "(str::to_lowercase: KELVIN SIGN, OHM SIGN, ANGSTROM SIGN, CAPITAL SHARP S, A / T WITH STROKE, I WITH DOT ABOVE; str::to_uppercase: "
        "sharp s, n-apostrophe, j-caron, iota-dialytika-tonos, fi / ffi / st ligatures, dotless i, long s, small a / t with stroke, h-line-below, "
        "alpha-psili-ypogegrammeni, ech-yiwn, the title-case digraph; context dependent: final sigma, doubled I-dot, KELVIN + A-stroke) in front "
        "of / behind / at rotating interior positions of every valid input AND in front of, inside and behind EVERY identifier, keyword, "
        "function name and variable name of every valid input, plus the name with a letter replaced by the character that case-maps to it "
        "(SetWor<KELVIN>flowData, m<I-dot>n, <long s>liding), plus SANDWICHES: the character (byte shift -2 / -1 / +1 / +2 under to_lowercase, "
        "+1 / -1 / +4 under to_uppercase) in front of a name and a 3-byte character directly in front of and behind the delimiter that "
        "follows it, or around the NEXT name + delimiter (K.. <CJK>goal:<CJK>), so that an offset shifted either way lands inside a character - a parser that searches a case-folded copy and slices the original is "
        "caught at the first delimiter behind such a character; aggregate queries `f(?v) WHERE p(..) [AND ..]` x 8 function names x 27 "
        "characters / sequences x 12 structural positions (single, doubled, two positions) and every call part of length <= 4 over "
        "{KELVIN, I-dot, A-stroke, sharp s, (, ), ?, x, blank}; then-part statements (12 forms) with the characters around / inside the "
        "function name; every string of length <= 4 over {1 e E + - . x blank ( ) *} and of length 5 over {1 e + - x} on "
        "evaluate_expression (every look-behind / look-ahead around a sign, dot, exponent letter or parenthesis at the very start / end) "
        "+ the CUT family (truncation / preview / padding of a component at a fixed BYTE offset): for 35 entries and EVERY COMPONENT of each of "
        "their valid inputs - every identifier / keyword / function / variable / module name, every string-literal body (rule name, attribute "
        "strings, stream names, values), every number, the inside of every bracket pair and each of its comma-separated pieces (each argument "
        "of function calls / accumulate / stream windows / import specs / arrays / query goals / aggregate queries), every line, every directive "
        "value behind a `:`, the whole input - the component is replaced by, preceded by and followed by (the error paths: a call without its "
        "parentheses, text behind the closing parenthesis) a long component in which a 2-, 3- or 4-byte character lies across every byte offset: "
        "k = 0..3 ASCII bytes + a run of 4-byte characters, k = 0..2 + 3-byte, k = 0..1 + 2-byte, and the run followed by ASCII bytes (offsets "
        "counted from the end); lengths 262 bytes (every offset up to 256 + 3 at once) and N+1..N+4 for each N of 8 10 16 20 24 32 40 48 50 60 "
        "64 80 100 120 128 200 255 256; kernel entries get every shape, entries that parse a rule per case the two shapes (4,k),(4,k+1) that "
        "leave no offset on a char boundary in both (all three modes) plus rotating others, whole rules / query blocks a rotating selection "
        "(parse_rules and GRLQueryParser::parse every component, parse_with_modules / parse_rule / parse_queries every fourth); text in front "
        "of the leaf regexes stays <= 48 bytes and a when leaf <= 150 bytes (F-C05h; accumulate(...) leaves, literal bodies and everything "
        "outside the when clause are not limited) "
        "+ the CHAIN family on evaluate_expression (cost: C05.evalCalls_linear says at most 2n + 1 calls on n chars): operator chains of 8, 12, 16, "
        "20, 30 terms x 32 operator mixes (each operator alone, the 20 ordered pairs alternating, both cycles of all five, a +- block before / "
        "behind a */% block, three seeded random mixes) x 49 operand patterns (all operands evaluate; an unknown field / nothing at all = leading, "
        "trailing, doubled operator / a parenthesised group / a malformed number / an unterminated quote / a boolean / a non-numeric string / a "
        "signed number -3, +3 / two numbers / a multi-byte name at the left end, in the middle, at the right end, at both ends; signed operands or "
        "unknown fields everywhere) x 3 spacings, chains of 60 and 120 terms for 15 of the mixes, and chains of 500 / 1000 / 2047 one-byte terms "
        "(1 .. 4 KiB, the bound of the quantifier); the long chains run first and every case is under the per-case deadline CASE_TIMEOUT (a "
        "blow-up is reported as `hang:V:evaluate_expression-superlinear` with the input; microseconds per case on the unchanged tree) "
        "+ a string literal still open at the END of the text ending in 0..3 backslashes (either quote, 4 bodies, 4 prefixes) on the 7 entries with a literal scanner "
        "+ the DATE family (chrono is not modelled: oracle = Ok or Err, no panic): `date-effective` / `date-expires` values at the edges of what "
        "parse_date_string accepts - 22 years (chrono's first / last representable year and one beyond, with and without the explicit sign, 0000, 0001, "
        "-0001, 9999, 10000, leap / non-leap) x 12 month-day pairs (12-31, 01-01, Feb 28 / 29 / 30, month 00 / 13, day 00 / 32, Jun 31, one-digit) in every "
        "format the function tries (%Y-%m-%d, %d-%m-%Y, %d-%b-%Y without a time of day; %Y-%m-%dT%H:%M:%S and RFC 3339 with times 00:00:00, 23:59:59, 24:00:00, "
        "23:59:60, minute 60, fractions of 0..12 digits, offsets Z / z / +-00:00 / +-23:59 / +24:00 / +14:00 / -12:00 / none; every pair for the edge dates), "
        "as date-effective alone, date-expires alone and both, through parse_rule (AT, PU), parse_rules (R), parse_with_modules (M) "
        "+ the KEYWORD family on GRLQueryParser::parse / parse_queries: 0..4 occurrences of each of the 11 keywords the query parser searches for (goal: strategy: "
        "max-depth: max-solutions: enable-memoization: enable-optimization: on-success: on-failure: on-missing: when: query) glued to an identifier character / "
        "`-` / `.` / a multi-byte letter, digit, symbol or blank in front (and optionally behind), placed in the query name, on lines before / after the "
        "stand-alone occurrence, spread, or on one line, with and without a stand-alone occurrence; under the per-case deadline (a scan that stops "
        "advancing is reported as `hang:G:query-parser-keyword-scan-no-progress` with the input) "
        "+ N generated "
        "strings, each for one of 27 modelled entries or 4 oracle-only entries R / M / W / FN (one in five: a valid input with random (i)/(ii)/(iii) "
        "/(iv) mutations, sometimes spliced; every token alphabet yields a Unicode white space / look-alike one time in ten and a "
        "length-changing case-mapping character one time in fourteen; one multi-byte insertion in three is such a character) (ExpressionParser::parse, "
        "QueryParser::parse and its twin QueryParser::validate, the SetWorkflowData / set_workflow_data branch through a rule (WF/WG: key "
        "and value after the double unmask), GRLQueryParser::parse now with max_depth and max_solutions in the observation, evaluate_expression with fixed facts, DisjunctionParser::parse/contains_or, GRLQueryParser::parse/parse_queries, "
        "parse_aggregate_query, NestedQueryParser::has_nested/parse, parse_value through a condition value and through an "
        "assignment (via mask/unmask), all seven public nom parsers of stream_syntax.rs, the text layer (PU), the rule name through "
        "mask+unmask (PN), parse_accumulate_condition through a rule (AC), extract_module_from_context through parse_with_modules (MC), "
        "parse_rule_attributes through a rule (AT); third group, fixed counts per run: WT = the ConditionGroup tree of parse_when_clause through a rule "
        "(every nesting form - parentheses single/doubled/padded, !, !(, exists(, forall(, && / || - to depth 3 around three bodies + 450 random "
        "trees/soups; predicted tree, an Err of the regex-driven leaf parser agrees), NV = NestedQueryParser::parse(s).variables() (600), FA / MA = the "
        "positional arguments of `foo(<s>)` / `$Obj.set(<s>)` (350 each; the method-call regex never matches under rexile, MA is predicted as the custom "
        "action the code builds), IM = the imports of `defmodule B { import: <s> }` through parse_with_modules (350)); inputs include placeholder-looking text (U+0001 <digits> U+0002 with indices "
        "beyond the table, 20-digit and signed indices, raw delimiters). The real code runs in the harness process (a child of "
        "check.py; panics caught with their payload, a dead process is bisected to the killing case); the Lean model predicts "
        "ok <canonical result> | err | fine(=ok-or-err) per case; predictions are diffed and Spec.holds (no panic/crash/hang) "
        "is evaluated on the implementation's observation. Non-trivial = a multi-byte char occurs before an ASCII "
        "delimiter/operator/quote (byte offsets != char indices where the parsers cut) or a run >= 32 of one char; distinct "
        "= distinct case text. SEARCH PART (fuzzing-like, labelled `search_*` in coverage; supports, never replaces, the "
        "theorems): ROBUST_N strings (raw bytes->lossy UTF-8, GRL/expression token soups, valid rules/queries mutated by "
        "splice/truncate/duplicate/multi-byte insertion, one in five a valid rule/query/goal/stream pattern with the structured mutations "
        "(i)-(iv) above, one raw string in five with 1..3 case-mapping characters inserted, prefix chains !!!.. ((((.. ----.. up to 4 KiB, balanced nesting "
        "<= 32) are each run on ALL SEVEN entry points in a child process with the default 8 MiB main-thread stack and a "
        "per-input watchdog (quick 30 s, thorough 120 s); panic payloads, death by signal and hangs are reported.")
TRUSTED = [
    "Lean 4.33 kernel; axioms of every property theorem within {propext, Classical.choice, Quot.sound} (audited each run)",
    "hand-written model RreModel/C05/Model.lean (kernels after fix-C05.patch) tied to the code by the correspondence check only",
    "a Rust &str is a List Char with widths Char.utf8Size; is_char_boundary(i) <=> i is the byte length of a prefix (std's str invariant)",
    "std's char classification (is_whitespace/is_alphabetic/is_numeric) is an input of each case, computed by the harness",
    "str::parse::<i64>/<f64> acceptance is modelled by parseI64/isF64 (grammar only); regex `query\\s+\"[^\"]+\"\\s*\\{` and "
    "`max-depth:\\s*(\\d+)` / `max-solutions:\\s*(\\d+)` by scanners (leftmost match; rexile's \\s = blank, tab, CR, LF only - not VT/FF/Unicode "
    "white space - and \\d = ASCII digits, as observed)",
    "nom: the seven primitive combinators used by stream_syntax.rs (multispace0/1, digit1, alpha1, take_while1, tag, char) are a parameter "
    "of the model with the contract Nom.Sound (output ++ rest = input; the ...1 parsers, char and tag of a non-empty pattern consume); "
    "opt/delimited/tuples/alt are written out as sequencing glue; the driver predicts with the reference instance nomRef (proved to meet the contract)",
    "str::parse::<usize>/<u64> acceptance is modelled by parseUsize (optional +, ASCII digits, <= 2^64-1: a 64-bit target); usize::to_string by Nat.toDigits 10",
    "regexes around the new kernels (rule/when-then/attribute regexes) are not modelled: the driver predicts PN/AC/MC/AT only when the cleaned text has "
    "the wrapper's exact shape, otherwise `-` (oracle only); `\\b` and `\"[^\"]*\"` of parse_rule_attributes by small scanners (ASCII only)",
    "WT/FA/MA/IM: the rule / when-then / defmodule / function-binding regexes around the kernels are not modelled: the driver predicts only for payloads "
    "without quotes, braces, `;`, line breaks, comment markers, U+0001/U+0002 (and `$ : , [ ]` / keywords for WT, `$ = ( )` for FA/MA), otherwise `-`; "
    "a WT prediction is conditional on the regex-driven leaf parser (`iferr`: impl Err agrees, impl Ok must show the predicted tree)",
    "NOT modelled (search only): the rexile regex engine, chrono, formatting; stack bytes per frame are measured, not proved",
    "harness/src/bin/c05.rs, Driver/C05.lean glue, check.py diff",
]
ASSUMPTIONS = [
    "theorems are about the kernels after fix-C05.patch; the pre-fix kernels are refuted by the *_counterexample theorems",
    "evaluate_expression is driven with a fixed Facts table (13 flat keys: integer 0/7/-1/i64::MIN/i64::MAX, floats 2.5/0.0, strings, a boolean); "
    "its model follows apply_operator's control flow (numeric conversion, string concatenation, division by zero) and leaves `fine` only where an "
    "f64 literal may underflow to 0; it over-approximates the executed slices; the numeric results themselves are C01's subject",
    "the i32 paren_depth counters of split_accumulate_parts/split_pattern_parts are modelled with overflow = panic; the no-panic theorems carry the "
    "explicit hypothesis `chars < 2^31` (a 2 GiB input overflows: splitAccParts_i32_counterexample, outside the 4 KiB quantifier)",
    "mask_roundtrip carries the machine range of the table index as its only hypothesis (text length <= usize::MAX chars; a Rust String has at most isize::MAX bytes)",
    "parse_method_args is not reachable through the public API at present (METHOD_CALL_REGEX `\\$(\\w+)\\.(\\w+)...` never matches under rexile: `$Obj.set(1)` becomes "
    "ActionType::Custom{action_type: set}); its model methodArgs has a theorem but no driven entry - MA observes what the code does and would show `ok method` if the regex started to match",
    "depth fuel = chars + 1 per recursive kernel: Rust stack use is (frames per level) x (bytes per frame), measured by the 4 KiB chains on an 8 MiB stack",
    "the search stream caps `when` leaves at 40 bytes so that it does not only re-find F-C05h (condition_regex ~quartic); F-C05h is probed separately",
    "CUT family inside a `when` leaf that is not accumulate(...): the field / function-name positions are covered for cut offsets N <= 40 only and "
    "values / call arguments for N <= 128 (longer text in front of the superlinear leaf regexes costs 0.05 .. 0.3 s per case: F-C05h); every other "
    "component position is covered for every N <= 256",
]
LEVEL_TEXT = ("Lean 4 theorems (kernel-checked, for every string and every Unicode classification) that the slicing/indexing/recursion "
              "kernels of the parsers never panic and terminate with recursion depth <= chars + 1: complete model of ExpressionParser "
              "(parse_total, index_safe, depth_le_length) and byte-level models of evaluate_expression/find_operator, parse_value/"
              "parse_array_literal, parse_when_clause's skeleton, split_top_level_or, extract_goal/find_goal_end/find_matching_brace, "
              "parse_aggregate_query, has_nested, extract_directive, the assignment split; QueryParser's NOT prefix at byte level "
              "(strip_prefix never panics for any pattern; a fixed-offset skip after a char-class test is refuted), the numeric attributes "
              "max-depth / max-solutions (any digit run; the unwrapping variant is refuted), the SetWorkflowData key=value branch where text is "
              "unmasked twice (forged placeholder indices; direct table indexing is refuted); strip_comments / mask_string_literals / unmask "
              "(total for every text incl. raw U+0001/U+0002, overflowing or out-of-range placeholder indices), the accumulate kernels, "
              "extract_module_from_context, parse_rule_attributes' slices, apply_operator's branches, and the nom stream grammar over abstract "
              "primitive combinators (no panic for any primitives; proper-suffix progress under their contract); the ROUND TRIP of the fixed masker "
              "(mask_roundtrip: unmask(table, mask_string_literals(s)) = s for every text below 2^64 chars); parse_when_clause as the code has it now - one "
              "call as a step function whose recursive calls (inner text of balanced parentheses, || / && parts, !, exists(, forall() are all on strictly "
              "shorter strings (whenStep_shorter), no panic for every builder (whenFold_no_panic), call-tree height <= chars + 1 with any budget "
              "(whenDepth_le_length; <= 8194 frames at 4 KiB) - the outer-parentheses slice of parse_single_condition, extract_variables' index loops, "
              "the argument splitting of actions and parse_import_spec; the COST of evaluate_expression (evalCalls_linear: the instrumented model, "
              "proved to compute the model's value, makes at most 2 * chars + 1 calls - 8193 at 4 KiB - for every text, classification and facts; the "
              "retry-at-the-other-precedence-level variant is refuted, x2.6 calls per term); from the generic lemmas "
              "boundary_of_charIndices / ascii_delim_boundary / find_plus_len_boundary. Tied to the Rust code by a differential check "
              "(model prediction vs implementation per input) and supported by a labelled robustness search over all seven entry "
              "points in child processes. PARTIAL: rexile, the internals of nom's primitives and stack bytes are outside the model.")
LEVEL_NOTE = ("Partial: only the kernels listed are modelled; the regex engine (rexile), nom's primitive combinators (contract assumed) and formatting are exercised by search only. "
              "Trusted: Lean kernel + {propext, Classical.choice, Quot.sound}; str-as-List-Char abstraction; hand-written model tied by differential testing.")
DESIGN_REF = "§6 C05"

KNOWN_HANG_SIG = "hang:grl-when-leaf-condition-regex-superlinear"


def _unhex(h):
    try:
        return bytes.fromhex(h).decode("utf-8", "replace") if h != "-" else ""
    except ValueError:
        return ""


def _panic_sig(entry, msg_hex):
    msg = _unhex(msg_hex)
    msg = re.sub(r"\d+", "N", msg)
    msg = re.sub(r"`.*", "", msg, flags=re.S)
    msg = re.sub(r"'[^']*'", "'c'", msg)
    return "panic:%s:%s" % (entry, msg.strip()[:60])


def classify(case, impl, model, oracle, kind):
    e = case.split(" ")[0]
    if kind == "oracle":
        if impl.startswith("panic:"):
            return _panic_sig(e, impl[6:])
        if impl == "hang":
            # a text that reaches the GRL parser with a `when` leaf of more than 100 bytes: F-C05h (same root cause, same signature
            # as in the search part); the generator caps such leaves, this is for a spliced `when` that escapes the cap
            t = case.split(" ")
            s = _unhex(t[1]) if len(t) > 1 else ""
            if e == "W":
                s = "when " + s
            if e in ("R", "M", "W", "PU", "AT", "PN", "AC", "MC", "RV", "RA", "WF", "WG", "FN") and _long_when_leaf(s):
                return KNOWN_HANG_SIG
            if e == "V":
                # evaluate_expression makes at most 2n + 1 calls on n chars (C05.evalCalls_linear) and takes microseconds on every
                # generated text: no answer within CASE_TIMEOUT is a super-linear blow-up (CHAIN family: long operator chains)
                return "hang:V:evaluate_expression-superlinear"
            if e in ("G", "GQ"):
                # the query parser's keyword scans are single passes over the text (KEYWORD family: 0..4 glued occurrences of every
                # keyword): no answer within CASE_TIMEOUT is a scan that stopped advancing
                return "hang:%s:query-parser-keyword-scan-no-progress" % e
        return "oracle:%s:%s" % (e, oracle.replace("fail ", ""))
    return "diff:%s" % e


def agree(case, impl, model):
    if model == "-":
        return True
    if model == "fine":
        return impl == "err" or impl.startswith("err ") or impl == "ok" or impl.startswith("ok ")
    if model == "panic":
        return impl.startswith("panic")
    if model.startswith("iferr "):
        # the tree is predicted, the regex-driven leaf parser is not: an Err agrees, an Ok must be the predicted one
        return impl == "err" or impl.startswith("err ") or impl == model[6:]
    return impl == model


def _long_when_leaf(s):
    """is there a `when` leaf of more than 100 bytes as parse_when_clause sees it: `&&` / `||` split only at
    parenthesis depth 0 (an unbalanced `(` keeps the rest of the clause in one leaf)"""
    i = s.find("when")
    if i < 0:
        return False
    for clause in re.split(r"then|\}|;", s[i + 4:]):
        depth, run, j = 0, 0, 0
        while j < len(clause):
            two = clause[j:j + 2]
            if depth == 0 and two in ("&&", "||"):
                run, j = 0, j + 2
                continue
            c = clause[j]
            depth += 1 if c == "(" else -1 if c == ")" else 0
            run += len(c.encode())
            if run > 100:
                return True
            j += 1
    return False


def _hang_confirmed(ctx, entry, h):
    """does the input hang when run alone? (`c05 one <entry> <hex>`; the entry of a search failure may be unknown: try them all)"""
    limit = 120 if ctx.tier == "thorough" else 30
    entries = [entry] if entry not in ("?", "") else ["R", "PU", "M", "Q", "G", "GQ", "X", "V", "A", "D", "NP", "QV", "AT", "W", "AC"]
    for e in entries:
        try:
            subprocess.run([ctx.bin, "one", e, h], capture_output=True, text=True, timeout=limit)
        except subprocess.TimeoutExpired:
            return True
        except Exception:
            return True      # cannot tell: keep the report
    return False


def extra(ctx):
    """robustness SEARCH over the seven entry points in child processes + the F-C05h growth probe"""
    fails, cov = [], {}
    n = ROBUST_N[ctx.tier]
    env = dict(os.environ, C05_ROBUST_BUDGET_S=str(ROBUST_BUDGET_S[ctx.tier]))
    t0 = time.time()
    p = subprocess.run([ctx.bin, "robust", str(ctx.seed), str(n), ctx.tier], capture_output=True, text=True, env=env)
    counts, fail_lines, info = {}, [], {}
    for l in p.stdout.split("\n"):
        t = l.split(" ")
        if t[0] == "count" and len(t) == 3:
            counts[t[1]] = int(t[2])
        elif t[0] == "FAIL" and len(t) >= 4:
            fail_lines.append(t)
        elif t[0] in ("strings", "generated", "children", "out_of_budget", "fails"):
            info[t[0]] = int(t[1])
        elif t[0] == "slowest_ms":
            info["slowest"] = " ".join(t[1:])
    cov["search_label"] = "robustness search (fuzzing-like input generation; not a proof; supports the theorems)"
    cov["search_strings"] = info.get("strings", 0)
    cov["search_strings_generated"] = info.get("generated", 0)
    cov["search_entry_points_per_string"] = 7
    cov["search_calls"] = 7 * info.get("strings", 0)
    cov["search_child_processes"] = info.get("children", 0)
    cov["search_counts"] = dict(sorted(counts.items()))
    cov["search_slowest_call_ms"] = info.get("slowest", "")
    cov["search_failures"] = info.get("fails", len(fail_lines))
    cov["search_wall_s"] = round(time.time() - t0, 1)
    cov["search_stopped_on_budget"] = bool(info.get("out_of_budget", 0))
    if p.returncode != 0 or "strings" not in info:
        ctx.broken.append(("robust-search", "the robustness search did not complete: rc=%s %s" % (p.returncode, p.stderr[-500:])))
    groups = {}
    for t in fail_lines:
        entry, h, what = t[1], t[2], t[3]
        s = _unhex(h)
        if what.startswith("panic:"):
            sig = _panic_sig(entry, what[6:])
            clause = "panic"
        elif what.startswith("hang"):
            # false-alarm control: a hang reported by the search is CONFIRMED by running that input alone (every entry point, same
            # watchdog). A genuine hang reproduces in isolation; a watchdog that fired because the machine was overloaded, or that was
            # attributed to the neighbour of a slow input, does not (seen once in a thorough run under three concurrent heavy jobs).
            if not _hang_confirmed(ctx, entry, h):
                cov["search_unconfirmed_hangs"] = cov.get("search_unconfirmed_hangs", 0) + 1
                continue
            sig = KNOWN_HANG_SIG if _long_when_leaf(s) else "hang:other"
            clause = "hang"
        else:
            sig = "crash:" + what
            clause = "crash"
        rec = {"case": "%s %s -" % (entry, h), "impl": what, "model": "-", "oracle": "fail " + clause, "kind": "oracle"}
        g = groups.setdefault(sig, [rec, 0])
        if len(rec["case"]) < len(g[0]["case"]):
            g[0] = rec
        g[1] += 1
    for sig, (rec, cnt) in groups.items():
        fails.append((sig, rec, cnt))

    # F-C05h probe: time of parse_rules on a non-matching `when` leaf "(((…" of n bytes; growth exponent; extrapolation
    pts = []
    p = subprocess.run([ctx.bin, "growth", "40", "80", "120"], capture_output=True, text=True)
    for l in p.stdout.split("\n"):
        t = l.split(" ")
        if t[0] == "growth":
            pts.append((int(t[1]), int(t[3]) / 1e6))
    cov["grl_when_leaf_growth_s"] = {str(n_): round(s_, 4) for n_, s_ in pts}
    if len(pts) >= 2 and pts[0][1] > 0:
        expo = math.log(pts[-1][1] / pts[0][1]) / math.log(pts[-1][0] / pts[0][0])
        at4k = pts[-1][1] * (4096 / pts[-1][0]) ** expo
        cov["grl_when_leaf_growth_exponent"] = round(expo, 2)
        cov["grl_when_leaf_extrapolated_s_at_4096"] = float("%.3g" % at4k)
        if at4k > 120 and KNOWN_HANG_SIG not in groups:
            h = ("rule \"r\" { when " + "(" * 4000 + " then Y = 1; }").encode().hex()
            rec = {"case": "R %s -" % h, "impl": "hang(extrapolated %.3gs; measured %s)" % (at4k, cov["grl_when_leaf_growth_s"]),
                   "model": "-", "oracle": "fail hang", "kind": "oracle"}
            fails.append((KNOWN_HANG_SIG, rec, 1))
    # balanced nesting within the property's bound (observation recorded, DESIGN §6 C05 note)
    p = subprocess.run([ctx.bin, "nesting", "8", "16", "24", "32"], capture_output=True, text=True)
    cov["grl_balanced_nesting_ms"] = {l.split(" ")[1]: int(l.split(" ")[3]) for l in p.stdout.split("\n") if l.startswith("nest ")}
    return fails, cov
CASE_TIMEOUT = 10      # modelled kernel cases take microseconds; a case that needs 10 s is a hang
