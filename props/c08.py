ID = "C08"
THEOREMS = [
    "C08.model_meets_spec",
    "C08.support_invariant",
    "C08.explicit_only_by_request",
    "C08.explicit_leaves_only_by_retract",
    "C08.cascade_exact",
    "C08.retract_absent_noop",
    "C08.only_retract_removes",
    "C08.cascade_terminates",
    "C08.queries_truthful",
    "C08.support_invariant_needs_wf",
    "C08.rejustified_dead_handle",
    # the maintenance call `C` (oracle clause `maintenance`: C08.weave / C08.unweave, Spec.lean)
    "C08.maintenance_noop",
    "C08.maintenance_transparent",
    "C08.maintenance_exact",
    # retractions / insertions made by rule actions during fire_all, reset_with_deffacts (reach ops, desugared by the driver)
    "C08.action_is_op",
    "C08.actions_are_history",
    "C08.action_retract_exact",
    "C08.reset_starts_new_history",
]
N = {"quick": 5000, "thorough": 50000}
EXHAUSTIVE = {"quick": True, "thorough": True}
RULE = ("cases = corpus + EVERY history of length <=5 (thorough: <=6) creating at most 4 facts over the alphabet "
        "{insert, insert_logical(1 or 2 premises), tms_mut().add_logical_justification(f,[p]), add_explicit_justification(f), retract(h)} "
        "with all handles among those created so far, live or not (quick 8,913 / thorough 181,502 histories; count recomputed into "
        "coverage.exhaustive_histories) + 10 fixed support graphs (chain, two diamonds, cycles, shared/duplicated premises, "
        "explicit+logical, premise-less) each followed by every ordered selection of up to 3 retractions + N random histories "
        "of 3..10 operations over up to 7 facts (7 of 8 well-formed; build-then-retract phases; insert and insert_explicit both driven) "
        "+ three families beyond the small bound (about 950 well-formed histories in the quick tier, more and larger in thorough): "
        "DEEP derivation graphs (chains of every length 30..60 and 63..200 [thorough ..500] with the root or a fact near the root "
        "retracted, exactly 32/33/34 levels below the retracted fact, deep chains hanging off both kinds of diamond, links that need / "
        "are also supported by a second fact, combs, joined chains, random mostly-chain graphs of 34..70 facts), LONG SESSIONS on one "
        "engine (8 kinds of multiply-justified fact losing one premise early, possibly one half-way, and the last one after unrelated "
        "insert/retract/cascade traffic that brings the number of retracted handles to 48..130 [thorough ..260], every value 62..68 "
        "for every kind; random sessions of 70..180 [thorough ..400] operations with ~40 % retractions), WIDE justifications (4..8, 12 "
        "and 16 [thorough 3..16] premises in ascending, descending, rotated, swapped, interleaved and shuffled handle order, every "
        "single premise retracted in turn on a fresh engine, plus dependents, prior unrelated retractions, two wide justifications, "
        "narrow+wide, derived premises, duplicated premises, stacked wide joins) "
        "+ the MAINTENANCE-CALL family (7 named shapes + N/4 random histories, 7 of 8 well-formed): the public call "
        "working_memory_mut().clear_modification_tracking() (op `C`, 'after propagation' clearing of the pending modified/retracted "
        "tracking sets) directly after 2 of 3 retractions and at random other places, followed by further operations incl. a second "
        "retraction of facts that are gone and justifications naming them; the call inserts and retracts nothing, so its step must "
        "repeat the previous step's observations (oracle clause `maintenance` = C08.unweave in Spec.lean, evaluated by the driver, which then removes the step; "
        "theorems maintenance_noop / maintenance_transparent / maintenance_exact: "
        "model and Spec see the same history without it, so every later step is also compared with the run that never cleared). "
        "+ the RULE-NAME family (about 11,500 histories in the quick tier): the SOURCE-RULE NAME handed to insert_logical / "
        "add_logical_justification / ActionResult::InsertLogicalFact is an input too — token suffix `@<n>` selects entry n of a table of "
        "35 names (empty, blank, tab+newline, NUL, BOM, 64 blanks, 300 and 30,000 bytes long, non-ASCII / combining / astral, equal to "
        "other justifications' names, to fact types, to rule names of the engine, to the words explicit / logical / None / null, GRL "
        "text, a premise key); every exhaustive history of length <=4 with a logical insertion and a retraction, every fixed support "
        "graph x retraction order and every reach shape gets the same name everywhere (each name in turn), the empty / blank name on "
        "the first or last logical token only, a different name per token and empty/\"rule\" alternating; N/2 random histories (a "
        "quarter with reach ops) draw a name per logical insertion. The name is a label: the driver removes the suffix (stripName), "
        "model and oracle see the same history as without it; the harness also checks that the newest justification of the fact is "
        "Logical, names exactly that rule and lists exactly those premises (flag `!rulename`). "
        "+ the REACH families (about 3,500 histories in the quick tier; every engine path through which facts are inserted, updated or "
        "retracted, not only the four API calls): ops `F<a>` = engine.insert(trigger fact) [one step], then reset() + fire_all() with "
        "the fired rule's action returning one ActionResult [second step]: Retract(h) (what GRL retract($X) produces), "
        "RetractByType(a type only fact h has), InsertFact, InsertLogicalFact{premises}, Update(h), None, ActivateAgendaGroup, "
        "CallFunction, ScheduleRule, or modifying fields of the F/D facts (written back by fire_all with working_memory.update); "
        "`K<h>` = engine.update(h, kill=true) + fire_all() with GRL-loaded rules `when F.kill == true then retract($F)` (types F, D); "
        "`N` / `P` / `D` / `G` = the insert twins (a fact type of its own, insert_with_template, load_deffacts_by_name, load_deffacts); "
        "`Lk<ps>` = insert_logical whose premises were first looked up with resolve_premise_keys; `U<h>` engine.update, `A` add_rule "
        "in mid-history, `Z` reset(); `W` = reset_with_deffacts() followed by normal use (a new history: handles restart at 1). "
        "The driver DESUGARS every reach op into the model's own operations (Driver/C08.lean parseTok: F<a> -> insert, then the "
        "operation the action stands for [theorems action_is_op / actions_are_history / action_retract_exact]; ops that insert and "
        "retract nothing -> a step that must repeat the previous sets [clause `maintenance`]; W -> model and Spec oracle start again "
        "from init [reset_starts_new_history]). Families: EVERY history of length <=3 (thorough <=4) over {I, N, Fi, L[p], Fl[p], Fr h, "
        "K h, Ft h}; 10 fixed support graphs x every fact retracted by Fr / K / R / Ft (also after A, U, Fm) and every ordered pair "
        "of retractions mixing the ways; N/3 random histories over the whole alphabet (7 of 8 well-formed, 1 in 5 with one or two W "
        "in the middle), deep chains (33..100) whose root a rule action retracts, long mixed sessions of up to 90 operations. "
        "In cases with reach ops or at most 40 handles further public views are cross-checked after every step (flags -> "
        "oracle:inconsistent-*): tms().get_justifications vs the twin TMS, working_memory().get_by_type over all types vs get(), the "
        "fact type of every handle, working_memory().stats(), fire_all()'s fired list, update()'s result, the lookup of resolve_premise_keys, "
        "get_modified_handles/get_retracted_handles after the clear. "
        "+ the MULTI-RESULT-FIRING family (about 4,300 histories in the quick tier): token `F<a>+<a>[+<a>]` = ONE firing whose action "
        "returns 2..3 ActionResults, which process_action_results applies in the order emitted (each through the engine's own entry "
        "point): over 13 small support graphs with a chosen premise p and another fact q EVERY ordered selection of 2 and of 3 distinct "
        "results from {InsertLogicalFact from p, InsertLogicalFact from p and q, InsertFact, Retract(p), Retract(q), Update(p)} "
        "(derive-then-consume, consume-then-derive [outside the domain: premise dead when recorded], insert between two retractions), "
        "the 2-result firings also followed by a later retraction of every fact involved, results naming a fact made earlier in the "
        "same firing, N/8 random histories with one or two such firings drawn against the liveness simulation. The states between the "
        "results of one firing are not observable: the harness shows one step (results joined by `+`, sets after the firing); the driver "
        "desugars the firing into the history of its results (theorem actions_are_history) and evaluates Spec.runOk on it with the real "
        "observation at the firing's last result (Driver/C08.lean collapse / expand). "
        "+ the PROMOTION family (about 3,300 histories): token `Q<f>` = tms_mut().remove_justifications(f) followed by "
        "tms_mut().add_explicit_justification(f) ('promote a derived fact to a stated one'), desugared to add_explicit_justification(f) "
        "(f is explicitly supported from then on, its dependents are untouched; the count of stored justifications is corrected by the "
        "driver): every fixed support graph x every fact promoted (once, twice, before / after a further derivation or justification, "
        "after a sibling's promotion, between two retractions) x every ordered selection of up to 2 retractions; N/8 random histories "
        "with promotions of live facts at random places. "
        "Each history is run on IncrementalEngine (real code) plus a stand-alone TruthMaintenanceSystem fed the same calls "
        "(to observe the return value of retract_with_cascade) and on the Lean model; after EVERY operation the result, "
        "working_memory().get(h) for every handle, is_logical/is_explicit/has_valid_justification and tms().stats() are diffed "
        "(cascade list compared in order - it is deterministic), and the Spec predicate C08.runOk is evaluated on the "
        "implementation's observations. non-trivial = well-formed history in which some retract cascaded to >= 1 further fact; "
        "distinct = distinct case text.")
TRUSTED = [
    "Lean 4.33 kernel; axioms of every property theorem within {propext, Classical.choice, Quot.sound} (audited each run)",
    "hand-written model RreModel/C08/Model.lean tied to src/rete/tms.rs + IncrementalEngine::{insert,insert_explicit,insert_logical,retract} "
    "+ WorkingMemory::{insert,retract,get} by the correspondence check only (differential testing)",
    "the explicit-stack formulation of the recursive retract_with_cascade (same visiting and emission order; compared in order on every case)",
    "harness/src/bin/c08.rs, Driver/C08.lean parsing/printing glue, check.py diff",
    "the driver's desugaring of the reach ops (Driver/C08.lean parseTok / splitW: which model operations a rule action, an insert twin, "
    "an update or reset_with_deffacts stands for; the trigger side of fire_all - agenda, conditions, field write-back - is not modelled, "
    "it must insert and retract nothing, which the `maintenance` clause checks on every such step)",
    "multi-result firings: the states between the results of one firing cannot be observed; the oracle takes for them the reported "
    "result (handle / the twin TMS's cascade list, fed in the emitted order) and the model's sets (which meet every clause by "
    "model_meets_spec and are the only ones that do by cascade_exact) and evaluates every clause on the real observation at the "
    "firing's last result; promotion `Q<f>` is desugared to add_explicit_justification(f) and the stored-justification count is "
    "corrected in the driver (removedOfSeg), not in Model.lean",
]
ASSUMPTIONS = [
    "domain (the property's quantifier): every premise is live when its justification is recorded, and a further justification "
    "(tms_mut().add_*_justification) is recorded only for a fact that is itself live; outside it the model still mirrors the code "
    "(checked) but the property clauses are not claimed (theorems support_invariant_needs_wf, rejustified_dead_handle)",
    "working memory is changed only through the engine (working_memory_mut().insert/insert_from_stream/retract/update/clear(), "
    "tms_mut().remove_justifications() ON ITS OWN and tms_mut().clear() are not part of a history: they edit one of the two stores "
    "behind the engine's back - after remove_justifications(f) alone a present logical fact has no justification at all, which no "
    "reading of the property admits; the PAIR remove_justifications(f) + add_explicit_justification(f) ('promote to explicit', op `Q`) "
    "IS part of a history: it states f explicitly, like add_explicit_justification(f)); the one call made through working_memory_mut() is clear_modification_tracking(), "
    "a maintenance call that by contract changes no fact: histories may contain it anywhere and it must be invisible; "
    "reset_with_deffacts() IS part of a history: it ends it and starts a new one (needs the repair F-C08-reset: the TMS is cleared too)",
    "a rule action's RetractByType is driven only for fact types with a single fact (`N` facts): with several live facts of one type "
    "the engine retracts 'the first' in HashSet order, which no deterministic model can name; one firing per fire_all, with one ActionResult "
    "(`F<a>`) or several (`F<a>+<a>[+<a>]`, applied in the order emitted)",
    "fact handles are u64 modelled as Nat; fact type/data, agenda and rule propagation do not influence presence or support",
]


def classify(case, impl, model, oracle, kind):
    if kind == "oracle":
        return "oracle:" + oracle.split("@")[0].replace("fail ", "")
    # first differing step and field
    names = ["result", "present", "logical", "explicit", "valid", "stats"]
    a, b = impl.split(";"), model.split(";")
    for x, y in zip(a, b):
        if x != y:
            fx, fy = x.split("/"), y.split("/")
            for n, (p, q) in zip(names, zip(fx, fy)):
                if p != q:
                    return "diff:" + n
            return "diff:shape"
    return "diff:length"


def extra(ctx):
    import subprocess
    k = "5" if ctx.tier == "quick" else "6"
    n = subprocess.run([ctx.bin, "count", k, "4"], capture_output=True, text=True).stdout.strip()
    return [], {"exhaustive_histories": int(n or 0), "exhaustive_bound": f"length<={k}, facts<=4"}


LEVEL_TEXT = ("Lean 4 theorems (kernel-checked, unbounded: every well-formed history of any length over any number of facts, any "
              "justification graph incl. diamonds and cycles) about the executable model of TruthMaintenanceSystem + the engine's "
              "insert/insert_explicit/insert_logical/retract: support_invariant (a logically-only-justified fact is present iff not "
              "retracted on request and one of its justifications has all premises present), explicit_only_by_request, cascade_exact "
              "(one retract removes h + the returned cascade, each left without support, everything left is supported, and it is the "
              "least such set), cascade_terminates (well-founded recursion, no fuel; |cascade| <= #justifications). Tied to "
              "src/rete/tms.rs, propagation.rs, working_memory.rs by a correspondence check (exhaustive short histories + fixed graphs "
              "x all retraction orders + random histories; observations after every operation) and by evaluating the Spec clauses on "
              "the implementation's observations.")
LEVEL_NOTE = ("Trusted: Lean kernel + {propext, Classical.choice, Quot.sound}; hand-written model tied to the code by differential "
              "testing only; the recursive cascade is modelled as the equivalent explicit-stack machine; harness/driver glue.")
DESIGN_REF = "§6 C08"
