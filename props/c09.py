ID = "C09"
THEOREMS = [
    "C09.search_facts_reachable",
    "C09.provable_goal_holds",
    "C09.query_sound_partial",
    "C09.query_sound_counterexample",
    "C09.query_eq_fast",
    "C09.dfs_complete_partial",
    "C09.dfs_complete",
    "C09.dfs_facts_grow",
    "C09.derivableIn_iff_deriv",
    "C09.dfs_complete_oracle",
    "C09.dfs_complete_full_holds",
    "C09.dfs_complete_depth_tight",
    "C09.dfs_complete_needs_noIntLit",
    "C09.dfs_complete_needs_consistency",
    "C09.subCandidates_covers",
    "C09.topCandidates_covers",
    "C09.dfs_complete_code",
    "C09.dfs_complete_oracle_code",
    "C09.topCandidates_needs_fieldOk",
    "C09.ruleNameR_unique",
    # disabled rules / negated query goal (RreModel/C09/Ext.lean)
    "C09.remap_enabled",
    "C09.remap_disabled",
    "C09.candStep_disabled_noop",
    "C09.neg_search_facts_reachable",
    "C09.queryNeg_eq_fast",
    # histories on one engine: knowledge-base edits, rebuild_index, set_config (RreModel/C09/Hist.lean)
    "C09.rebuild_index_fresh",
    "C09.engNew_fresh",
    "C09.set_config_transparent",
    "C09.kb_edit_keeps_index",
    "C09.rebuild_fresh_noop",
    "C09.replace_same_count_stale",
    "C09.stale_candidate_noop",
    "C09.livePos_missing",
    # value classes and operators (RreModel/C09/ValTheorems.lean): Null as a present value, string operators / In, the goal-pattern
    # round trip on text; bounded completeness over histories
    "C09.null_is_not_absent",
    "C09.cmpEval_eq_refl",
    "C09.null_string_quirk",
    "C09.reparse_of_parse",
    "C09.reparse_bool_null",
    "C09.reparse_table",
    "C09.dfs_complete_needs_roundtrip_str",
    "C09.string_op_subgoal_proven_in_never",
    "C09.rebuild_eq_new",
    "C09.hist_complete_partial",
    # U09: coverage of the candidates an engine STATE computes (arbitrary names, disabled rules) — no Covers hypothesis left
    "C09.subCandsHist_covers",
    "C09.topCandsHist_covers",
    "C09.kbStep_names_nodup",
    "C09.hist_complete_full_holds",
]
LEAN_TARGETS = ["RreModel.C09.Theorems", "RreModel.C09.ExtTheorems", "RreModel.C09.HistTheorems", "RreModel.C09.ValTheorems"]
N = {"quick": 1500, "thorough": 20000}
EXHAUSTIVE = {"quick": False, "thorough": False}
RULE = ("cases = corpus (defect witnesses) + N generated problems (50% consistent-Horn KBs: one value per field, conjunctive "
        "equality conditions, shared sub-goals, dead-end literals, occasional Integer literals; 25% general KBs: And/Or trees, "
        "all six comparison operators, wrong-value conclusions, two-assignment rules, Integer/Number/String/Boolean literals; "
        "25% chain/diamond shapes with a wrong-value goal rule, a cycle and a dead end), <= 8 rules, <= 10 fields incl. dotted "
        "names, each under a random strategy (DFS/BFS/iterative), max_depth 0..6, max_solutions 1 or 3, a third of them a second "
        "time under another strategy; + N/10 rival-conclusion problems under every strategy; + N/10 string-literal problems, each under "
        "EVERY strategy (the goal-value parser exists once per strategy): literals that are the EMPTY string, one character, or contain blanks, "
        "as query literal on a field holding that / another string, as a string one rule has to derive, as a rule condition (== and !=) that is "
        "not satisfied by the facts and becomes a sub-goal (one and two levels, conjunctions), and string-heavy consistent-Horn KBs; "
        "+ N/10 name-literal problems under EVERY strategy: the string a rule assigns (and goals / conditions compare with) is the NAME of a "
        "flat field of the same store (`A := \"X\"` while a fact X exists: the seed fact, an unrelated fact, the goal's or the assigned field "
        "itself; initial, derived earlier on the proof path or by an earlier action of the same rule, or absent; holding number / bool / string / "
        "another field name / Integer / array / object), the goal depending on it directly (== / !=), through one or two rule conditions, or not "
        "at all (then the facts handed back carry it), and name-heavy consistent-Horn KBs; "
        "+ N/12 'failing first alternative' problems (at depth 1..3 a candidate fails after it or its sub-goals wrote — interference through a "
        "second assignment / Retract / Append, Err on the retry or the first attempt, wrong value, underivable condition, depth cut — then a later "
        "alternative succeeds and the enclosing rule fails on an underivable last conjunct) and N/8 problems whose rules carry Append / Retract / "
        "MethodCall(setSpeed) actions before / after their Set over facts holding arrays and objects, each under EVERY strategy (see C10 part B). "
        "+ N/10 DISABLED-rule problems (`*rule` = `enabled = false`; the forward engine never fires such a rule, so the forward closure and the "
        "completeness clause are over the ENABLED rules), each under EVERY strategy: the only rule concluding the goal is disabled (linear-fallback "
        "path), it concludes a sub-goal of an enabled rule one or two levels down (rule_could_prove_pattern path), it has the wrong / the only right "
        "value beside an enabled rival (top level and one level down), it stands beside an enabled rule on the same field (index non-empty), the goal "
        "already holds, it would undo (Retract / second Set) what an enabled rule derived, and random Horn / chain / interference KBs with 1..3 random "
        "rules disabled; a quarter of them also as the NEGATED query; + N/10 negated-query problems `NOT <atom>` (see C10 part B (3); oracles (ii), "
        "(iii) and the model comparison only - clauses (i), (iv) are stated for atomic goals). "
        "+ N/6 HISTORIES on ONE engine (5th token): between askings of a top-level goal the knowledge base is edited through "
        "engine.knowledge_base() - the rule concluding the goal replaced under a new / the SAME name (rule count unchanged), enabled / "
        "disabled in place, added, removed, the base cleared and refilled - and rebuild_index() is called (3 in 4) or not, set_config on "
        "the way (1 in 4), engines built by with_config (memoisation off / on) and by BackwardEngine::new, the last query 1 in 4 through "
        "explain_why; a third are random histories (3..8 random edit / rebuild / set_config / query steps, queries on other facts, for "
        "other fields, negated) over generated KBs. EVERY query of a history is judged by the oracle clauses against the rule set, "
        "configuration and facts as they are at that query ((iv), (iv-b) only when the index was built after the last edit); the model "
        "(RreModel/C09/Hist.lean) carries the live rule list, the rule list the index was built from, and the memo cache. "
        "+ N/40 single queries on engines built by BackwardEngine::new; + N/8 problems over KEYWORD-LIKE field names (vocabulary v1: NOTICE, "
        "ORDER, ANDROID, trueCount, NOTE, nullable, inStock, NOTIFY.Sent, NOT.Q - names that start with / contain NOT, OR, AND, true, null, in), "
        "each under EVERY strategy, 1 in 5 negated, 1 in 6 a history. "
        "+ N/6 VALUE-CLASS problems (S09), each under EVERY strategy: Value::Null as a PRESENT fact value / Set literal / condition and query literal "
        "(`z`; present-Null vs absent vs the string \"null\", which `==` takes for null as soon as one side is Null; a Null fact that a rule fired "
        "during a FAILING proof attempt overwrites must come back as Null), the string operators Contains / NotContains / StartsWith / EndsWith / "
        "Matches and In in rule conditions that become sub-goals (the pattern text condition_to_goal_pattern prints and parse_goal_pattern / "
        "parse_value_string read back is modelled on the text: C09.reparse), string literals containing operator text, quotes, blanks "
        "(`%hh` escapes; a lone `\"` behind a cut panicked before fix F-C09i), random KBs over all value classes and all twelve operators. "
        "+ N/10 DEAD-END problems (U09), each at the sufficient depth with max_solutions 1, at depth +0..2 with 1 / 3, and under BFS / iterative: "
        "`P0 && P1 [&& P2] => G`, every conjunct derivable through a chain of 1..3 rules (derivation height 2..4), and dead-end rules - every value "
        "they assign is wanted by no condition and not by the goal - that assign a LATER conjunct's field (or an intermediate field of its chain) "
        "TOGETHER WITH the fields of sibling conjuncts proven before (sometimes the input too), ordered BEFORE the rule that really proves that "
        "conjunct, their own condition the input or a proven sibling; oracle clause (iv-c) `incomplete-deadend`: DFS, all-conjunctive KB without "
        "Integer condition literals, the KB WITHOUT its dead-end rules consistent-Horn and the goal derivable there within max_depth => provable "
        "(a dead end tried as a candidate is rolled back with everything it overwrote, also keys an ENCLOSING frame recorded earlier; checked "
        "before (iv-b), whose failures are the known finding F-C09e). "
        "Each case runs BackwardEngine::query on a fresh engine (real code); observed: provable, "
        "get_all_facts after, undo depth after (hook), #solutions. Oracles evaluated by the Lean driver on the implementation's "
        "observations, none of them running the search model: (i) provable => goal comparison true in the facts handed back; "
        "(ii) facts handed back are in Reach, computed by explicit forward search; (iii) not provable => facts after == before, "
        "undo depth 0 always; (iv) DFS, consistent-Horn KB: goal derivable with sub-goal nesting <= max_depth (reference level "
        "computation) => provable; (iv-b) DFS, all-conjunctive KB with conflicting assignments and no Integer condition literal: "
        "derivation tree within max_depth AND goal true in a store of the explicit forward search => provable (failures = known "
        "finding F-C09e). The search model's prediction is compared as well: the driver emits the SET of admissible "
        "observations over all orders of the top-level candidate list (HashSet order) and the check is membership. "
        "CALLER-OWNED UNDO FRAME family (cfg `^r` / `^k`, C10 part B's clause, generated last so that the cases above are unchanged): constructive "
        "chains under every strategy x max_solutions 1, 3 x {rollback, commit} and N/2 single-query cases sampled from all families re-run inside "
        "a frame the caller began on the facts and rolls back / commits afterwards (deep searches over >= 3 rules re-run at depth <= 4); the model "
        "prediction is the plain one with undo depth 1 and the facts after the close (initial facts / facts handed back), the oracle checks the "
        "caller-frame clauses first (Driver/C09.lean oracleWrap) and then the plain clauses. "
        "Non-trivial = provable with derived facts, or not provable although some rule can fire on the initial facts.")
TRUSTED = [
    "Lean 4.33 kernel; axioms of every property theorem within {propext, Classical.choice, Quot.sound} (audited each run)",
    "hand-written model RreModel/C09/Model.lean tied to src/backward/{search,backward_engine,rule_executor}.rs, "
    "engine/condition_evaluator.rs, types.rs by the correspondence check only (differential testing)",
    "candidate computation (find_candidate_rules = ConclusionIndex lookup + linear fallback; rule_could_prove_pattern over kb.get_rules()) "
    "is part of the model (RreModel/C09/Candidates.lean, which runs C16's ConclusionIndex model on the knowledge base) and is what the driver "
    "runs; like the search model it is tied to the code by the correspondence check only. The soundness/restoration theorems hold for every "
    "candidate list; the completeness theorems dfs_complete_code / dfs_complete_oracle_code use the computed lists (coverage proved: "
    "topCandidates_covers, subCandidates_covers)",
    "harness/src/bin/c09.rs, Driver/C09.lean parsing/printing glue, check.py diff; hook Facts::verif_undo_depth",
]
ASSUMPTIONS = [
    "rule actions are Set field := literal, Append field += scalar literal, Retract field, MethodCall field.setSpeed(Number) (the action list "
    "is modelled as its leading Set actions `acts` plus the rest `more`; the completeness theorems are about rules with Set actions only); "
    "conditions are And/Or trees of `field op literal` (Field expressions); Object values only as {Speed: Number} on un-dotted field names "
    "(get_nested of a one-component path is get); arrays hold scalars; strings in the tie are printable ASCII and read as numbers only in the form -?[0-9]+ (Value::to_number parses strings); field names contain no blank and none of `= ! < >` (the goal-pattern round trip is modelled on the text behind the name); QUERY texts keep the six comparison operators and literals without operator characters (the query-language parser is C05's subject), negated queries no Null literal; Number literals are whole (no rounding); "
    "no Value::Expression arguments; Log and the no-op action arms are not driven",
    "no RETE engine attached (query, not query_with_rete_engine with Some(engine)): no proof-graph cache, no TMS inserter",
    "the query goal has no sub_goals (BackwardEngine::query never creates any), so BFS works at depth 0 only",
    "forward closure = forward reachability Reach under the backward engine's own ConditionEvaluator (DESIGN §6 C09)",
]


def agree(case, impl, model):
    if model == "many-orders":
        return True
    # a history: one observation / one set of admissible observations per query, joined by ` / `
    im, mo = impl.split(" / "), model.split(" / ")
    if len(im) != len(mo):
        return False
    return all(m.strip() == "many-orders" or i.strip() in [x.strip() for x in m.split("||")] for i, m in zip(im, mo))


def classify(case, impl, model, oracle, kind):
    if kind == "oracle":
        # `@<k>` (the failing query of a history) is not part of the signature
        return "oracle:" + ":".join(t for t in oracle.replace("fail ", "").split() if not t.startswith("@"))
    return "diff:" + case.split()[0][0] + (":history" if len(case.split()) == 5 else "")

LEVEL_TEXT = ("Lean 4 theorems (kernel-checked, unbounded: every KB, store, goal, max_depth, candidate order and sub-goal candidate "
              "function) on an executable model of the backward search after fixes F-C09/F-C10a-c: search_facts_reachable (facts "
              "handed back are forward-reachable; DFS, BFS, iterative; every max_solutions), provable_goal_holds / query_sound_partial "
              "(provable => goal comparison true in the facts handed back; BFS, iterative, DFS with max_solutions = 1), "
              "query_sound_counterexample (max_solutions > 1 violates it: recorded finding), query_eq_fast (the driver's search equals "
              "the model's). Bounded completeness of DFS: dfs_complete (KB with pairwise consistent actions, compatible initial store, "
              "every max_depth / max_solutions / covering candidate order: a goal with a derivation tree of height <= max_depth + 1 "
              "through rules with conjunctive equality conditions without Integer literals is provable; by induction on the derivation "
              "with the invariant dfs_facts_grow - failed candidates are rolled back exactly (C10 frame theorem), successful sub-proofs "
              "only extend the store), derivableIn_iff_deriv + dfs_complete_oracle (oracle (iv)'s reference computation decides exactly "
              "that derivability, so clause (iv) is a theorem of the model), dfs_complete_full_holds (the statement left open before), "
              "dfs_complete_partial (nesting-0 derivations, arbitrary KBs), and one kernel-evaluated witness per hypothesis: "
              "dfs_complete_depth_tight (height max_depth + 2 is not found), dfs_complete_needs_noIntLit (F-C09b), "
              "dfs_complete_needs_consistency (F-C09e). The hypothesis `Covers` of dfs_complete is discharged for the candidate lists the code computes "
              "(RreModel/C09/Candidates.lean: topCandidates = ConclusionIndex::find_candidates on the index built by from_rules - C16's model of it, "
              "reused - with the linear fallback of find_candidate_rules; subCandidates = rule_could_prove_pattern over kb.get_rules()): "
              "subCandidates_covers (every naming, KB, atom: the pattern text starts with the field's name, so a rule with a Set on it passes the "
              "substring test), topCandidates_covers (unique rule names, equality goal on a field whose name has no `==` and no outer blanks: "
              "extract_field_from_goal recovers the name, C16.from_rules_complete gives the rule, the non-empty lookup keeps the fallback off), "
              "dfs_complete_code / dfs_complete_oracle_code (= dfs_complete / dfs_complete_oracle with these lists and EVERY enumeration of the "
              "top-level HashSet, no Covers hypothesis), topCandidates_needs_fieldOk (a field named `a==b` is cut at its first `==`: witness that "
              "the name hypothesis is needed), ruleNameR_unique (the tie's rule names R<i> are pairwise different, for every KB). DISABLED rules "
              "(after fix F-C09f): the search model runs on the knowledge base FILTERED TO ITS ENABLED RULES (Ext.enabledRules), so every theorem above, "
              "stated for every kb and candidate list, is about the enabled rules only (Reach = forward closure ignoring disabled rules); the candidate "
              "lists are computed on the full rule list and renumbered: remap_enabled (an enabled candidate is executed as itself), remap_disabled + "
              "candStep_disabled_noop (a disabled / unknown candidate opens a frame and nothing else: never executed). Negated query goals: "
              "neg_search_facts_reachable, queryNeg_eq_fast. Tied to the code by differential testing with "
              "set-valued predictions, and by four model-free oracles (goal holds, explicit forward-reachability search, facts "
              "restored / no leaked frames, bounded completeness against a reference derivation-level computation) evaluated on "
              "the implementation's observations under every strategy.")
LEVEL_NOTE = ("Bounded completeness is proved for knowledge bases whose actions give each field one value (consistent with the initial "
              "facts) and derivations through conjunctive equality rules without Integer literals; outside that fragment it is false of "
              "model and code (known findings F-C09b: Integer literal in a sub-goal, F-C09e: a later sub-proof overwrites an earlier "
              "one) and only the runtime oracles (iv)/(iv-b) speak. That the candidate lists offer every rule assigning the wanted value is proved for the "
              "model's candidate computation (topCandidates_covers, subCandidates_covers; stated for the enabled rules the search model runs on - with disabled "
              "rules present the computed lists are supersets modulo renumbering, checked by the correspondence run only; rule names unique, goal field name "
              "without `==` / outer blanks, index built from the current rule set); that this computation is the code's is checked by the "
              "correspondence run (the driver runs exactly these functions). "
              "Soundness clause (i) is false for max_solutions > 1 (C09.query_sound_counterexample, known finding F-C09c). Trusted: Lean "
              "kernel + {propext, Classical.choice, Quot.sound}; hand-written model (search and candidate computation) tied by differential "
              "testing; harness/driver glue.")
DESIGN_REF = "§6 C09"
