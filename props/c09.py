ID = "C09"
THEOREMS = [
    "C09.search_facts_reachable",
    "C09.provable_goal_holds",
    "C09.query_sound_partial",
    "C09.query_sound_counterexample",
    "C09.query_eq_fast",
    "C09.dfs_complete_partial",
]
N = {"quick": 1500, "thorough": 20000}
EXHAUSTIVE = {"quick": False, "thorough": False}
RULE = ("cases = corpus (defect witnesses) + N generated problems (50% consistent-Horn KBs: one value per field, conjunctive "
        "equality conditions, shared sub-goals, dead-end literals, occasional Integer literals; 25% general KBs: And/Or trees, "
        "all six comparison operators, wrong-value conclusions, two-assignment rules, Integer/Number/String/Boolean literals; "
        "25% chain/diamond shapes with a wrong-value goal rule, a cycle and a dead end), <= 8 rules, <= 10 fields incl. dotted "
        "names, each under a random strategy (DFS/BFS/iterative), max_depth 0..6, max_solutions 1 or 3, a third of them a second "
        "time under another strategy. Each case runs BackwardEngine::query on a fresh engine (real code); observed: provable, "
        "get_all_facts after, undo depth after (hook), #solutions. Oracles evaluated by the Lean driver on the implementation's "
        "observations, none of them running the search model: (i) provable => goal comparison true in the facts handed back; "
        "(ii) facts handed back are in Reach, computed by explicit forward search; (iii) not provable => facts after == before, "
        "undo depth 0 always; (iv) DFS, consistent-Horn KB: goal derivable with sub-goal nesting <= max_depth (reference level "
        "computation) => provable. The search model's prediction is compared as well: the driver emits the SET of admissible "
        "observations over all orders of the top-level candidate list (HashSet order) and the check is membership. "
        "Non-trivial = provable with derived facts, or not provable although some rule can fire on the initial facts.")
TRUSTED = [
    "Lean 4.33 kernel; axioms of every property theorem within {propext, Classical.choice, Quot.sound} (audited each run)",
    "hand-written model RreModel/C09/Model.lean tied to src/backward/{search,backward_engine,rule_executor}.rs, "
    "engine/condition_evaluator.rs, types.rs by the correspondence check only (differential testing)",
    "candidate computation (ConclusionIndex lookup, substring heuristic) is re-implemented in Driver/C09.lean, not in the proved model: "
    "the soundness/restoration theorems hold for every candidate list",
    "harness/src/bin/c09.rs, Driver/C09.lean parsing/printing glue, check.py diff; hook Facts::verif_undo_depth",
]
ASSUMPTIONS = [
    "rule actions are Set field := literal; conditions are And/Or trees of `field op literal` (Field expressions); no Object values "
    "in the store (get_nested falls through to get); strings in the tie are non-numeric; Number literals are whole (no rounding)",
    "no RETE engine attached (query, not query_with_rete_engine with Some(engine)): no proof-graph cache, no TMS inserter",
    "the query goal has no sub_goals (BackwardEngine::query never creates any), so BFS works at depth 0 only",
    "forward closure = forward reachability Reach under the backward engine's own ConditionEvaluator (DESIGN §6 C09)",
]


def agree(case, impl, model):
    if model == "many-orders":
        return True
    return impl in [m.strip() for m in model.split("||")]


def classify(case, impl, model, oracle, kind):
    if kind == "oracle":
        return "oracle:" + ":".join(oracle.replace("fail ", "").split())
    return "diff:" + case.split()[0][0]

LEVEL_TEXT = ("Lean 4 theorems (kernel-checked, unbounded: every KB, store, goal, max_depth, candidate order and sub-goal candidate "
              "function) on an executable model of the backward search after fixes F-C09/F-C10a-c: search_facts_reachable (facts "
              "handed back are forward-reachable; DFS, BFS, iterative; every max_solutions), provable_goal_holds / query_sound_partial "
              "(provable => goal comparison true in the facts handed back; BFS, iterative, DFS with max_solutions = 1), "
              "query_sound_counterexample (max_solutions > 1 violates it: recorded finding), dfs_complete_partial (nesting-0 derivations, "
              "arbitrary KBs), query_eq_fast (the driver's search equals the model's). Tied to the code by differential testing with "
              "set-valued predictions, and by four model-free oracles (goal holds, explicit forward-reachability search, facts "
              "restored / no leaked frames, bounded completeness against a reference derivation-level computation) evaluated on "
              "the implementation's observations under every strategy.")
LEVEL_NOTE = ("Partial: bounded completeness is proved only for derivations of sub-goal nesting 0 (full statement kept as "
              "C09.dfs_complete_full; deeper derivations are checked by oracle (iv) on the implementation); soundness clause (i) is false "
              "for max_solutions > 1 (C09.query_sound_counterexample, known finding F-C09c); Integer literals in sub-goal conditions "
              "break completeness (known finding F-C09b). Trusted: Lean kernel + {propext, Classical.choice, Quot.sound}; hand-written "
              "model tied by differential testing; candidate computation re-implemented in the driver; harness/driver glue.")
DESIGN_REF = "§6 C09"
