ID = "C16"
THEOREMS = [
    "C16.alpha_filter_index_eq_linear",
    "C16.alpha_index_exact",
    "C16.alpha_linear_meaning",
    "C16.canonKey_law",
    "C16.alpha_filter_index_eq_linear_fixed",
    "C16.rawKey_not_keyLaw",
    "C16.alpha_rawKey_counterexample",
    "C16.beta_lookup_exact",
    "C16.beta_bucket_exact",
    "C16.beta_live_meaning",
    "C16.memo_eq_direct",
    "C16.factsPre_injective",
    "C16.memoKey_determines",
    "C16.memo_eq_direct_fixed",
    "C16.memo_oldKey_collision",
    "C16.memo_oldKey_counterexample",
    "C16.conclusion_index_complete",
    "C16.conclusion_index_trace_complete",
    "C16.from_rules_complete",
    "C16.engine_rebuild_complete",
    "C16.o4_laws",
    # part 2 (Theorems2.lean): the key text the code hashes / compares is modelled; its injectivity is proved
    "C16.debugKey_prefix_free",
    "C16.debugKey_eq_iff_sameText",
    "C16.debugKey_injective",
    "C16.debugKey_injective_nofloat",
    "C16.alphaKey_law",
    "C16.alpha_filter_index_eq_linear_dbg",
    "C16.alpha_stats_exact",
    "C16.beta_lookup_value_exact",
    "C16.beta_joinSame_eq",
    "C16.compact_eq_counting",
    "C16.compact_refs_exact",
    "C16.factKey_injective",
    "C16.sharing_eq_live",
    "C16.sharing_get_exact",
    "C16.nodeKey_injective",
    "C16.memo_eq_direct_dbg",
    "C16.memo_dbg_needs_wf",
    "C16.r4_laws",
    # part 3 (Theorems3.lean): the conclusion index over full rules (Attrs.lean: dates, salience, no_loop, groups …)
    "C16.conclusion_index_ignores_attributes",
    "C16.from_rules_ignores_attributes",
    "C16.conclusion_index_complete_any_window",
]
LEAN_TARGETS = ["RreModel.C16.Theorems", "RreModel.C16.Theorems2", "RreModel.C16.Theorems3"]
N = {"quick": 3000, "thorough": 40000}
EXHAUSTIVE = {"quick": False, "thorough": False}
RULE = ("cases = corpus (witnesses of F-C16a/F-C16b and corner cases) + a systematic part: every ordered pair (stored value, queried "
        "value) of a 55-value pool {ints, floats incl. 0.0/-0.0/two NaN payloads/inf, numeric-looking and escape-needing strings "
        "(quotes, backslashes, `, `, `\"), String(\"`, control characters, non-ASCII printable and escaped code points U+0301/U+200B/U+FEFF/U+E000, "
        "an astral character), bools, null, flat arrays and arrays nested up to 3 deep} under the index layouts create-before-insert / create-after-insert (+filter_tracked) "
        "and, for a third of the pairs (thorough: all), drop-and-recreate, a beta add/add/lookup/remove/lookup history and a memo "
        "evaluate/evaluate/evaluate stream + N random histories of 2..10 operations split 30% alpha (insert/create_index/drop_index/"
        "filter/filter_tracked x1 and x51/auto_tune/clear), 20% beta (add/remove/lookup by value and by raw text), 20% memo (1-3 nodes "
        "over ==/!=/And/Or/Not, fact sets whose as_str() text coincides but types differ, evaluate/clear), 20% conclusion index "
        "(add_rule/remove_rule/find_candidates/clear over 3 names, enabled and disabled, Set/MethodCall/Retract/SetWorkflowData/Log), "
        "10% BackwardEngine (kb add/remove/enable, rebuild_index, re-creation; index_stats) + a hot-join-key family (N/50, at least 20 "
        "histories: 33..140 adds under one or two keys in ascending / descending / shuffled index order, some indices twice, then removals "
        "in random order with a lookup after each, re-adds under the old index, second removals, removals under the other key, draining a "
        "key) + a nested-array memo family (a third of the memo histories, and systematically every ordered pair of four fixed groups: "
        "fact sets that differ only in the GROUPING of a nested array with the same leaves, [[1],2] / [[1,2]], [[],[]] / [[[]]], random "
        "regroupings of one pre-order token sequence, under nodes whose verdict depends on the grouping: UlMultiField count with every "
        "operator / empty / not_empty / first / last / collect, alpha contains, == / != / contains against another field). + a key-text family V (every string of a 54-string list that "
        "exercises each branch of <str as Debug> — fixed escapes, ' kept, controls, DEL, printable non-ASCII, grapheme extenders, format / "
        "private-use / unassigned / separator code points, astral characters, text that spells the renderer's own delimiters — alone and inside an "
        "array; two elements vs. one element spelling the separator or a closing+opening quote; N/6 random value lists nested 0..3 deep with near "
        "copies: wrapped, or the Debug text of a value as a string) and a CompactAlphaMemory family K (add/remove/contains over fact sets "
        "that print alike, one per pool pair + N/10 random) and a NodeSharingRegistry family N (register / unregister_rule / get: every history of length <= 3 over "
        "two look-alike patterns x two rules + N/15 random ones over 11 patterns that coincide when concatenated). + a rule-attribute family (conclusion index / BackwardEngine histories whose rules carry attributes the index must ignore: date_effective in the future / past / with a UTC offset, date_expires in the past / future, both, salience i32::MIN/MAX, no_loop, lock_on_active, agenda / activation groups, description — 24 attribute lists x enabled/disabled x 5 fixed histories + N/5 random histories; model and oracle see the rule without them: C16.conclusion_index_ignores_attributes). Every A/B/M/K/V observation carries the real format!(\"{:?}\", v) of every value of "
        "the case (kt=), V the real alpha index key read off the public Debug of a one-fact indexed memory (ik=), M the real Debug text of every "
        "node (nk=), A the IndexStats counters (st=); the model renders the same texts (C16.debugKey / alphaKey / nodeKeyText) and they are "
        "diffed; the oracle checks on the REAL texts that two values print alike iff they are the same value and that two values share an "
        "index key iff they are ==. Each case runs on the real components "
        "in-process and on the Lean model; observations are diffed; the Spec oracle compares the implementation's answers with the "
        "harness' own plain computation (== scan / live list / evaluate_typed / rule scan) and with the plain computation of the Lean "
        "Spec from the case alone. Non-trivial = the shortcut was really taken and mattered: a filter answered non-empty through an "
        "index, a non-empty lookup, a cache hit, a non-empty scan, a change of index_stats; distinct = distinct case text.")
TRUSTED = [
    "Lean 4.33 kernel; axioms of every property theorem within {propext, Classical.choice, Quot.sound} (audited each run)",
    "hand-written models RreModel/C16/Model.lean tied to src/rete/alpha_memory_index.rs, src/rete/optimization.rs (BetaMemoryIndex), "
    "src/rete/memoization.rs, src/backward/conclusion_index.rs, src/backward/backward_engine.rs by the correspondence check only (differential testing)",
    "harness/src/bin/c16.rs, Driver/C16.lean parsing/printing glue, check.py diff",
    "f64: FloatLaws (a NaN is == to nothing; on non-NaN values `if f == 0.0 {0.0} else {f}` identifies exactly the ==-equal bit patterns) — IEEE 754, not proved",
    "f64 Debug text: FmtLaws (no `)` in the text; two non-NaN floats with the same text are the same float; normalising keeps a non-NaN "
    "float non-NaN) — the text itself is not modelled (it travels with the case as Rust printed it); the contract is checked on the floats "
    "of every case (oracle clause float-contract). The rest of the Debug text of FactValue / ReteUlNode (variant names, str escaping, "
    "integers, separators, nesting) is MODELLED (Model2.lean) and its injectivity is PROVED (debugKey_prefix_free, nodeKey_injective)",
    "Unicode table behind <str as Debug> (is_printable / Grapheme_Extend): a parameter of the model (every theorem holds for every table); the "
    "driver's table is exact for ASCII and lists the printable non-ASCII code points the generator draws — compared with Rust on every case",
    "std DefaultHasher (SipHash-1-3) is treated as collision-free on the sequence of typed writes (the model key is that pre-image)",
    "HashMap/HashSet behave as finite maps/sets",
]
ASSUMPTIONS = [
    "TypedFacts is represented by its association list with fields in sorted order (the order compute_facts_hash sorts into)",
    "memo: the evaluation closure is a pure function of (node, facts) — ReteUlNode::evaluate_typed in the harness; the correspondence drives the ==/!=/contains alpha tests (literal or other field), the array-only UlMultiField operations (count/empty/not_empty/first/last/collect) and And/Or/Not, with simple field names",
    "conclusion index: goal patterns and field names are ASCII (byte and char offsets coincide); rule set semantics = latest add per name, remove deletes",
    "memo node key: the literal value a model node carries is what the literal parser yields for its text (Node.WF; shown necessary: memo_dbg_needs_wf)",
    "CompactAlphaMemory: identity of fact sets = same sorted fields, same values up to the text of floats (all NaN payloads are one value, 0.0 and -0.0 are two)",
]


def _comp(case):
    return {"A": "alpha", "B": "beta", "M": "memo", "C": "concl", "E": "engine", "K": "compact", "V": "values", "N": "registry"}.get(case[:1], "?")


def classify(case, impl, model, oracle, kind):
    comp = _comp(case)
    if kind == "oracle":
        sig = "oracle:" + oracle.replace("fail ", "").strip()
        if comp == "alpha" and "index-vs-linear" in oracle:
            if "_4e614e" in case:
                sig += ":nan"
            elif "f8000000000000000" in case:
                sig += ":negzero"
        return sig
    return "diff:" + comp


LEVEL_TEXT = ("Lean 4 theorems (kernel-checked, unbounded: every history, every value incl. nested arrays, floats abstract) that "
              "(1) AlphaMemoryIndex::filter answers exactly what an index-free == scan answers over all interleavings of insert/create_index/"
              "drop_index/filter_tracked/auto_tune/clear, for every key function agreeing with == — and the fixed canonical key is proved to "
              "agree with == from three IEEE facts; (2) BetaMemoryIndex::lookup k = the indices added under a join value rendering to k and "
              "not removed under it since; (3) MemoizedEvaluator::evaluate = direct evaluation for every evaluation function whenever the "
              "key determines (node, facts) — and the fixed type-tagged pre-image is proved injective; (4) ConclusionIndex::find_candidates "
              "contains every enabled current rule with a Set on the goal's field after any add/remove/re-add history. The unfixed keys are "
              "proved to violate (1) and (3) (counterexample theorems). Part 2: the key TEXT the code hashes/compares — format!(\"{:?}\") of FactValue "
              "(str escaping per char::escape_debug_ext over an arbitrary Unicode table, integers, `, `-separated arrays of any depth, floats through "
              "an abstract formatter) and of ReteUlNode — is modelled character by character and proved to be a prefix code (debugKey_prefix_free, "
              "nodeKey_injective), so (1), (2), (3) are re-derived for the keys the code computes (alpha_filter_index_eq_linear_dbg, "
              "beta_lookup_value_exact, memo_eq_direct_dbg) with the former injectivity assumption replaced by the float formatter contract FmtLaws; "
              "plus CompactAlphaMemory (compact_eq_counting), NodeSharingRegistry (sharing_eq_live) and the IndexStats counters (alpha_stats_exact). Tied to the Rust sources by a correspondence check (systematic value "
              "pairs + random histories; model vs implementation observations) and by evaluating the Spec predicates on the implementation's observations.")
LEVEL_NOTE = ("Trusted: Lean kernel + {propext, Classical.choice, Quot.sound}; hand-written models tied to the code by differential testing only; "
              "IEEE facts about f64 (FloatLaws); the f64 Debug formatter contract (FmtLaws: no `)`, injective on non-NaN floats) — the rest of the "
              "derived Debug text is modelled and its injectivity proved; SipHash collision-freeness; harness/driver glue.")
DESIGN_REF = "§6 C16"
