ID = "C07"
THEOREMS = [
    "C07.pop_is_max",
    "C07.pop_is_max_history",
    "C07.drain_sorted",
    "C07.no_loop_once_between_resets",
    "C07.no_loop_once_engine_history",
    "C07.no_loop_once_named_history",
    "C07.no_loop_once_action_history",
    "C07.activation_group_once",
    "C07.focus_falls_back",
    "C07.fire_all_bounded_incremental",
    "C07.fire_all_skips_terminate",
    "C07.fire_all_bounded_ul",
    "C07.fire_all_bounded_typed",
    "C07.typed_bound_attained",
    "C07.model_meets_spec",
    "C07.model_meets_weak_spec",
]
LEAN_TARGETS = ["RreModel.C07.Theorems", "RreModel.C07.ActTheorems"]
N = {"quick": 2500, "thorough": 30000}
EXHAUSTIVE = {"quick": False, "thorough": False}
EXEC_TIMEOUT = 900
RULE = ("cases = corpus (defect witnesses, hand-written corner cases) + N random cases: 7/8 are AdvancedAgenda histories of 1..22 "
        "calls (add_activation with salience ties and i32 extremes, agenda/activation/ruleflow groups, no-loop / lock-on-active / "
        "auto-focus flags, explicit created_at; get_next_activation with and without mark_rule_fired; arbitrary marks; set_focus; "
        "reset_fired_flags; clear; set_strategy), 1/8 are rule sets (1..4 rules `when C.x < limit then C.y += inc`, incl. always-true "
        "rules without no-loop and priorities up to the i32 extremes) run through IncrementalEngine::fire_all, "
        "TypedReteUlEngine::fire_all and ReteUlEngine::fire_all on a watchdog thread (action budget + 30 s deadline -> `hang`); 1/32 are "
        "ENGINE HISTORIES (`H`): one IncrementalEngine, 2..4 fire_all calls with inserts / updates / retracts and sometimes a reset in "
        "between, most rule sets with an always-true rule without no-loop below one or two no-loop rules, so that a call really stops at "
        "max_iterations = 1000 and the NEXT call (no reset) shows what survived: the clause `a no-loop rule fires at most once between "
        "resets` (C07.histOk) is evaluated over the whole history, every call must return at most 1000 names, under the same watchdog. "
        "On top of the N cases come N/16 NAMED RULE SETS (`M`): 1..3 rule NAMES of which the first is (usually) registered 2..3 times "
        "(the same rule added twice, variants with the same / a different salience, mostly all no-loop, sometimes mixed no-loop flags) "
        "on ONE TypedReteUlEngine / ReteUlEngine / IncrementalEngine driven through 2..4 fire_all calls with reset_fired_flags / reset, "
        "fact changes and (map engines) `<name>_fired` markers set from outside or by another rule's action during a cycle in between; "
        "the clause `a no-loop rule NAME (every registration of the name is no-loop) fires at most once between resets` (C07.mhistOk / "
        "C07.histOk with C07.nameNoLoop) is evaluated over the whole history on each engine. "
        "On top come N/16 MARKER-VALUE cases (`M U` / `M T`): the `<name>_fired` fact of a no-loop name holds a value drawn from a pool "
        "(absent, \"true\", \"false\", \"\", \"0\", \"1\", \"TRUE\", \"True\", \" true\", \"true \", \"yes\"; typed engine also Boolean(true/false), "
        "Integer(1/0), Null), set by the caller before the first fire_all, between calls, and by a rule's own / another rule's action "
        "during a cycle, with 2..4 fire_all calls mostly without reset in between; what each engine reads as fired is C07.markerFired "
        "(ReteUlEngine: exactly \"true\"; TypedReteUlEngine: FactValue::as_boolean() == Some(true)). "
        "On top come N/8 NAME cases (`A`): agenda histories whose rule names, agenda groups, activation groups and ruleflow groups "
        "are drawn from per-case pools mixing the ordinary names with 20 unusual but legal ones (\"\", blank-only names — space, two "
        "spaces, tab, NBSP, newline —, \"MAIN\" / \"main\" / \"MAIN \" / \" MAIN\" outside and next to the agenda group MAIN, 300-byte "
        "names differing in the last byte, composed / decomposed / CJK / full-width non-ASCII, names differing only in case or in a "
        "trailing blank: all DIFFERENT names), activation groups on half of the adds; N/32 of the `M` / marker cases above with their "
        "rule names mapped into the same table on all three engines; and N/16 ACTION cases (`K`): one IncrementalEngine, 1..3 named "
        "rules (mostly no-loop, distinct saliences) whose ACTIONS queue 0..2 retractions — ActionResult::Retract of the rule's own "
        "matched fact, of a fixed handle (another rule's fact, a handle already retracted by a higher-salience rule or by the same "
        "action, a handle that never existed) or RetractByType — driven through 2..4 fire_all calls with inserts / updates / retracts "
        "/ resets in between (at most 3 facts are inserted: the model predicts every iteration order of the type index and the "
        "implementation must match one of them); C07.histOk (no-loop once between resets, bound, handle sequence) is evaluated over "
        "the whole history. "
        "Each case is run on the real code and on the Lean model; observations (returned activation, focus, stats after every call; "
        "fired list and final counters; per-call results of a history) are diffed, and the Spec predicates C07.runOk / C07.runOkWeak / "
        "C07.fireAllOk / C07.histOk are evaluated on the "
        "implementation's observations. 1 in 6 agenda histories deliberately has equal (salience, created_at) pairs (flag T1): for those "
        "either order is accepted and only the tie-insensitive predicate runOkWeak is required. Non-trivial = at least two activations "
        "were returned (agenda) / at least one rule fired (engines); distinct = distinct case text."
        " On top come N/10 CALLER-QUEUED ACTIVATION cases (`G`): one IncrementalEngine (2..3 rules of distinct salience, never satisfiable or "
        "satisfied by the inserted facts) on whose OWN agenda the caller queues activations through engine.agenda_mut().add_activation — "
        "ungrouped and with an activation group (engine-made activations never carry one), no_loop flag 0/1, with / without a matched fact — "
        "between inserts, updates, retracts, resets and fire_all calls; oracle clause activation_group_twice (Driver groupBad: per reset "
        "period, the firings of the rules of one activation group that cannot come from ungrouped activations are at most one) and the model "
        "prediction (C07.Inc.addAct / fireAllM).")
TRUSTED = [
    "Lean 4.33 kernel; axioms of every property theorem within {propext, Classical.choice, Quot.sound} (audited each run)",
    "hand-written model RreModel/C07/Model.lean tied to src/rete/agenda.rs, src/rete/propagation.rs (fire_all loop), src/rete/network.rs "
    "(fire_rete_ul_rules_with_agenda, TypedReteUlEngine::fire_all) by the correspondence check only (differential testing)",
    "std::collections::BinaryHeap: pop returns a maximum w.r.t. Ord (modelled as extract-max on a list)",
    "harness/src/bin/c07.rs, Driver/C07.lean parsing/printing glue, check.py diff",
]
ASSUMPTIONS = [
    "rule / group names are modelled as natural-number identifiers; HashSet<String> as duplicate-free lists",
    "created_at is a tick count; with equal (salience, created_at) inside one agenda group BinaryHeap's order is unspecified: the model "
    "breaks the tie by the internal id, the order clauses of the Spec mention only (salience, created_at), and such histories are "
    "checked with the tie-insensitive predicate (partial: order under equal Instants is not predicted)",
    "named rule sets (`M`): a rule NAME counts as no-loop when every registration of that name is no-loop (with mixed flags the "
    "observations cannot tell the registrations apart); IncrementalEngine resolves a name to its FIRST registration when firing "
    "(that registration's condition re-validates the activation) — mirrored by the model (C07.incStaleN), not judged",
    "map engines (`M U` / `M T`): the no-loop memory of a name IS its `<name>_fired` fact; overwriting that fact (set_fact by the caller, "
    "or a rule's action) with a value the engine does not read as fired forgets the memory of that one name and is treated by the "
    "oracle like a reset_fired_flags restricted to that name (C07.mhistOk marker clause, C07.clearedBy; conservative per NAME: any "
    "registration of the firing name that carries such a write counts); the engine's own write after an action always wins",
    "`K` cases (actions that retract facts on IncrementalEngine): WorkingMemory::get_by_type iterates a HashSet<FactHandle>, so the order "
    "in which one rule's activations for several facts are created (and which fact RetractByType removes) is unspecified; with at most "
    "three inserted facts the order is one permutation per run (hashbrown never rehashes a 4-bucket table that has seen <= 3 inserts); "
    "the model (C07.IncA, field perm) is run for every permutation and the implementation must agree with one of them; the no-loop "
    "clause itself is judged on the observations alone (C07.histOk)",
    "names: the `odd_name` table of the harness is injective, so the model's natural-number identifiers stay a faithful image of the "
    "strings (HashSet<String> / HashMap<String, _> membership = exact string equality is the behaviour the model mirrors)",
    "IncrementalEngine engine cases other than `K` use pairwise distinct priorities and no-op actions (creation order of activations of different "
    "rules comes from HashSet iteration); conflict-resolution strategies other than the Ord on Activation have no effect in the code "
    "(set_strategy re-sorts a temporary vector and rebuilds the same heaps) and are modelled as the identity",
]


def agree(case, impl, model):
    if impl == model:
        return True
    # `K` cases: the model prints one prediction per iteration order of the type index (HashSet<FactHandle>), joined by ` || `
    if case.startswith("K ") and impl in model.split(" || "):
        return True
    # equal (salience, created_at) inside a group: either order is admissible; the oracle line already passed runOkWeak
    return impl.startswith("T1 ") and model.startswith("T1 ")


def classify(case, impl, model, oracle, kind):
    if kind == "oracle":
        return "oracle:" + oracle.replace("fail ", "").split("@")[0]
    return "diff:" + case.split()[0] + (":" + case.split()[1] if case.startswith(("E ", "M ")) else "")


LEVEL_TEXT = ("Lean 4 theorems (kernel-checked, unbounded: every agenda state / every history, every rule set and loop body) about an "
              "executable model of AdvancedAgenda and of the three fire_all loops: pop_is_max, drain_sorted, no_loop_once_between_resets, "
              "no_loop_once_engine_history (the same clause over any history of insert / update / retract / fire_all / reset calls on one IncrementalEngine, calls that stop at the bound included), "
              "no_loop_once_named_history (the same clause per rule NAME over any history of fire_all / reset_fired_flags / set_fact calls — `<name>_fired` facts set to any value by the caller or by actions included — on one TypedReteUlEngine or ReteUlEngine with any number of registrations per name), "
              "no_loop_once_action_history (the same clause over any history on one IncrementalEngine whose rules' actions queue any retractions — own fact, any handle incl. already retracted / never existing ones whose failing retraction is ignored, first fact of the type — for every iteration order of the type index), "
              "activation_group_once, focus_falls_back, fire_all_bounded for IncrementalEngine (at most 1000 executed activations; skipped ones are not counted after fix-C06b and terminate by agenda size: fire_all_skips_terminate), ReteUlEngine (100 passes, model after fix-C07c: the `<name>_fired` fact is honoured for no-loop rules) and "
              "TypedReteUlEngine (100 passes, after fix-C07), and model_meets_spec for the observation-level predicates; tied to the Rust "
              "code by a correspondence check (model vs implementation after every call) and by evaluating the same Spec predicates on "
              "the implementation's observations.")
LEVEL_NOTE = ("Trusted: Lean kernel + {propext, Classical.choice, Quot.sound}; hand-written model tied to the code by differential testing "
              "only; BinaryHeap contract; order under equal Instants not predicted (either order accepted).")
DESIGN_REF = "§6 C07"
