ID = "C20"
THEOREMS = [
    "C20.restore_reproduces",
    "C20.ids_distinct",
    "C20.crash_preserves_earlier",
    "C20.interrupted_all_or_error",
    "C20.failed_restore_no_change",
    "C20.truncated_restore_rejected",
    "C20.retained_while_recent",
    "C20.codec_contract_satisfiable",
    "C20.ids_distinct_legacy_counterexample",
    "C20.restore_reproduces_legacy_counterexample",
    "C20.crash_preserves_earlier_legacy_counterexample",
    "C20.checkpointSteps_refine",
    "C20.crashAt_eq_crashFs",
    "C20.crash_at_any_point_preserves_earlier",
    "C20.crash_at_any_point_all_or_error",
    "C20.numbered_point_complete_from_write",
    "C20.restore_crash_no_fs_change",
    "C20.restore_after_crash_then_continue",
    "C20.restore_after_crash_then_continue_later_ms",
    "C20.reopen_on_any_directory",
    "C20.freeSeq_free",
    "C20.reopen_same_ms_aliases_counterexample",
    "C20.reopen_preserves_files_fixed",
    "C20.reopen_same_ms_reuses_retired_id_counterexample",
    "C20.restore_reproduces_needs_encodable_counterexample",
    "C20.numbered_point_needs_encodable_counterexample",
    "C20.split_write_expand",
    "C20.checkpointStepsK_refine",
    "C20.crashAtK_eq_crashFs",
    "C20.crash_inside_write_all_or_error",
    "C20.crash_inside_write_preserves_earlier",
    "C20.killed_inside_write_file",
    "C20.killed_inside_write_exact",
    "C20.split_write_transparent",
]
LEAN_TARGETS = ["RreModel.C20.Theorems", "RreModel.C20.Theorems2", "RreModel.C20.Theorems3"]
N = {"quick": 6000, "thorough": 60000}
EXHAUSTIVE = {"quick": False, "thorough": False}
RULE = ("cases = corpus + every sequence of length <=3 (thorough: <=4) over the alphabet {put, put_with_ttl, update, delete, "
        "checkpoint, restore #0, restore #1, clock-advance} on the file backend with max_checkpoints=2, each closed by a "
        "checkpoint under crash analysis + N random histories of length <=10 over 3 keys / 10 values (put, put_with_ttl, update, "
        "delete, clear, cleanup_expired, checkpoint, restore of a returned or of an unknown id, clock-advance by 0/1/2/5/11 ms; "
        "file backend 90% / memory 10%; max_checkpoints in {0,1,2,3,10}; default TTL off or 0/1/3/10 ms), one third closed by a "
        "crash analysis; a quarter of the file-backend histories are driven through the twin StatefulOperator (kind O: its own "
        "checkpoint / restore, every other call through state_mut() / state(), a third of the puts as process() events) + every "
        "sequence of length <=3 over {put, process-put, delete, checkpoint, restore #0, restore #1} on a StatefulOperator + an "
        "operator family (checkpoint, then edits the operator does not see - state_mut, clock expiry, restore of an older id - or "
        "process(), then restore of the latest / an older id) + an interrupted-checkpoint family (history filled to max_checkpoints "
        "-1 / exactly / +1, then op Z = a checkpoint that fails with a REAL I/O error - the path of its state.json is occupied by a "
        "directory so File::create fails -, then every earlier checkpoint restored, then a further checkpoint or a crash analysis; "
        "Z also replaces one random checkpoint in ten): after Z list_checkpoints and every earlier checkpoint's file must be what "
        "they were (this observes the real code's own step order, which the reconstructed crash states cannot) "
        "+ a REAL-KILL family (kind Q; 36 histories, thorough 240, each with 0..max_checkpoints+1 checkpoints on disk so that the "
        "fatal call runs with and without a retention victim): the history runs in a CHILD process (`c20 crash-child`) that "
        "std::process::abort()s at the armed cfg(rre_verif) crash point - EVERY numbered point 0..9 of the real checkpoint "
        "(begin, mkdir, serialise, create, write, push, [drop, rmtree,] stamp; past the last one the child returns and exits) or "
        "0..7 of the real restore -; the parent lists the directory the dead child left, lets a new store holding sentinel entries "
        "restore every id the child had reported plus the id under way, then opens another new store on that directory >= 1 ms "
        "later and puts / checkpoints / restores ids of both lives. The model predicts, from Model.checkpointSteps / restoreSteps "
        "(the list the theorems quantify over), whether the child dies, the label of the fatal point, the directory, every restore "
        "outcome and the whole second life; Spec.killOk / runOk2 judge the implementation's observations. "
        "+ a SAME-MILLISECOND RESTART family (kind Q, fix-C20b; 12 histories x 7 kills, thorough 60): the first life takes 0..2 "
        "checkpoints and dies in / exits after the next one at a point where its state.json exists (create, inside the write, "
        "write, push, stamp, past the end), the clock is NOT advanced, and the new store on that directory - whose checkpoint_seq "
        "restarts at 0 - takes one or two checkpoints and restores every id of both lives: its ids must be new "
        "(`ids_distinct_across_restart`), every earlier file unchanged (`earlier_life_checkpoint_changed`), every restore its own "
        "state; the model predicts the skipped-to ids from Model.freeSeq. "
        "+ a SPREAD-RESTART family (kind Q, seeded C20-14; constructive, 686 cases, thorough 1400): the first life takes 2..4 "
        "checkpoints spread over 2..4 milliseconds in every advance pattern (so its last millisecond M holds suffixes >= 1 and, in "
        "most patterns, no `_000000`) and ends by a clean exit (`Y99`), a kill after the write (`Y5`) or an exit after a restore "
        "(`V<i>.99`); the new store starts in the SAME millisecond M or 1 ms later and takes 1..4 checkpoints, without an advance or "
        "with one advance before its j-th checkpoint - only its first id finds `M_000000` free, the later ones (own sequence > 0) run "
        "into the first life's files - and then EVERY id of both lives is restored (same clauses as above). "
        "+ a SPLIT-WRITE family (kind Q, op W<p>.<sel>.<a>; 14 fixed + 5 random histories, thorough 40 random: empty store, one "
        "key, earlier checkpoints with and without a retention victim, max_checkpoints 0, multi-byte / escaped / 2.8 kB strings, "
        "f64::MAX / i64::MIN / subnormal numbers, objects, a 70-level nest, a value that does not read back): the hook "
        "`verif_crash::arm_split` makes the real checkpoint carry out its one `write_all(json)` as write_all(&json[..k]) - crash "
        "point `partial` - write_all(&json[k..]) and the child is killed there, so the truncated state.json the parent restores "
        "from is PRODUCED BY A REAL KILL inside the write. k is chosen from the real bytes by a selector: EVERY offset 0..len of "
        "files <= 64 bytes; for larger files 33 evenly spread offsets incl. 0 and len, offsets 1 and len-1, three offsets inside "
        "a multi-byte character, three inside a number, two behind a backslash; per history also the points before / after the "
        "split (3, 5, 6) and past the end (the split write must leave the same complete file); the fatal checkpoint of every "
        "history of the REAL-KILL family above is killed inside its write at the same spread of offsets of ITS file too. The chooser saves the text the "
        "child was writing beside the directory; the parent checks that the file the dead child left is byte for byte its first "
        "k bytes (`partial_write_not_a_prefix`), REBUILDS the same truncation point the way the crash analysis K does (fs::write "
        "of those k bytes into a scratch copy) and requires the same restore outcome from both "
        "(`reconstruction_disagrees_with_real_kill`: the check that the reconstructed family speaks about states a crash really "
        "produces); the outcome itself must be the complete state or an error with the sentinel store untouched "
        "(`interrupted_partial_state`, `failed_restore_changed_store`), and the model predicts it from Model.checkpointStepsK / "
        "crashAtK (strict prefix: parse error, Codec.Lawful.prefix_fails; all bytes: the complete state). "
        "VALUES: the value table has 27 entries - 0..9 ordinary; 10..19 edge values JSON still carries exactly (-0.0, f64::MAX, "
        "5e-324, i64::MIN, a 2.8 kB string with 2- and 4-byte characters, a string of control characters / U+2028 / U+FEFF / literal "
        "`\\ud800`, Value::Expression, an object with the keys \"\", `a.b`, `a/b\\0`, `Number` and a 9-level nested member, and two "
        "floats - 0.9999999999999999 = 0.1 added ten times, 434.29198722896365 - that serde_json reads back exactly only with its "
        "float_roundtrip feature, fix F-C20c); 20..26 values whose JSON text does NOT read back (NaN, +inf, -inf, an array / an "
        "object / a 3-level nest holding one, a value nested 70 levels = beyond the parser's recursion limit; Model.lossyVal). "
        "One draw in five of every random family comes from 10..26 (the long ones not where a crash analysis follows) + every "
        "sequence of length <=3 over {put NaN, put [1,-inf] under another key, update to +inf, delete, put ordinary, checkpoint, "
        "restore #0, restore #1} after an ordinary put, closed by a crash analysis + a value sweep (every table entry stored by "
        "put / put_with_ttl / update / process() next to two ordinary keys, checkpointed, the store edited, the checkpoint restored, "
        "a second checkpoint restored; two exotic values in one checkpoint; real kill at points 3, 4, 5 and past the end with the "
        "value in the snapshot). A checkpoint that captured a value that does not read back must restore as an ERROR with the live "
        "state untouched (Codec.Lawful.lossy_fails; restore_reproduces' second branch) - an Ok with the other keys only is "
        "`restore_reproduces` / `interrupted_partial_state`. "
        "Every case runs on the real StateStore in a private directory with the injected clock (several "
        "checkpoints share one millisecond unless the clock is advanced) and on the Lean model; after every call get/keys/len, "
        "list_checkpoints and the parsed files under the backend path are diffed, and Spec.runOk is evaluated on the "
        "implementation's observations. Crash analysis = the directory states of the interrupted checkpoint in the code's step "
        "order (nothing; directory only; state.json truncated at EVERY byte offset 0..len; retention victim without file; "
        "victim removed), each restored by a fresh store holding sentinel entries and each compared byte-for-byte with the "
        "earlier checkpoints. Non-trivial = a restore that changed the visible state, or a crash analysis, or two checkpoints "
        "within one millisecond; distinct = distinct case text.")
TRUSTED = [
    "Lean 4.33 kernel; axioms of every property theorem within {propext, Classical.choice, Quot.sound} (audited each run)",
    "hand-written model RreModel/C20/Model.lean tied to src/streaming/state.rs by the correspondence check only (differential testing)",
    "serde_json contract Codec.Lawful (parse(serialize m) = m when every value of m is `enc`odable; parse(serialize m) fails as a whole "
    "when some value is not - NaN, +-inf, nesting beyond the recursion limit -; a strict prefix of serialize m does not parse) is an "
    "ASSUMPTION of the theorems; it is exercised on the real serde_json at every truncation point of every crash analysis and on every "
    "entry of the value table, and shown satisfiable in Lean (natCodec)",
    "file-system steps (create_dir_all, File::create, each write of a prefix, unlink, rmdir) are atomic and succeed; a crash leaves a prefix "
    "of the code's step sequence (no reordering by the OS, no torn directory entries, the page cache survives: the PROCESS is killed, not "
    "the machine). The numbered crash points (one before the first and one after every effect of checkpoint / restore) are produced by "
    "really killing a child process at the cfg(rre_verif) hook `verif_crash` and compared with Model.checkpointSteps; a state INSIDE "
    "write_all is produced by a real kill too, for one split offset per child (hook `arm_split`: two write_all calls around a crash point; "
    "the guard-on unarmed path and the guard-off build make the single write_all of the code) - what remains assumed there is that "
    "write_all(&b[..k]); write_all(&b[k..]) passes through the same file contents as write_all(b) (Theorems3.split_write_expand in the "
    "model; std's write_all is a loop of write calls). The crash analysis K (EVERY byte offset of every analysed file) still rebuilds its "
    "states; the split-write family checks on 1 500 - 2 000 real kills per run that a rebuilt truncation point and the really produced one are the "
    "same bytes and restore alike. The retention clean-up is ONE fs::remove_dir_all call: the state 'state.json unlinked, directory still "
    "there' exists only inside that std call (no place for a crash point; points `drop` before / `rmtree` after only) and stays rebuilt",
    "harness/src/bin/c20.rs, Driver/C20.lean parsing/printing glue, check.py diff; the cfg(rre_verif) clock override in streaming/state.rs",
    "Spec.lean (runtime oracle) is the observation-level transcription of the theorems; it is additionally evaluated on the model's own "
    "observations every run (extra check), not proved equivalent",
]
ASSUMPTIONS = [
    "timestamps are u64 milliseconds modelled as Nat (no overflow of created_at + ttl)",
    "the backend directory is private to one StateStore (no other writer) and starts empty",
    "HashMap<String, StateEntry> = association list with distinct keys (invariant proved); value identity = index into a fixed table of Values "
    "(numbers compared by bit pattern)",
    "restore_reproduces / numbered_point_complete_from_write / restore_after_crash_then_continue carry the hypothesis `encodable` (every "
    "captured value's JSON text reads back); without it the checkpoint - which `checkpoint` takes without complaint - restores as an "
    "error and nothing changes (restore_reproduces second branch, ..._needs_encodable_counterexample): the property's first sentence "
    "is NOT met for a store holding NaN / +-inf / a value nested > 63 levels, its last sentence (complete state or error) is",
    "restore after a crash is performed by any store that sees the directory (the theorem quantifies over the restoring store)",
    "a store reopened on a directory another store left (after fix-C20b: checkpoint() advances its sequence number past every id whose "
    "state.json exists): restore_after_crash_then_continue / reopen_on_any_directory hold for ANY clock reading and ANY directory content, "
    "for the checkpoint FILES - no file is overwritten, no id names an existing file (before the fix: reopen_same_ms_aliases_counterexample). "
    "Residual (open, F-C20b): the directory does not remember ids whose file is gone - an id retired by retention, or the empty directory "
    "of a checkpoint that died before File::create - so within the same millisecond such an id can be handed out again "
    "(reopen_same_ms_reuses_retired_id_counterexample; nothing on disk is damaged); restore_after_crash_then_continue_later_ms (clock "
    "moved to a later millisecond) still excludes that too",
]


def classify(case, impl, model, oracle, kind):
    if kind == "oracle":
        # F-C20b (fixed by fix-C20b): `ids_distinct_across_restart` = a store reopened in the millisecond of an earlier life's checkpoint
        # reuses the id of a checkpoint that is still on disk; residual (open): `vanished_id_reused_across_restart` = it reuses an id whose
        # file is gone (retired by retention / died before File::create) - kind Q without a clock advance, not generated
        return "oracle:" + oracle.split("@")[0].replace("fail ", "")
    return "diff"


def extra(ctx):
    """cross-check: the Spec oracle accepts the model's own observations on every case of this run"""
    cases = ctx.gen_cases()
    model = ctx.run_model(cases)
    verdicts = ctx.run_oracle(cases, model)
    bad = [(c, m, v) for c, m, v in zip(cases, model, verdicts) if not v.startswith("ok")]
    fails = []
    if bad:
        c, m, v = min(bad, key=lambda t: len(t[0]))
        fails.append(("spec-rejects-model", {"case": c, "impl": "(model observations)", "model": m, "oracle": v, "kind": "diff"}, len(bad)))
    return fails, {"oracle_on_model_observations": {"cases": len(cases), "rejected": len(bad)}}


LEVEL_TEXT = ("Lean 4 theorems (kernel-checked, unbounded: every codec meeting the serde_json contract, every retention bound / TTL "
              "configuration, every finite history of put/put_with_ttl/update/delete/clear/cleanup/checkpoint/restore/clock-advance) about "
              "the executable model of StateStore: restore of a still-listed checkpoint yields exactly the unexpired key/values of the "
              "moment it was taken whatever happened since (restore_reproduces), checkpoint ids are pairwise distinct even within one "
              "millisecond (ids_distinct), every prefix of a checkpoint's file-system step sequence leaves every earlier checkpoint "
              "byte-identical (crash_preserves_earlier), restoring the interrupted id yields the complete state or an error and no change "
              "(interrupted_all_or_error, failed_restore_no_change); tied to src/streaming/state.rs by a correspondence check (exhaustive "
              "short + random histories on the real file backend, observations after every call) and by evaluating Spec.runOk on the "
              "implementation's observations, including every truncation point of state.json. Part 2: the crash theorems restated over "
              "the NUMBERED crash points of the real procedure (Model.checkpointSteps, proved to be the coarsening of the byte-granular "
              "list: checkpointSteps_refine, crashAt_eq_crashFs; crash_at_any_point_preserves_earlier / _all_or_error for every history "
              "and every point index), restore never writes (restore_crash_no_fs_change), and a store reopened on the directory a dead "
              "process left keeps restore_reproduces / ids_distinct and never touches a surviving directory "
              "(restore_after_crash_then_continue / reopen_on_any_directory: after fix-C20b for ANY clock reading and ANY directory, about "
              "the checkpoint files - Model.freeSeq, freeSeq_free; the pre-fix statement with the later-millisecond hypothesis is kept as "
              "restore_after_crash_then_continue_later_ms); these points are tied to the "
              "code by really killing a child process at each of them. Part 3: the crash point INSIDE write_all (hook arm_split, "
              "Model.checkpointStepsK / crashAtK): for every split offset k and every point p the extended list expands to the same "
              "byte-granular sequence (split_write_expand, checkpointStepsK_refine, crashAtK_eq_crashFs), so crash_inside_write_all_or_error "
              "and crash_inside_write_preserves_earlier hold for every history; killed_inside_write_file / _exact say what is on disk at "
              "the interior point (exactly the first k bytes) and what a restore of it yields (k < len: parse error and no change; "
              "k >= len: the complete state); split_write_transparent: the split changes nothing at the other points. Tied to the code by "
              "killing a child inside the real write at a spread of offsets of every history's file.")
LEVEL_NOTE = ("Partial by design (DESIGN §8): file-system steps assumed atomic and the serde_json prefix contract assumed (both exercised, "
              "not proved); the numbered crash points between the effects and one point inside write_all per child (any byte offset) are produced by "
              "killing a real child process; the every-offset crash analysis K and the state inside remove_dir_all (one std call, no hook "
              "point possible) are reconstructed in the model's step order, and the reconstruction is compared with the real partial writes; "
              "a machine crash (lost page cache) is out of scope. "
              "Model follows the code after fix-C20 (sequence suffix); the pre-fix id scheme is refuted in Lean by three counterexamples.")
DESIGN_REF = "§6 C20"
