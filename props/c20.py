ID = "C20"
THEOREMS = [
    "C20.restore_reproduces",
    "C20.ids_distinct",
    "C20.crash_preserves_earlier",
    "C20.interrupted_all_or_error",
    "C20.failed_restore_no_change",
    "C20.truncated_restore_rejected",
    "C20.retained_while_recent",
    "C20.codec_contract_satisfiable",
    "C20.ids_distinct_legacy_counterexample",
    "C20.restore_reproduces_legacy_counterexample",
    "C20.crash_preserves_earlier_legacy_counterexample",
    "C20.checkpointSteps_refine",
    "C20.crashAt_eq_crashFs",
    "C20.crash_at_any_point_preserves_earlier",
    "C20.crash_at_any_point_all_or_error",
    "C20.numbered_point_complete_from_write",
    "C20.restore_crash_no_fs_change",
    "C20.restore_after_crash_then_continue",
    "C20.reopen_same_ms_aliases_counterexample",
    "C20.restore_reproduces_needs_encodable_counterexample",
    "C20.numbered_point_needs_encodable_counterexample",
]
LEAN_TARGETS = ["RreModel.C20.Theorems", "RreModel.C20.Theorems2"]
N = {"quick": 6000, "thorough": 60000}
EXHAUSTIVE = {"quick": False, "thorough": False}
RULE = ("cases = corpus + every sequence of length <=3 (thorough: <=4) over the alphabet {put, put_with_ttl, update, delete, "
        "checkpoint, restore #0, restore #1, clock-advance} on the file backend with max_checkpoints=2, each closed by a "
        "checkpoint under crash analysis + N random histories of length <=10 over 3 keys / 10 values (put, put_with_ttl, update, "
        "delete, clear, cleanup_expired, checkpoint, restore of a returned or of an unknown id, clock-advance by 0/1/2/5/11 ms; "
        "file backend 90% / memory 10%; max_checkpoints in {0,1,2,3,10}; default TTL off or 0/1/3/10 ms), one third closed by a "
        "crash analysis; a quarter of the file-backend histories are driven through the twin StatefulOperator (kind O: its own "
        "checkpoint / restore, every other call through state_mut() / state(), a third of the puts as process() events) + every "
        "sequence of length <=3 over {put, process-put, delete, checkpoint, restore #0, restore #1} on a StatefulOperator + an "
        "operator family (checkpoint, then edits the operator does not see - state_mut, clock expiry, restore of an older id - or "
        "process(), then restore of the latest / an older id) + an interrupted-checkpoint family (history filled to max_checkpoints "
        "-1 / exactly / +1, then op Z = a checkpoint that fails with a REAL I/O error - the path of its state.json is occupied by a "
        "directory so File::create fails -, then every earlier checkpoint restored, then a further checkpoint or a crash analysis; "
        "Z also replaces one random checkpoint in ten): after Z list_checkpoints and every earlier checkpoint's file must be what "
        "they were (this observes the real code's own step order, which the reconstructed crash states cannot) "
        "+ a REAL-KILL family (kind Q; 36 histories, thorough 240, each with 0..max_checkpoints+1 checkpoints on disk so that the "
        "fatal call runs with and without a retention victim): the history runs in a CHILD process (`c20 crash-child`) that "
        "std::process::abort()s at the armed cfg(rre_verif) crash point - EVERY numbered point 0..9 of the real checkpoint "
        "(begin, mkdir, serialise, create, write, push, [drop, rmtree,] stamp; past the last one the child returns and exits) or "
        "0..7 of the real restore -; the parent lists the directory the dead child left, lets a new store holding sentinel entries "
        "restore every id the child had reported plus the id under way, then opens another new store on that directory >= 1 ms "
        "later and puts / checkpoints / restores ids of both lives. The model predicts, from Model.checkpointSteps / restoreSteps "
        "(the list the theorems quantify over), whether the child dies, the label of the fatal point, the directory, every restore "
        "outcome and the whole second life; Spec.killOk / runOk2 judge the implementation's observations. "
        "VALUES: the value table has 27 entries - 0..9 ordinary; 10..19 edge values JSON still carries exactly (-0.0, f64::MAX, "
        "5e-324, i64::MIN, a 2.8 kB string with 2- and 4-byte characters, a string of control characters / U+2028 / U+FEFF / literal "
        "`\\ud800`, Value::Expression, an object with the keys \"\", `a.b`, `a/b\\0`, `Number` and a 9-level nested member, and two "
        "floats - 0.9999999999999999 = 0.1 added ten times, 434.29198722896365 - that serde_json reads back exactly only with its "
        "float_roundtrip feature, fix F-C20c); 20..26 values whose JSON text does NOT read back (NaN, +inf, -inf, an array / an "
        "object / a 3-level nest holding one, a value nested 70 levels = beyond the parser's recursion limit; Model.lossyVal). "
        "One draw in five of every random family comes from 10..26 (the long ones not where a crash analysis follows) + every "
        "sequence of length <=3 over {put NaN, put [1,-inf] under another key, update to +inf, delete, put ordinary, checkpoint, "
        "restore #0, restore #1} after an ordinary put, closed by a crash analysis + a value sweep (every table entry stored by "
        "put / put_with_ttl / update / process() next to two ordinary keys, checkpointed, the store edited, the checkpoint restored, "
        "a second checkpoint restored; two exotic values in one checkpoint; real kill at points 3, 4, 5 and past the end with the "
        "value in the snapshot). A checkpoint that captured a value that does not read back must restore as an ERROR with the live "
        "state untouched (Codec.Lawful.lossy_fails; restore_reproduces' second branch) - an Ok with the other keys only is "
        "`restore_reproduces` / `interrupted_partial_state`. "
        "Every case runs on the real StateStore in a private directory with the injected clock (several "
        "checkpoints share one millisecond unless the clock is advanced) and on the Lean model; after every call get/keys/len, "
        "list_checkpoints and the parsed files under the backend path are diffed, and Spec.runOk is evaluated on the "
        "implementation's observations. Crash analysis = the directory states of the interrupted checkpoint in the code's step "
        "order (nothing; directory only; state.json truncated at EVERY byte offset 0..len; retention victim without file; "
        "victim removed), each restored by a fresh store holding sentinel entries and each compared byte-for-byte with the "
        "earlier checkpoints. Non-trivial = a restore that changed the visible state, or a crash analysis, or two checkpoints "
        "within one millisecond; distinct = distinct case text.")
TRUSTED = [
    "Lean 4.33 kernel; axioms of every property theorem within {propext, Classical.choice, Quot.sound} (audited each run)",
    "hand-written model RreModel/C20/Model.lean tied to src/streaming/state.rs by the correspondence check only (differential testing)",
    "serde_json contract Codec.Lawful (parse(serialize m) = m when every value of m is `enc`odable; parse(serialize m) fails as a whole "
    "when some value is not - NaN, +-inf, nesting beyond the recursion limit -; a strict prefix of serialize m does not parse) is an "
    "ASSUMPTION of the theorems; it is exercised on the real serde_json at every truncation point of every crash analysis and on every "
    "entry of the value table, and shown satisfiable in Lean (natCodec)",
    "file-system steps (create_dir_all, File::create, each write of a prefix, unlink, rmdir) are atomic and succeed; a crash leaves a prefix "
    "of the code's step sequence (no reordering by the OS, no torn directory entries, the page cache survives: the PROCESS is killed, not "
    "the machine). The numbered crash points (one before the first and one after every effect of checkpoint / restore) are produced by "
    "really killing a child process at the cfg(rre_verif) hook `verif_crash` and compared with Model.checkpointSteps; the states INSIDE "
    "write_all (every byte offset) and inside remove_dir_all are rebuilt by the harness in the model's step order, not produced by a kill",
    "harness/src/bin/c20.rs, Driver/C20.lean parsing/printing glue, check.py diff; the cfg(rre_verif) clock override in streaming/state.rs",
    "Spec.lean (runtime oracle) is the observation-level transcription of the theorems; it is additionally evaluated on the model's own "
    "observations every run (extra check), not proved equivalent",
]
ASSUMPTIONS = [
    "timestamps are u64 milliseconds modelled as Nat (no overflow of created_at + ttl)",
    "the backend directory is private to one StateStore (no other writer) and starts empty",
    "HashMap<String, StateEntry> = association list with distinct keys (invariant proved); value identity = index into a fixed table of Values "
    "(numbers compared by bit pattern)",
    "restore_reproduces / numbered_point_complete_from_write / restore_after_crash_then_continue carry the hypothesis `encodable` (every "
    "captured value's JSON text reads back); without it the checkpoint - which `checkpoint` takes without complaint - restores as an "
    "error and nothing changes (restore_reproduces second branch, ..._needs_encodable_counterexample): the property's first sentence "
    "is NOT met for a store holding NaN / +-inf / a value nested > 63 levels, its last sentence (complete state or error) is",
    "restore after a crash is performed by any store that sees the directory (the theorem quantifies over the restoring store)",
    "a store reopened on a directory another store left: restore_after_crash_then_continue assumes the clock reads a LATER millisecond than "
    "every surviving directory's (checkpoint_seq restarts at 0 and the directory is not consulted: reopened within the same millisecond "
    "the new store reuses - and overwrites - the earlier life's ids, finding F-C20b, reopen_same_ms_aliases_counterexample)",
]


def classify(case, impl, model, oracle, kind):
    if kind == "oracle":
        # F-C20b: a store reopened in the millisecond of an earlier life's checkpoint reuses its id (kind Q without a clock advance)
        return "oracle:" + oracle.split("@")[0].replace("fail ", "")
    return "diff"


def extra(ctx):
    """cross-check: the Spec oracle accepts the model's own observations on every case of this run"""
    cases = ctx.gen_cases()
    model = ctx.run_model(cases)
    verdicts = ctx.run_oracle(cases, model)
    bad = [(c, m, v) for c, m, v in zip(cases, model, verdicts) if not v.startswith("ok")]
    fails = []
    if bad:
        c, m, v = min(bad, key=lambda t: len(t[0]))
        fails.append(("spec-rejects-model", {"case": c, "impl": "(model observations)", "model": m, "oracle": v, "kind": "diff"}, len(bad)))
    return fails, {"oracle_on_model_observations": {"cases": len(cases), "rejected": len(bad)}}


LEVEL_TEXT = ("Lean 4 theorems (kernel-checked, unbounded: every codec meeting the serde_json contract, every retention bound / TTL "
              "configuration, every finite history of put/put_with_ttl/update/delete/clear/cleanup/checkpoint/restore/clock-advance) about "
              "the executable model of StateStore: restore of a still-listed checkpoint yields exactly the unexpired key/values of the "
              "moment it was taken whatever happened since (restore_reproduces), checkpoint ids are pairwise distinct even within one "
              "millisecond (ids_distinct), every prefix of a checkpoint's file-system step sequence leaves every earlier checkpoint "
              "byte-identical (crash_preserves_earlier), restoring the interrupted id yields the complete state or an error and no change "
              "(interrupted_all_or_error, failed_restore_no_change); tied to src/streaming/state.rs by a correspondence check (exhaustive "
              "short + random histories on the real file backend, observations after every call) and by evaluating Spec.runOk on the "
              "implementation's observations, including every truncation point of state.json. Part 2: the crash theorems restated over "
              "the NUMBERED crash points of the real procedure (Model.checkpointSteps, proved to be the coarsening of the byte-granular "
              "list: checkpointSteps_refine, crashAt_eq_crashFs; crash_at_any_point_preserves_earlier / _all_or_error for every history "
              "and every point index), restore never writes (restore_crash_no_fs_change), and a store reopened on the directory a dead "
              "process left keeps restore_reproduces / ids_distinct and never touches a surviving directory "
              "(restore_after_crash_then_continue, hypothesis: the clock has moved to a later millisecond); these points are tied to the "
              "code by really killing a child process at each of them.")
LEVEL_NOTE = ("Partial by design (DESIGN §8): file-system steps assumed atomic and the serde_json prefix contract assumed (both exercised, "
              "not proved); the numbered crash points between the effects are produced by killing a real child process, the states inside "
              "write_all / remove_dir_all are reconstructed in the model's step order; a machine crash (lost page cache) is out of scope. "
              "Model follows the code after fix-C20 (sequence suffix); the pre-fix id scheme is refuted in Lean by three counterexamples.")
DESIGN_REF = "§6 C20"
