ID = "C03"
THEOREMS = [
    "C03.cycle_count_le",
    "C03.fired_eq_log_length",
    "C03.evaluated_eq_gate_passes",
    "C03.early_stop_iff",
    "C03.fixpoint_on_early_stop",
    "C03.fixpoint_before_bound",
    "C03.silent_pass_unchanged",
    "C03.max_cycles_zero",
    "C03.error_returns",
    "C03.wrappers_within_bound",
    "C03.replay_counts_cycles",
]
LEAN_TARGETS = ["RreModel.C03.Theorems", "RreModel.C03.Theorems2"]
N = {"quick": 6000, "thorough": 80000}
EXHAUSTIVE = {"quick": False, "thorough": False}
# the model of execute is C02's; its files are audited here too
LEAN_FILES = ["RreModel/C02/Model.lean", "RreModel/C02/Api.lean", "RreModel/C02/ApiLemmas.lean", "RreModel/C02/Spec.lean", "RreModel/C02/Lemmas.lean",
              "RreModel/C02/Wire.lean", "RreModel/C02/Oracle.lean", "RreModel/C02/Passes.lean", "RreModel/C02/PassesLemmas.lean",
              "RreModel/C02/Theorems.lean", "RreModel/C02/Theorems2.lean"]
EXEC_TIMEOUT = 900
RULE = ("cases = corpus + every max_cycles in 0..64 on a counter, a toggle and a ping-pong pair (both execute twins) + N random "
        "cases: counters with bounds 1..70, an always-true self-trigger, rings of 2..4 toggling rules, a mutually triggering triple, and "
        "random rule sets (mostly without no-loop; extreme saliences; some agenda/activation groups; some missing fields), max_cycles in 0..64 "
        "(0, 1 and 64 over-represented), timeout None, one or two calls of execute_at_time / execute_with_callback per engine; "
        "+ N/40 large knowledge bases (30..140 rules, sizes next to 32/64/128 over-represented: never-true / disabled / other-group / "
        "out-of-date fillers with counters, toggles, rings and a mutually triggering triple behind all of them, in the middle, in front, "
        "split or scattered, sometimes with a rule that fires in the first pass only; salience ties, classes added in random order) "
        "+ N/6 execute / knowledge-base-edit / execute histories on ONE engine (no-loop, lock-on-active and activation-group rules with "
        "true conditions; add_rule above / between / below the rules that already fired, remove_rule in front or at random, re-adding a "
        "removed name, enable/disable, fact edits, reset_no_loop_tracking; 2..5 executes) "
        "+ N/10 histories in which a call ends at the max_cycles bound or with an action error after an activation-group rule fired, "
        "optionally repaired (disable/remove the failing rule, set the missing field), followed by one or two more calls "
        "(every ordered pair of the two execute twins; a third of the failing rules are lock-on-active / no-loop) "
        "+ N/12 histories in which the action of a lock-on-active / no-loop rule returns Err (it reads an absent field, alone or after "
        "an action that went through; MAIN or a focused agenda group; next to counters, one-shot rules and lock-on-active rules that do "
        "fire), the cause is repaired between the calls (the field is set) or not, and one or two more calls follow without re-focusing "
        "+ N/12 rule sets whose firing rules have workflow bookkeeping actions only (W.k: ScheduleRule / CompleteWorkflow / "
        "SetWorkflowData, 1..3 per rule; always-true or slowly quiescing conditions, mostly without no-loop; alone, next to rules that fire "
        "in the first passes only, mixed with Set actions; such a rule carries no Custom marker — its firing marker is a trailing "
        "ScheduleRule with delay 0 read back through get_ready_tasks and merged by instant), W.k actions also in the random sets "
        "+ every max_cycles in 0..64 with set_debug_mode in front of / between calls of the plain execute wrapper and the twins "
        "+ N/12 configuration histories (engine built with a non-default max_cycles 0..64 on rule sets that do not quiesce within it, or only "
        "in a later call; between the executes set_debug_mode(true/false) next to focus calls on MAIN, pop, clear, reset_no_loop_tracking, "
        "fact edits, knowledge-base edits through knowledge_base_mut(), knowledge_base().clear() followed by re-adding the same / a fresh name) "
        "+ N/10 re-activation histories (lock-on-active rules with conditions that stay true in MAIN or a named group next to one-shot, no-loop "
        "and counter rules; activate - execute - RE-activate in every public way: set_agenda_focus on the group that already has the focus, "
        "execute_workflow_step, activate_agenda_group, focus another group and come back, pop/clear + focus, twice in a row, or not at all / "
        "set_debug_mode only as the control) "
        "+ N/12 workflow histories (execute_workflow over 1..4 groups and execute_workflow_step mixed with set/pop/clear focus, "
        "activate_agenda_group and the three execute entry points, rules spread over MAIN and 2..3 groups incl. never-quiescing ones) "
        "+ N/15 date-window boundary walks shared with C02 (instants in nanoseconds: bounds and execute_at_time instants inside one second / "
        "millisecond / microsecond, before / at / after each bound, all three date builders, text and arithmetic timestamps: a rule inside its "
        "window must take part, else the call stops early at a non-fixpoint) "
        "+ N/15 knowledge-base replacement histories shared with C02 (*knowledge_base_mut() = a freshly built base with the same / a smaller / "
        "a larger version() and more / as many / fewer rules, after an execute and after edits that raised the old version counter; every rule "
        "of the new base takes part in the next call). "
        "+ N/20, N/20, N/40 cases of the families shared by C02 and C03 (c02.rs): several-pending-activations histories (2..4 activate_agenda_group calls — same group, different groups, MAIN — interleaved with set_agenda_focus / pop / clear before each execute, rules with true and false conditions in every group: every queued activation is applied before the first pass); caller-owned undo frames (ops Ub / Uc / Ur = facts.begin_undo_frame / commit_undo_frame / rollback_undo_frame around the execute calls, nested, left open, unbalanced; rules that write flat keys, dotted paths of the existing object o0 (O.0 / O.2 -> Facts::set_nested) and of a missing object (O.1): every call returns under the per-case deadline, after a rollback the facts are those observed at the matching begin — clauses rollback_not_restored / frame_call_changed_facts, and the harness compares the complete fact map incl. nested objects: res u!undo); confusable-names histories (agenda groups, activation groups and rule names reach the engine through name tables whose small ids are easy to confuse as strings: prefix relations through / . : blank, the empty string, a group named like a rule, look-alikes of MAIN, case / trailing-blank twins — all distinct names, injectivity asserted at start-up; lock-on-active / no-loop rules in 2..4 such groups, activate one, execute, focus another, come back by pop or by a new activation, execute). "
        "The three execute entry points (execute_at_time, execute_with_callback, plain execute) are drawn in every history family. Every case "
        "runs in a thread with a 5 s deadline (a call that does not return is observed as `hang`). Observations: GruleExecutionResult "
        "{cycle_count, rules_evaluated, rules_fired}, the callback/marker firing sequence, facts and active group after each call; diffed "
        "against the Lean model, and the clauses C03.countersOk (cycle_count<=max_cycles, fired = number of firings observed, "
        "fired<=evaluated<=cycles*|KB|, cycles<=fired+1, all 0 when max_cycles=0) and C03.fixpointOk (cycle_count<max_cycles => every rule "
        "that passes the reference gate has a false condition on the final facts, re-evaluated by the reference evaluator), and "
        "early_stop_after_firing_pass (cycle_count<max_cycles => the firings split into at most cycle_count-1 passes over the sorted "
        "knowledge base, i.e. the last pass fired nothing) and C02's segmented replay of every pass of every call (C02.segAccept: exactly "
        "cycle_count passes of the reference, the last one silent when the call returns before the bound; execute_workflow step by step) are evaluated on the implementation's observations, for every call of a history. non-trivial = some execute made >= 3 passes or ended at the bound after firing.")
TRUSTED = [
    "Lean 4.33 kernel; axioms of every property theorem within {propext, Classical.choice, Quot.sound} (audited each run)",
    "hand-written model RreModel/C02/Model.lean (exec/cycles/passLoop) tied to src/engine/engine.rs execute_at_time / execute_with_callback by the correspondence check only",
    "harness/src/bin/c03.rs + c02.rs (executor), RreModel/C02/{Wire,Oracle}.lean, Driver/C03.lean glue, check.py diff",
    "wrapper calls (execute, set_debug_mode, knowledge_base_mut, clear, execute_workflow_step, execute_workflow): hand-written model RreModel/C02/Api.lean tied to engine.rs by the correspondence check; after an execute_workflow call the oracle stops (per-step results are not observable) and only the model diff covers the rest of that history",
    "termination of the real call also needs every action and condition evaluation to return: typed core only (integer Set / field+k / ActivateAgendaGroup), no custom functions",
]
ASSUMPTIONS = [
    "timeout = None (the wall-clock timeout is outside the model)",
    "scheduled tasks (execute_scheduled_tasks, the task part of process_workflow_actions) are outside: cases with workflow calls never have a ready task",
    "max_cycles is the fuel of the model's recursion: the definition is accepted by Lean only because the bound exists",
    "fixpoint oracle: eligibility at the end is computed from reference bookkeeping derived from the observed firing log (no-loop names since reset, lock-on-active firings since the last activation)",
]


def classify(case, impl, model, oracle, kind):
    if impl == "hang-skipped":
        return "hang-skipped"   # not run: two earlier cases of the batch did not return
    if impl.startswith("hang"):
        return "hang"
    if impl.startswith("panic") or impl.startswith("crash"):
        return "panic"
    if kind == "oracle":
        return "oracle:" + oracle.replace("fail ", "").split("@")[0]
    return "diff"


LEVEL_TEXT = ("Lean 4 theorems (kernel-checked, unbounded: every rule set incl. self- and mutually triggering ones, every state, every "
              "max_cycles) about the executable model of execute_at_time/execute_with_callback, which is structural recursion on the code's own "
              "bound max_cycles: cycle_count <= max_cycles and = passes started; rules_fired = firings in the log; rules_evaluated = gate passes; "
              "cycle_count < max_cycles implies the last pass fired nothing and every non-final pass fired; a silent final pass leaves state and "
              "facts unchanged and no rule passing the gate has a true condition on the final facts (fixpoint); max_cycles = 0 makes no pass; "
              "an Err result is a return within the bound caused by a failing action. Tied to the Rust code by a correspondence check over "
              "max_cycles 0..64 on non-quiescing rule sets through both entry points with a per-case deadline, and by evaluating the counter and "
              "fixpoint clauses on the implementation's observations.")
LEVEL_NOTE = ("Trusted: Lean kernel + {propext, Classical.choice, Quot.sound}; hand-written model tied to the code by differential testing only; "
              "harness/driver glue; wall-clock timeout and custom handlers outside the model.")
DESIGN_REF = "§6 C03"
