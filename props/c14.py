ID = "C14"
THEOREMS = [
    "C14.emitted_subset_reference",
    "C14.emitted_subset_reference_any_input",
    "C14.no_duplicates",
    "C14.emitted_eq_reference",
    "C14.emitted_eq_reference_prefix",
    "C14.interleaving_independent",
    "C14.never_expires_no_partner_evicted",
    "C14.merge_independent",
    "C14.watermark_emits_nothing",
    "C14.inWindow_eq_closeEnough",
    "C14.call_returns_what_it_owes",
    "C14.model_meets_spec",
    "C14.manager_meets_spec",
    "C14.routed_meets_spec",
    "C14.multi_manager_meets_spec",
    "C14.multi_first_column",
    "C14.multiTraceC_no_ctl",
    "C14.multiObsTraceC_no_ctl",
    "C14.multi_manager_ctl_meets_spec",
    "C14.multi_manager_ctl_meets_spec_unique_ids",
    "C14.multi_ctl_first_column",
    "C14.multi_manager_clear_meets_spec",
    "C14.multi_manager_clear_meets_spec_unique_ids",
    "C14.clear_is_unregister_all",
    "C14.multiObsTraceX_no_clear",
    "C14.eviction_hypothesis_needed",
    "C14.no_duplicates_needs_unique_ids",
]
LEAN_FILES = []
# N = number of random (left sequence, right sequence) configurations; ALL merges of each are run, three variants each
N = {"quick": 1200, "thorough": 10000}
EXHAUSTIVE = {"quick": False, "thorough": False}
RULE = ("cases = corpus + every 2+2 configuration over ts in {0,2} x key in {0,1,none} with ALL 6 merges (window 1 s; without "
        "watermarks and with a watermark advance after every arrival) + N random configurations of <=3+3 (thorough: <=4+4) "
        "events (1..3 keys, key-less events, timestamps from 0..2/4/7, window durations 0/999/1000/1999/2000/3000/5000 ms, four "
        "join conditions) with ALL merges of the two arrival orders, each merge (a) without watermarks, (b) with a tracking "
        "watermark after every arrival, (c) with arbitrary watermark calls (negative, regressing, far ahead); half of the cases "
        "drive StreamJoinNode directly, half through StreamJoinManager (plus events/watermarks of an unrelated stream) "
        "+ N/2 LONG histories in one interleaving each (5..12, thorough ..24, events per side of 1..3 keys, shuffled / bursty "
        "arrival, progressing timestamps with jitter, evicting watermark advances in between so that the per-key queues slide, "
        "wrap, grow and empty; 3/4 of them with slack >= jitter so that no partner is evicted and completeness stays in force) "
        "+ N/4 configurations on LARGE timestamp offsets (2^24, 2^31, 2^32, epoch s/ms/us/ns, 2^53-3..2^53+1, 2^54, 1e16, 2^62, "
        "2^63-2^20; windows up to 512 s; ALL merges, the three watermark variants shifted by the offset) "
        "+ N/6 MULTI-JOIN configurations: 1..3 joins registered on ONE StreamJoinManager over streams a..e (chains ab+bc in both "
        "registration orders, mutual ab+ba, cycles, fan-out/fan-in, duplicate pairs, disjoint, random), a stream being the right "
        "input of one join and the left input of another, per-join windows/conditions, ALL merges of the per-stream sequences "
        "(<= 90, else 90 sampled), the three watermark variants on random streams incl. unconsumed ones "
        "+ N/6 configurations with joins UNREGISTERED AND REGISTERED AGAIN under the same id on the live manager (8 merges each, "
        "thorough 24; unregister+register before the first event - once or several times, for one or two of the joins -, back to "
        "back in the middle of a run, away while traffic goes on, gone for good, with tracking watermarks): a join registered "
        "again starts empty and each of its lives is checked against the reference join of what arrived during that life, it "
        "must stay silent while away, the other joins must not notice. "
        "+ UNUSUAL BUT LEGAL JOIN KEYS (key numbers >= 100 = entries of a table of 64 pairwise distinct strings in confusable "
        "clusters + 8 very long keys): the EMPTY string, blank / tab / newline / NBSP / zero-width / NUL keys, `key0` with "
        "leading / trailing blank, other case, padding, proper prefix; numeric look-alikes 1 / 01 / 1.0 / +1 / 1e0 / non-ASCII "
        "digits, 0 / -0 / 0.0 / 00, 7 / 007 / 7.0 next to key-less events whose field holds Integer(7); the stream names, key "
        "field names, None / null / -; separators _ : , ; / | and id_ts look-alikes; case pairs with non-ASCII folding and NFC / "
        "NFD forms (e-acute, Kelvin sign, sharp s, dotted / dotless i, fi ligature, ohm sign); keys of 4 KiB .. 64 KiB differing "
        "in the last / first character or proper prefixes of each other: every 2+2 configuration over ts {0,2} x key {\"\", key0, "
        "none} containing the empty key with ALL merges, N/3 random configurations over one cluster each with ALL merges and "
        "the three watermark variants, N/12 long histories, N/40 very-long-key configurations, N/24 multi-join / unregister-"
        "register configurations over a cluster. Two different table entries must never join, equal ones must. "
        "+ N/6 configurations with clear() ON A LIVE MANAGER FOLLOWED BY NORMAL USE (6 merges each, thorough 18): clear + all joins "
        "registered again (registration order, reversed, shuffled) before the first event (once or twice), back to back mid-run, "
        "joins coming back one by one with traffic in between (some never), after one join was already unregistered, cleared for "
        "good, with tracking watermarks; the multi-join manager is built with StreamJoinManager::default(), the single-join one "
        "with new(). "
        "+ every fifth case of ALL families once more with STATISTICS PROBES `S` between the calls (get_stats on the node, "
        "get_join_stats + get_all_stats on the manager): they add no call to the observation and must not disturb the join; the "
        "twins must agree with each other and report exactly the registered joins (else `stats-inconsistent`). "
        "KEY FIELDS: the left key extractor reads data[k], the right one data[rk] (two different closures); half of the random "
        "configurations (a third of the long / large-timestamp ones) put decoy values under the field only the OTHER side's "
        "extractor reads (own key, another key, an unused key; also on key-less events) - the decoy must not matter. "
        "Observation = id pairs of the Vec<JoinedEvent> of every call, sorted within the call (multi-join: one batch per "
        "registered join and call = what that join's result handler received). Each case is run on the real "
        "code and on the Lean model (diffed) and the Spec predicate C14.mgrOk/runOk/multiOk (emitted so far within the reference "
        "join of the arrived prefixes, no pair twice, complete while no partner was evicted, and - with eviction too - every call "
        "returns the arriving event paired with every matching partner that is still buffered; multi-join: per join, against ITS "
        "OWN reference join left-stream x right-stream) is evaluated on the implementation's "
        "observations. Non-trivial = at least one pair emitted; distinct = distinct case text.")
TRUSTED = [
    "Lean 4.33 kernel; axioms of every property theorem within {propext, Classical.choice, Quot.sound} (audited each run)",
    "hand-written model RreModel/C14/Model.lean tied to src/rete/stream_join_node.rs and src/streaming/join_manager.rs by the correspondence check only (differential testing)",
    "harness/src/bin/c14.rs, Driver/C14.lean parsing/printing glue, check.py diff",
    "std HashMap / VecDeque behave as a finite map / FIFO queue; Mutex in the manager is uncontended (single thread)",
]
ASSUMPTIONS = [
    "event ids are unique within each stream (well-formedness hypothesis WF of every theorem; the generator assigns positions)",
    "timestamps are u64 within the i64 range (the code casts `as i64`), modelled as Nat embedded in Int; watermark is an Int; "
    "watermark - timestamp stays within i64 (generated: timestamps <= 2^63 - 2^20 + small, watermarks >= -4); exercised up to 19-digit values",
    "multi-join manager: join ids pairwise distinct, no join with left_stream == right_stream (it would be indexed twice under its "
    "stream); unregister_join / register_join of the same id during the run strictly alternate per join id (registering an id "
    "that is still registered would list it twice under its streams - not generated); the lives of a re-registered join are "
    "specified by Spec.multiOkC / livesOk and PROVED of the model (multi_manager_ctl_meets_spec: every life of every join meets "
    "the single-join manager specification against the reference join of that life, silence while away and during control "
    "calls, other joins unaffected; hypothesis WFC: ids unique per consumed stream within each life - implied by the driver's "
    "whole-history id check, multi_manager_ctl_meets_spec_unique_ids; alternation is not needed for the theorem, only for the "
    "model's faithfulness); "
    "clear(): modelled as XOp.clear (every join's node dropped), specified by Spec.multiOkX (clear ends the current life of every "
    "join) and PROVED of the model (multi_manager_clear_meets_spec, clear_is_unregister_all); after clear() any join may be "
    "registered again in any order; "
    "join keys: the model compares opaque key numbers; the harness maps numbers to strings injectively (asserted at start-up), "
    "so equal numbers <=> equal extracted key strings; key-less = the extractor returns None (field absent or not a String); "
    "stream names are arbitrary and may be shared between joins in any roles",
    "the window is duration.as_secs() in timestamp units - the code's own convention (DESIGN section 8)",
    "inner join with JoinStrategy::TimeWindow only; outer-join emission and Count/Session strategies are outside the model",
    "'evicted' is what the front eviction of update_watermark removes (model semantics; noPartnerEvicted is computed from the case)",
]


def classify(case, impl, model, oracle, kind):
    if "stats-inconsistent" in (impl or ""):
        # a statistics probe `S` found get_join_stats / get_all_stats disagreeing with each other or with the set of
        # registered joins (e.g. a node that survives clear())
        return "stats-inconsistent"
    if kind == "oracle":
        return "oracle:" + oracle.split("@")[0].replace("fail ", "")
    return "diff"


LEVEL_TEXT = ("Lean 4 theorems (kernel-checked, unbounded: every window, every join condition, every finite history of "
              "process_left / process_right / update_watermark calls with per-stream unique ids) about the executable model of "
              "StreamJoinNode (inner, time window): emitted pairs are within the reference join and pairwise distinct "
              "unconditionally; they are a permutation of the reference join whenever no event is evicted before its partner "
              "arrives (in particular when no watermark ever expires an event), hence independent of the interleaving; "
              "update_watermark never emits for an inner join. Tied to src/rete/stream_join_node.rs and "
              "src/streaming/join_manager.rs by a correspondence check over ALL merges of short sequences, long sliding-window "
              "histories, epoch-scale timestamps and several joins registered on one manager (model vs implementation "
              "per call and per join) and by evaluating the same Spec predicate on the implementation's observations. "
              "multi_manager_meets_spec: for ANY list of registered joins and ANY manager history every join's batches satisfy the "
              "specification against that join's own reference join. multi_manager_ctl_meets_spec: the same with "
              "unregister_join / register_join(same id, fresh node) calls anywhere in the history - every life of every join "
              "(registration to next unregistration) meets the specification against the reference join of what arrived during "
              "that life, a join that is away and every control call deliver nothing, other joins do not notice. "
              "multi_manager_clear_meets_spec: the same with clear() calls anywhere (clear ends the current life of every join; "
              "for each join it is exactly its own unregister_join: clear_is_unregister_all).")
LEVEL_NOTE = ("Trusted: Lean kernel + {propext, Classical.choice, Quot.sound}; hand-written model tied to the code by differential "
              "testing only; harness/driver glue; outer joins and Count/Session windows not modelled.")
DESIGN_REF = "§6 C14"
