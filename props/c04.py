ID = "C04"
THEOREMS = [
    "C04.splitLogical_render",
    "C04.parseWhen_render",
    "C04.parseWhen_precedence",
    "C04.parseWhen_layout_irrelevant",
    "C04.parseThen_render",
    "C04.parseWhen_render_strlit_opaque",
    "C04.parseWhen_strlit_opaque_unmask",
    "C04.parseThen_render_strlit_opaque",
    "C04.parseValue_strlit_opaque",
    "C04.unmask_mask_strlit",
    "C04.strlit_examples",
    "C04.parseValue_int_roundtrip",
    "C04.parseValue_renderLit",
    "C04.parseValue_renderLit_partial",
    "C04.parseValue_string_counterexample",
    "C04.parseValue_concat_expr",
    "C04.splitArgs_strlit_opaque",
    "C04.splitArgs_mask_render",
    "C04.splitArgs_unmask_first_counterexample",
    "C04.parseWhen_strlit_and_counterexample",
    "C04.parseWhen_strlit_paren_counterexample",
    "C04.parseThen_strlit_semicolon_counterexample",
    "C04.prefix_salience_negative_counterexample",
    "C04.attributes_render",
    "C04.attributes_any_order",
    "C04.splitRules_render",
    "C04.parseRule_render",
    "C04.cleanText_single_line",
    "C04.parseRules_render",
    "C04.parseSingleRule_render",
    "C04.parseWithModules_render",
    "C04.parseAction_set_int",
    "C04.parseSingleCondition_cmp_int",
    "C04.parseRules_render_int",
    "C04.parseRules_render_comments",
    "C04.parseRules_render_nth",
    "C04.cleanText_units",
    "C04.cleanText_layout",
    "C04.parsePreparedRule_layout",
    "C04.parseRules_render_full",
    "C04.parseRules_render_layout_comments",
    "C04.ruleOf_mapW",
    "C04.parseSingleCondition_cmp",
    "C04.parseValue_str_at",
    "C04.parseValue_float",
    "C04.parseValue_ref",
    "C04.Lit.parse",
    "C04.parseAction_assign",
    "C04.parseAction_append",
    "C04.parseAction_minus_assign",
    "C04.parseAction_call",
    "C04.parseAction_log",
    "C04.parseAction_retract",
    "C04.parseAction_schedule_int",
    "C04.parseAction_activate",
    "C04.parseAction_complete",
    "C04.parseAction_custom",
    "C04.parseAction_wfdata_finding",
    "C04.parseAction_methodcall_finding",
    "C04.parseSingleCondition_not_contains_error",
    "C04.CLeaf.parse",
    "C04.CStmt.parse",
    "C04.CLeaf.roundtrip",
    "C04.CStmt.roundtrip",
    "C04.LT.sem_map_leaves",
    "C04.leavesOk_core",
    "C04.parseRules_render_core",
]
LEAN_TARGETS = ["RreModel.C04.Theorems", "RreModel.C04.Theorems2", "RreModel.C04.Theorems3", "RreModel.C04.Theorems4", "RreModel.C04.Theorems5", "RreModel.C04.Theorems6", "RreModel.C04.Theorems7", "RreModel.C04.Theorems8"]
N = {"quick": 2300, "thorough": 40000}
EXHAUSTIVE = {"quick": False, "thorough": False}
RULE = ("cases = corpus (witness of every fixed defect and of every open finding; boundary.case: boundary numbers - 0, +-1, 2^31+-1, 2^53+-1, i64::MIN/MAX as Set / += / call-argument / array-element / comparison values, salience at the i32 ends, ScheduleRule delays incl. NEGATIVE integer literals (`i as u64`: -1 -> 2^64-1), integers just outside i64 (become f64), float spellings 1e300 / 5e-324 / -0.0 / 1e21 / 1e+21 / 1E21 in four positions) + every subset of the seven rule attributes in a "
        "shuffled order + string concatenations (operands: string literals of both quote kinds incl. empty / metacharacter / placeholder "
        "look-alike bodies, dotted fields, identifiers, numbers, joined by `+`): every shape that starts AND ends with a literal "
        "(L+F+L, L+L, L+L+L, L+I+L, L+N+L, L+F+L+F+L) with both quote kinds, and a sample of the one-sided / field-first / mixed-quote "
        "shapes, in each of 11 positions where parse_value reads a value (condition value, inside a compound condition, function-call "
        "condition, assigned value, += value, call argument, Log argument, array element of an assignment and of an `in` list, value "
        "after an arithmetic left side, multifield count value); expected = Value::Expression(source text, literal bodies unmasked); the "
        "same concatenations are drawn in the random stream (scalars, values, array elements, Log) + string literals as ARGUMENTS: each of 82 "
        "literal bodies (the 42 metacharacter / keyword / placeholder bodies, 34 bodies around the list separator itself - `,` alone, "
        "leading, trailing, doubled, with blanks, next to `)` `(` `&&` `||` `;` `{` `}` `//` `/* */`, the other quote kind, non-ASCII - and 6 plain "
        "ones), written with the quote kind that fits, as an argument of a function-call leaf `f(args) op value` and of a `test(f(args))` "
        "leaf (alone / first / middle / last position, every fifth vector with a second literal; bare and under ! && || exists forall; "
        "three layouts) and in every argument position of every action form with an argument list (custom / function-call action: "
        "alone, first, middle, last, all arguments literals; Log; ActivateAgendaGroup / CompleteWorkflow / ScheduleRule names; "
        "`$Obj.method(args)` in the stream M:method; array elements of `=`, `+=`, an `in` list and a function-call leaf's value; "
        "two statements in one rule; literal arguments in the condition AND the actions of one rule); on the streams of the open "
        "findings F-C04i / F-C04j the oracle additionally requires the observation to be exactly the one the finding explains "
        "(`beyond_finding` otherwise), and for function-call / test leaves it compares the argument vectors (`call_args`) + N files generated from the documented GRL grammar: 0..8 rules, quoted/bare names, optional description, "
        "salience over the i32 range, condition trees to depth 5 (6 in thorough) over every atom form, literals of every type "
        "(i64 extremes, decimals, both quote styles, non-ASCII text, comment markers inside strings, one string in three with GRL "
        "metacharacters / keywords / placeholder look-alikes in its body: } { && || ' then ' ( ) ; = , += rule-when-then text; "
        "arrays, identifiers, paths, arithmetic), the same for rule names, descriptions and group names, every action form, three layout strengths (blanks / mixed white space and redundant parentheses / comments "
        "with GRL metacharacters anywhere white space is allowed, ;; lines and defmodule blocks between rules); every 7th case is "
        "from the tagged stream M:<class>: one string literal with a GRL metacharacter in one position (the former F-C04b witnesses, which "
        "must pass) or a form hit by an open finding (wfdata, method, firstvar). every 10th case is from the family RF:<layout word>: the file is rendered by a Rust port of the Lean "
        "renderer `renderFile` of the whole-file theorems (one palette index per white-space slot: blanks / tabs / line breaks / comments), "
        "and the oracle re-renders the case in Lean from (layout word, abstract rules) and requires the text to be identical "
        "(`render-agrees`; `rf_thm_hyp` = within the observable hypotheses of parseRules_render_full / parseRules_render_layout_comments: strip_comments of the text is renderFile of the same rules with every slot stripped, slots are white space, no line break inside a leaf / statement, first statement directly after the slot behind `then`; `rf_thm_oneline` = the former tag: one line per rule, no comments). The file is "
        "given to GRLParser::parse_rules and parse_with_modules and every rule text to parse_rule (real code); the three returned "
        "ASTs are printed canonically and (a) compared with the Lean model's prediction, (b) compared by the oracle with "
        "print(expected(abstract rule list carried by the case)). non-trivial = at least one rule and at least 3 condition nodes.")
TRUSTED = [
    "Lean 4.33 kernel; axioms of every property theorem within {propext, Classical.choice, Quot.sound} (audited each run)",
    "hand-written model RreModel/C04/Model.lean tied to src/parser/grl.rs by the correspondence check only (differential testing)",
    "the regular expressions are modelled by scanning functions; agreement with the rexile engine (incl. two mirrored rexile quirks) "
    "is covered by the correspondence only",
    "harness/src/bin/c04.rs (generator, renderer, canonical printer), Driver/C04.lean glue (case reader, f64/date parsing), check.py diff",
    "Rust str::parse::<f64> computes the bit pattern carried in the abstract form; chrono date parsing vs the driver's civil-date arithmetic",
]
ASSUMPTIONS = [
    "white space = { space, tab, CR, LF } (what the regex engine's \\s matches); identifiers are ASCII",
    "no layout variation inside an arithmetic expression text or between a keyword and its '(' (exists( forall( test( f( )",
    "accumulate / stream / typed ($x : T(...)) patterns are outside the modelled grammar",
    "a string literal does not contain its own quote character or a line break (there is no escape syntax); the source text has no "
    "U+0001 outside string literals (the masking's delimiter)",
]


SIGS = {
    "M:wfdata": "setworkflowdata-value-keeps-quote",
    "M:method": "methodcall-object-dropped",
    "M:firstvar": "multifield-first-last-var-dropped",
}


def classify(case, impl, model, oracle, kind):
    stream = case.split(" ", 1)[0]
    if kind == "oracle":
        if stream in SIGS and "beyond_finding" not in oracle:
            return SIGS[stream]
        return "oracle:" + oracle.split("@")[0].replace("fail ", "")
    return "diff"


LEVEL_TEXT = ("Lean 4 theorems (kernel-checked, unbounded: every condition tree, every layout) about an executable model of the GRL "
              "parser's algorithmic layers: parsing the rendering of a condition tree returns the tree (&& tighter than ||, parentheses, "
              "!, exists/forall; any white space, any redundant parentheses), statement lists and literals round-trip, a string concatenation "
              "that starts and ends with a literal is the expression that was written and never one literal, an argument list split at its commas "
              "after the masking returns the arguments that were written whatever their string literals contain, comments and quoted "
              "header strings are opaque; tied to src/parser/grl.rs by a correspondence check on generated GRL files (full AST of "
              "parse_rules / parse_rule / parse_with_modules vs model) and by the round-trip oracle on the implementation's own output.")
LEVEL_NOTE = ("Whole files (Theorems3): splitRules_render / parseRule_render / parseRules_render / parseRules_render_nth / parseSingleRule_render "
              "— over the model's scanners for rule_split_regex, rule_regex, when_then_regex, the splitter returns one block per rule in source "
              "order and every rule comes back with its name, salience, every attribute (attributes_render: any order, any white space), its "
              "condition TREE and statement LIST as written, leaf parsers' results at the leaves; hypotheses: one line per rule, no comments, "
              "no `}` / ` then ` outside literals (comments between rules with arbitrary text: parseRules_render_comments). Any layout (Theorems6): cleanText_units / cleanText_layout — clean_text turns every white-space slot with a line break into one blank and leaves tokens and the other slots untouched; parsePreparedRule_layout / parseRules_render_full — whole files with line breaks in any slot (hypotheses: no line break inside a leaf / statement text, CodeOk also of the slot-normalised rules); parseRules_render_layout_comments — comments in any slot, given SC text (renderFile …) (SC.append / gap_sc build it); ruleOf_mapW — the expected rule does not depend on the layout. Leaves (Theorems4): "
              "parseSingleCondition_cmp_int / parseAction_set_int follow the leaf parsers on `Object.field op <i64>` / `field = <i64>` as written, "
              "parseRules_render_int = the property's sentence with nothing abstract for that sub-grammar. Leaf round trips (Theorems7/8): "
              "parseSingleCondition_cmp (`Object.field OP value`, all eleven operators of the patterns, any value text), Lit.parse (i64, strings with arbitrary "
              "bodies at any table offset, booleans, null, floats as the parameter Ext.parseF64, dotted references), parseAction_assign / _append / "
              "_minus_assign / _call / _log / _retract / _schedule_int (delay = `i as u64` for the whole i64 range) / _activate / _complete / _custom, "
              "CLeaf.roundtrip / CStmt.roundtrip (as written -> mask -> leaf parser = documented meaning), parseRules_render_core = the property's sentence for "
              "that core grammar with the expected rules computed from the source alone (ruleDoc); findings as theorems: parseAction_wfdata_finding, "
              "parseAction_methodcall_finding, parseSingleCondition_not_contains_error; arrays, test(...) / function-call leaves and multifield patterns at the "
              "leaves remain covered by the correspondence only. The renderer of these theorems (File.lean renderFile) is the one whose "
              "outputs the RF family feeds to the real parser: the oracle re-renders every RF case in Lean and compares (render-agrees). "
              "Partial: the regex capture layer is modelled by scanning functions and tied by the correspondence only. String literals "
              "are opaque by theorem: after mask_string_literals the round trips hold for literal bodies with arbitrary content "
              "(…_strlit_opaque, unmask_mask_strlit); the …_counterexample theorems are about the pipeline without the masking. Trusted: Lean kernel + {propext, Classical.choice, Quot.sound}; hand-written model; harness/driver glue.")
DESIGN_REF = "§6 C04"
