ID = "C13"
THEOREMS = [
    "C13.model_meets_spec",
    "C13.watermark_monotone",
    "C13.watermark_monotone_prefix",
    "C13.bounded_watermark_eq",
    "C13.monotonic_watermark_eq",
    "C13.fate_by_strategy",
    "C13.late_counted_iff_below",
    "C13.conservation",
    "C13.history_strictly_increasing",
    "C13.periodic_watermark_le_max",
    "C13.periodic_step",
]
N = {"quick": 3000, "thorough": 60000}
EXHAUSTIVE = {"quick": False, "thorough": False}
RULE = ("cases = corpus + every timestamp sequence of length <=4 over 0..3 (thorough: <=5 over 0..4) under every "
        "(watermark strategy, late strategy) pair + N random sequences of length 1..12 over domains 4/8/16/40 "
        "(sorted, reversed, shuffled) + a Periodic family (intervals 0 / small / one hour; injected clock readings that stand "
        "still, advance by interval-1 / interval / interval+1, jump and run backwards) + a CLOCK family on the strategies that must ignore the "
        "processing-time clock (BoundedOutOfOrder with delays 0..1 h, MonotonicAscending, Custom): one wall-clock gap of 0 / 1 / 1999 / 2000 / 2001 ms / "
        "delay-1 / delay / delay+1 / max(delay, 2 s)+1 / 10 s / 1 h / 50 years / backwards in front of every position (incl. the first event) of 4 "
        "out-of-order sequences scaled to the delay, and random sequences with a random gap before every event + a DURATION family: max_delay / max_lateness given as a "
        "std Duration that is not a whole number of milliseconds below 2^64 - Duration::MAX, from_secs(u64::MAX), whole seconds whose "
        "milliseconds pass 2^64 (2^64 ms + 384, 2^55 s), the values just below / at / above 2^64 ms, 2^54 s and 2^63 s, sub-millisecond parts "
        "(999_999 ns, 1_000_001 ns, 1 s + 999_999_999 ns) - 22 durations x 7 fixed out-of-order sequences (small and huge timestamps) x "
        "{as max_delay with every late strategy, as max_lateness behind 5 watermark strategies, as both} + random ones; the model strategy "
        "carries the effective delay C13.durMillisU64 = `d.as_millis() as u64` (floor of total ns / 10^6, low 64 bits) "
        "+ a DECORATION family: events that differ in every StreamEvent field the watermark logic must ignore (metadata.source: 8 values incl. the "
        "empty string and look-alikes, event_type, payload data - empty / 300 fields / a field called \"timestamp\" with another value / Null / NaN -, "
        "the text of the id, metadata.sequence, metadata.tags): every timestamp sequence of length <=3 over 0..2 with every assignment of 3 sources "
        "under 5 watermark x 3 late strategies, and 6000 cases sampled from ALL the families above re-offered with 2..4 sources dealt at random / "
        "alternating / one straggler / one per event, or with varied types / payloads / id texts / sequence numbers / tags; the driver drops the "
        "decoration (the model sees position, timestamp, clock reading) and the oracle is unchanged. Each case is run on WatermarkedStream (real code) and on the Lean model; "
        "observations after every add_event are diffed and the Spec predicate C13.runOk is evaluated on the "
        "implementation's observations. A case is non-trivial when at least one event was late; distinct = distinct case text.")
TRUSTED = [
    "Lean 4.33 kernel; axioms of every property theorem within {propext, Classical.choice, Quot.sound} (audited each run)",
    "hand-written model RreModel/C13/Model.lean tied to src/streaming/watermark.rs by the correspondence check only (differential testing)",
    "harness/src/bin/c13.rs, Driver/C13.lean parsing/printing glue, check.py diff",
    "Periodic watermark strategy: the processing-time clock is an input of the model (one reading per offered event, any values); "
    "the harness injects the readings through the cfg(rre_verif) hook watermark::verif_clock (whole milliseconds)",
    "the harness binary installs a `log` logger that accepts and formats every record up to Trace (harness dependency log = 0.4, the crate the "
    "repository logs through), so the arguments of every log line on the exercised paths are evaluated, as in a host run with RUST_LOG=trace",
]
ASSUMPTIONS = [
    "timestamps are u64 milliseconds modelled as Nat; saturating_sub = Nat subtraction",
    "a configured Duration (secs: u64, nanos < 10^9) enters the model as the effective delay C13.durMillisU64 secs nanos = `d.as_millis() as u64` "
    "(computed by the driver from the case text; the theorems are parametric in the delay)",
    "event identity = caller-assigned id (StreamEvent.id), unique per case (any text: the harness maps the id text back to the event's position)",
    "the processing-time clock is not an input of the BoundedOutOfOrder / MonotonicAscending / Custom model (it is of Periodic): the harness varies "
    "the readings there too (clock family) and the observations must still equal the model's and satisfy C13.runOk; the same for the logging "
    "configuration (a Trace logger is installed; VERIF_NO_LOGGER=1 runs without one)",
    "source, event_type, data, sequence and tags of an event are not inputs of the model: the harness varies them (decoration family) and the "
    "implementation's observations must still equal the model's and satisfy C13.runOk",
]


def classify(case, impl, model, oracle, kind):
    if kind == "oracle":
        return "oracle:" + oracle.split("@")[0].replace("fail ", "")
    return "diff"

LEVEL_TEXT = ("Lean 4 theorems (kernel-checked, unbounded: every strategy pair, every finite event sequence) that the executable "
              "model of WatermarkedStream satisfies the observation-level spec C13.runOk (monotone watermark, wm = max seen - delay, "
              "late iff ts < wm, one fate per event, strictly increasing history, statistics add up), tied to "
              "src/streaming/watermark.rs by a correspondence check (exhaustive short sequences + random longer ones; model vs "
              "implementation observations after every add_event) and by evaluating the same Spec predicate on the implementation's observations.")
LEVEL_NOTE = ("Trusted: Lean kernel + {propext, Classical.choice, Quot.sound}; hand-written model tied to the code by differential "
              "testing only; harness/driver glue; Periodic strategy modelled with the clock readings as inputs (injected through a cfg(rre_verif) hook).")
DESIGN_REF = "§6 C13"
