ID = "C06"
THEOREMS = [
    "C06.handles_fresh",
    "C06.handles_fresh_history",
    "C06.retracted_never_fires",
    "C06.fires_only_if_true_now",
    "C06.fire_all_firings_valid",
    "C06.wm_views_agree",
    "C06.wm_views_agree_history",
    "C06.fire_all_bounded",
    "C06.fire_all_skips_terminate",
    "C06.quiescent_fire_all_exact",
    "C06.quiescent_fire_all_exact_bound",
    "C06.quiescent_fire_all_exact_iff",
    "C06.quiescent_fire_all_exact_after_firing",
    "C06.quiescent_fire_all_exact_after_firing_bound",
    "C06.loader_exact_on_grl_literals",
    "C06.loader_negation_kept",
    "C06.loader_negated_comparison_on_absent_field",
    "C06.quiescent_fire_all_exact_no_size_hypothesis_counterexample",
    # actions that modify the matched fact: oracle clause action_write_lost (C06.writesOk / C06.writeBackBad, Spec.lean)
    "C06.action_writes_kept",
    "C06.action_writes_kept_history",
    "C06.fire_one_applies_assignments",
    "C06.action_writes_kept_needs_map_data",
    # reach audit: the other public entry points (Ext.lean / ExtTheorems.lean)
    "C06.insert_explicit_is_insert",
    "C06.strategy_transparent",
    "C06.insert_template_checked",
    "C06.xstep_eq_run_lower",
    "C06.xstep_resetDeffacts",
    "C06.xrun_eq_run_lower",
    "C06.wm_views_agree_xhistory",
    "C06.handles_fresh_xhistory",
    "C06.string_ops_need_strings",
    "C06.in_is_membership",
    # reach audit 2: expression right-hand sides and arithmetic conditions (ArithTheorems.lean); the write-back / exactness theorems
    # above are re-proved over the extended Rule / Node / Action (Action.resolve: expressions resolved at firing time)
    "C06.resolve_literal_only",
    "C06.assignments_see_earlier_writes",
    "C06.resolve_reads_contents_only",
    "C06.fire_one_stores_expression_value",
    "C06.failed_expression_stores_its_text",
    "C06.test_missing_head_false",
    "C06.test_uses_standard_precedence",
    "C06.test_precedence_prefix_counterexample",
    # seeded change C06-13: a touch re-propagates every live fact of the TYPE (oracle clause quiescent_fire_all_exact_by_type = C06.exactTypeOk)
    "C06.one_touch_repropagates_type_partial",
    "C06.compl_touched",
    "C06.quiescent_fire_all_exact_by_type",
]
LEAN_TARGETS = ["RreModel.C06.Theorems", "RreModel.C06.ExtTheorems", "RreModel.C06.ArithTheorems"]
N = {"quick": 1500, "thorough": 20000}
EXHAUSTIVE = {"quick": False, "thorough": False}
EXEC_TIMEOUT = 900
RULE = ("cases = corpus (defect witnesses, corner cases) + N random histories of 2..13 calls (insert / update / retract / fire_all / reset, "
        "including unknown and retracted handles) over <= 6 facts of <= 3 types and 1..3 single-type rules of the typed core; every 50th case is of the family 'many stale / duplicate "
        "activations' (1 or 3..6 facts, 2..4 high-salience rules + one low-salience rule, enough updates for > 1000 activations that are then "
        "made stale: F-C06b), every 10th of the family 'negated rules on a multi-type store' (F-C06c), every 10th of the family 'negated "
        "comparison on an absent / null / non-numeric field' (`!` applied directly to one comparison, sparse facts with null / string / "
        "boolean values; mostly quiet rule sets), 2 in 50 of the family 'many rules, two-digit handles' (11..13 quiet rules R0..R12 whose names "
        "differ in trailing digits only, 11..24 facts, name+handle of two (rule, fact) pairs read the same, the pair queued first made stale), "
        "2 in 50 of the family 'rules of another fact type re-activated by the re-propagation after a firing' (2..3 types, fire_all, reset, one "
        "type touched, fire_all), 4 in 50 of the family 'an action changes only the TYPE of a field' (a writer rule assigns Float n.0 where "
        "Integer n stands or the reverse — same printed form, different value for == / != —, one or two type-sensitive reader rules above or "
        "below it, fire_all, optional reset / update / fire_all; the oracle clause action_write_lost = C06.writeBackBad / C06.writesOk of Spec.lean (theorems action_writes_kept, action_writes_kept_history): when the "
        "matched fact is the only live fact of its type, the next firing on it / the view after the call shows the recorded contents plus the "
        "rule's assignments, as typed values) "
        "(alpha nodes with ==,!=,<,<=,>,>= against integer/float/boolean/string/null literals or another field, combined by and/or/not; actions: "
        "none, assignments of literals to fields of the rule's type, retract of the matched fact). Rules are built through the public "
        "API with exactly the node GrlReteLoader builds and an action closure that records (rule, matched handle, contents of the matched "
        "fact in the flattened copy) and then does what the GRL closure does. LOADER PATH: every rule of every case is also rendered as GRL text "
        "and loaded with the real GrlReteLoader::load_from_string into a second IncrementalEngine that is driven through the same calls (its "
        "closures are the loader's own: fired names per call and all views are observed, no recorder log); the model predicts that engine "
        "too (C06.loaderRule: the node as written — a negation stays a UlNot node — except that a float literal with an integral value comes "
        "back as an integer), and the oracle C06.orunG (views, handles, results, known rules, no-loop once, every fired rule satisfied by a "
        "live fact when no action changes anything, both exactness clauses) and, for quiet rule sets, equality of the fired sets of the two "
        "engines are evaluated on it. Observables after every call: the result, fire_all's "
        "return value and the recorder log, get / get_by_type / get_all_facts / get_all_handles and the contents of every live fact. "
        "The Spec oracle C06.orun (view agreement, handle freshness, update/retract results, every firing re-evaluated on the recorded "
        "contents, matched handle live, no-loop once between resets, exactness for quiescent rule sets when every live fact was touched "
        "since the last fire_all, and — whatever was touched — for every call that fires at least one rule) is evaluated on the "
        "implementation's observations of every case; model and implementation observations are compared in full on the histories in "
        "which no type ever has two live facts (flag D1: nothing can depend on HashMap iteration order; about 80% of the cases). "
        "REACH (coverage audit): 8 in 50 cases are of the family 'every public way a fact enters' — insert interleaved with insert_explicit, "
        "insert_with_template (the harness registers a template for T1: f0 Integer required, f1 String optional; valid and invalid facts, "
        "types without template), load_deffacts / load_deffacts_by_name (a registered set with one fact that violates the template; unknown "
        "name), reset_with_deffacts (new working memory: the oracle starts a new epoch, numbering restarts at 1) and "
        "set_conflict_resolution_strategy (all 8 strategies, read back) — modelled in RreModel/C06/Ext.lean (XOp; every extended operation "
        "except reset_with_deffacts is a list of inserts: xrun_eq_run_lower) with oracle clauses template_not_checked, "
        "template_rejects_valid_fact, rejected_insert_changes_wm, strategy_not_set, strategy_changes_wm, load_deffacts*:handles / "
        "wm_views_agree / result, reset_with_deffacts:*; 7 in 50 are of the family 'string operators and in' (contains / startsWith / endsWith "
        "against words over {a,b,c}, another field or a non-string; in against array literals of mixed element types; negated and compound; "
        "through the API and through GRL text); one rule in eight of the general family (one in four of the string family) is built with "
        "AlphaNode::with_typed_value; 4 in 50 are of the family 'the strategy setter between fire_all calls' (seeded change C06-10: quiet no-loop "
        "rules the facts satisfy, fire_all, then rounds of S<k> (different strategy / the same again / two in a row) + a touch that re-creates "
        "activations of rules that already fired + fire_all without reset: clause no_loop_twice; with a reset: exactness). Every observation token now ends with IncrementalEngine::stats() (rules, total / active / retracted "
        "facts, indexed types, dependency types): oracle clause stats_agree (the counting twins of the listings against the reference "
        "working memory). "
        "REACH 2 (expressions and arithmetic conditions): 10 in 50 cases are of the family 'arithmetic' — rules whose conditions are "
        "arithmetic tests (`T.f0 + T.f1 > 10`, `T.f0 % 2 == 0`, `T.f0 * 2 % 4 == 6`, `/ 0`, `% 0`, missing / non-numeric operands, against a "
        "literal or a field; alone — the rule's ONLY condition: F-C06d —, negated, or beside a plain comparison: node `X.<expr>.<cmp>.<atom>`, "
        "model Node.test / C06.testEval = matches_typed + evaluate_arithmetic_rete + evaluate_arithmetic_expr after fix-C06e) and whose actions "
        "assign EXPRESSIONS (`<field>@<expr>`: Action.xsets, C06.Expr.actVal = evaluate_expression_for_rete + src/expression.rs + "
        "value_to_fact_value, evaluated at FIRING time on the flattened copy, each assignment seeing the earlier ones): self-referencing "
        "updates f = f + 1 / * 2 / / 2 under no-loop and under re-firing rules (ended by the rule's own condition, 1 case in ~100 by "
        "max_iterations = 1000), a second assignment reading the first, a rule reading what a higher-salience rule of the same fire_all "
        "wrote, Integer -> Float and Float -> Integer results, division by zero / by a field holding 0, missing fields, boolean / null / string "
        "operands (the expression's TEXT is stored: value `s<900+i>`), word concatenation, operands at the i64 bounds and above 2^53 "
        "(saturating cast, f64 rounding: C06.round53), a field of another type.  The recorder engine's closure evaluates through the public "
        "rust_rule_engine::expression::evaluate_expression with the loader's two conversions re-implemented; the loader engine runs the "
        "real closure (views compared token for token: tag loader_same_obs).  Oracle: fires_only_if_true_now re-evaluates arithmetic "
        "conditions with the STANDARD precedence on the recorded contents; action_write_lost (C06.writesOk) demands, when the matched fact is "
        "the only live one of its type and every expression HAS a value on the recorded contents (C06.definedOn; local: reads the rule's own "
        "type), that the next firing / the view shows those contents plus the expressions' values at that moment.  A run in which a value "
        "outside the modelled domain shows up (a float that is not a multiple of 1/2, NaN, a non-word concatenation) is flagged DX by the "
        "harness and claims nothing (tag out_of_domain, < 1%).  3 in 50 cases are of the family 'one fact of several touched after a reset' "
        "(seeded change C06-13): quiet rules, 2..4 facts of a type, fire_all, then reset + ONE update (mostly to non-matching contents) / "
        "retract / insert + fire_all — clause quiescent_fire_all_exact_by_type (C06.exactTypeOk: the clause applies as soon as the TYPE of "
        "every live fact was touched since the last fire_all; order-independent, judged on several live facts per type). "
        "Non-trivial = at least one rule fired in a history that also updates or retracts a fact; distinct = distinct case text. On top come N/6 BLANKS-AND-LOOK-ALIKES cases: condition literals and fact values from the table q<k> (empty, blank-only, "
        "leading / trailing blanks, texts that read as a number / boolean / null with and without blanks) under every string operator and "
        "comparison, through the directly built alpha nodes, with_typed_value and the GRL loader twin.")
TRUSTED = [
    "Lean 4.33 kernel; axioms of every property theorem within {propext, Classical.choice, Quot.sound} (audited each run)",
    "hand-written model RreModel/C06/Model.lean (+ the agenda model of C07) tied to src/rete/{working_memory,propagation,network,alpha,facts}.rs "
    "by the correspondence check only (differential testing)",
    "harness/src/bin/c06.rs (recorder closure, mimic of the GRL action closure — expressions through the public "
    "expression::evaluate_expression —, rendering of a case's rules as GRL text), "
    "Driver/C06.lean parsing/printing glue, check.py diff",
]
ASSUMPTIONS = [
    "typed core: integer / boolean / non-numeric string / null values and floats that are exact halves (i64 -> f64 conversion is "
    "modelled: C06.round53); arithmetic: quotients that are exact in binary (divisors 0, +-2^k), no f64 exponent overflow; numeric literals "
    "inside expressions are non-negative (neither evaluator reads a negative literal as an operand); runs that leave the value domain "
    "are flagged DX by the harness and excluded",
    "all facts are explicit assertions (the TMS cascade of retract is empty — C08's subject)",
    "HashMap/HashSet iteration order (order of rules/facts during propagation; which fact of a type provides the un-prefixed "
    "`Type.field` keys of the flattened copy) is a free choice of the implementation: the model fixes one, the theorems do not depend "
    "on it, complete observations are compared only when at most one fact per type is live, the oracle is evaluated always",
    "rules are added before any fact is inserted (as GrlReteLoader users do); activations are created by propagation only",
    "reset_with_deffacts installs a NEW WorkingMemory (CLIPS reset): 'handles are never reused' is stated per working memory — the "
    "oracle starts a new epoch there (handles_fresh_xhistory: second conjunct excludes it; wm_views_agree_xhistory includes it)",
    "strings: `s<k>` identifiers, words over {a,b,c}, and the table `q<k>` (C06.oddStrings: empty, blank-only, leading / trailing blanks, "
    "texts that read as an integer / half-integer float / boolean / null with and without blanks around them) as fact values and as "
    "condition literals — a literal is the alpha node's TEXT, typed by C06.classifyText as AlphaNode::parse_value_string does (no trimming); "
    "q-strings stay out of arithmetic expressions and array literals; no string equal to a field key",
    "exactness clause: fact contents are maps (one binding per field, as TypedFacts is a HashMap); at most max_iterations = 1000 rules",
]


def agree(case, impl, model):
    if impl == model:
        return True
    # two live facts of one type at some point: hash-order dependent details may differ; the oracle line already passed
    # DX: a value outside the modelled value domain showed up in the run (harness flag; the oracle answers `ok out_of_domain`)
    return impl.startswith("D0 ") or impl.startswith("DX ")


def classify(case, impl, model, oracle, kind):
    if kind == "oracle":
        return "oracle:" + oracle.replace("fail ", "").split("@")[0]
    return "diff"


LEVEL_TEXT = ("Lean 4 theorems (kernel-checked, unbounded histories) about an executable model of WorkingMemory and IncrementalEngine "
              "(with the agenda model of C07): the four views of working memory agree with `inserted and not retracted` after every "
              "history, handles are fresh and strictly increasing, every firing of fire_all has a live matched fact whose current contents "
              "satisfy the rule node (after fix-C06), fire_all is bounded; tied to the Rust code by a correspondence check on deterministic "
              "histories and by evaluating the Spec oracle on the implementation's observations of every history. The exactness clause "
              "is proved too (quiescent_fire_all_exact): for quiet no-loop rule sets, after ANY history (earlier fire_all calls and resets "
              "included) followed by calls other than fire_all that insert or update every live fact, fire_all fires every rule not yet "
              "fired since the last reset that a live fact of its type satisfies, each once, and no other rule, provided there are at most "
              "1000 rules (max_iterations; after fix-C06b only executed activations are counted, so stale or duplicate pending "
              "activations no longer matter; the bound itself is still needed: counterexample theorem). "
              "quiescent_fire_all_exact_after_firing drops the freshness hypothesis for every call that fires at least one rule (the global "
              "re-propagation after a firing queues every unfired rule on every live fact that satisfies it). The GRL loader is modelled by "
              "C06.loaderRule (loader_exact_on_grl_literals, loader_negation_kept, loader_negated_comparison_on_absent_field) and tied to "
              "src/rete/grl_loader.rs by running every case through GrlReteLoader in a second engine. The oracle "
              "clauses exactOk / exactAfterOk are evaluated on every applicable run of both engines. "
              "Reach audit 2: the rule language of the model now has arithmetic conditions (Node.test = matches_typed / "
              "evaluate_arithmetic_rete / evaluate_arithmetic_expr, after fix-C06e) and assignments whose right-hand side is an expression "
              "evaluated at FIRING time (Action.xsets / Action.resolve = execute_action / evaluate_expression_for_rete / src/expression.rs / "
              "value_to_fact_value, f64 rounding and saturating casts included); every theorem above is proved for that language, and "
              "ArithTheorems.lean adds: an action without expressions is what it was (resolve_literal_only), each expression sees the earlier "
              "assignments of the same firing (assignments_see_earlier_writes), the assignments depend on the matched fact's contents only "
              "(resolve_reads_contents_only), the fired fact holds the expression's value (fire_one_stores_expression_value), a failed "
              "evaluation stores the text (failed_expression_stores_its_text), an arithmetic condition over a missing field is false "
              "(test_missing_head_false), conditions use the standard precedence after fix-C06e (test_uses_standard_precedence; "
              "test_precedence_prefix_counterexample = F-C06e), and one touching call re-propagates the whole type "
              "(quiescent_fire_all_exact_by_type: the exactness clause holds as soon as the TYPE of every live fact was touched — an insert of "
              "the type, an update or retract of ANY live fact of the type — since the last fire_all, for all histories; oracle clause "
              "exactTypeOk; one_touch_repropagates_type_partial is the single-call case).")
LEVEL_NOTE = ("Trusted: Lean kernel + {propext, Classical.choice, Quot.sound}; hand-written model tied to the code by differential testing "
              "only; recorder closure mimics the GRL action closure. quiescent_fire_all_exact carries the explicit hypotheses: contents are maps (one "
              "binding per field), every live fact inserted/updated since the last fire_all, at most 1000 rules.")
DESIGN_REF = "§6 C06"
