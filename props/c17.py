ID = "C17"
THEOREMS = [
    "C17.is_proven_iff_spec",
    "C17.is_proven_iff_specH",
    "C17.run_eq_runH",
    "C17.node_valid_iff_spec",
    "C17.lookup_iff_spec",
    "C17.node_exists_iff_inserted",
    "C17.obs_eq",
    "C17.model_meets_spec",
    "C17.oracle_dead_iff",
    "C17.oracle_proven_iff",
    "C17.oracle_wf_iff",
    "C17.reproof_revives",
    "C17.insert_kills_nothing",
    "C17.propagate_terminates",
    "C17.descent_removes_justification",
    "C17.loopF_sound",
    "C17.runF_sound",
    "C17.legacy_counterexample",
    "C17.stale_justifications_do_not_prove",
    "C17.reverse_index_complete",
]
N = {"quick": 3000, "thorough": 40000}
EXHAUSTIVE = {"quick": False, "thorough": False}
RULE = ("cases = corpus + exhaustive families of well-formed histories up to renaming of handles (observations are taken after "
        "every operation, so every prefix is covered): quick = all histories of 3 ops over <=5 handles with <=2 premises (8638), "
        "4 ops/<=5 handles/<=1 premise (14885), 4 ops/<=3 handles/<=2 premises (49648), 6 ops/<=2 handles/<=1 premise (61502), and "
        "all 231528 well-formed histories of 6 ops from a 9-operation menu over 5 handles (chain, diamond, two justifications, "
        "re-proof, three invalidations; every insertion order); thorough = 4 ops/<=5 handles/<=2 premises (625728), "
        "5 ops/<=4 handles/<=1 premise (257958), 6 ops/<=2 handles/<=2 premises (222174), the menu family at 6 and at 7 ops (1584538); "
        "both tiers: all well-formed words of 7 ops (47819; thorough 8 ops: 249131) over the one-node menu D<-[P], D<-[Q], D<-[R], xD, xP, xQ, xR "
        "up to renaming of the premises; the constructive re-proof family (a node with k = 2..4 justifications — single premises or "
        "overlapping premise sets — each premise invalidated before the node is invalidated directly / while it is invalid / after "
        "it has been re-proved, in every combination; direct invalidation once, twice or not at all; re-proof through a fresh "
        "handle, without premises, or once more through a live premise; the final invalidations in EVERY order; premises optionally "
        "derived themselves (chains, inserted before or after the node's justifications, the root is invalidated); optional "
        "dependent: quick 14448, thorough 50400 histories, every fourth with foreign premise_keys); the premise_keys family "
        "(insert_proof's `premise_keys` argument — documented as human-readable tracing — drawn independently of the premises: "
        "absent, shorter at the end / at the front, only the first, longer, permuted, one key repeated, foreign, random; every "
        "mode x 1..3 premises x every invalidated premise position x dependent before/after x second justification, plus the "
        "8638 three-op histories once more with a random key mode per insertion; half of the random histories too; the model "
        "and the specification ignore the keys); "
        "+ N random well-formed histories of 1..9 (thorough 1..12) ops over 3..7 handles with 0..3 premises (duplicates, "
        "self-premises, shared keys, re-insertion under another key, dependents-first and premises-first styles). Handle ids are "
        "a random injection per case (varies HashSet iteration order). Each case is run on ProofGraph (real code) and on the Lean "
        "model; after every operation get_node(h).valid for every handle, is_proven(k) and lookup_by_key(k) for every key are "
        "diffed and compared with the history-only specification (Spec.specTrace). Non-trivial = an invalidation made at least "
        "one *other* cached proof invalid (the cascade acted); distinct = distinct case text.")
TRUSTED = [
    "Lean 4.33 kernel; axioms of every property theorem within {propext, Classical.choice, Quot.sound} (audited each run)",
    "hand-written model RreModel/C17/Model.lean tied to src/backward/proof_graph.rs by the correspondence check only (differential testing)",
    "harness/src/bin/c17.rs (incl. its own naive dead-set used only to generate well-formed histories; the Lean oracle re-checks well-formedness), Driver/C17.lean parsing/printing glue, check.py diff",
    "HashMap/HashSet are finite maps/sets; the order in which a HashSet of dependents is walked is a parameter of the model and the theorems hold for every order",
]
ASSUMPTIONS = [
    "FactHandle = u64 and FactKey modelled as Nat (the harness maps key number k to a fixed FactKey; distinct numbers give distinct keys)",
    "histories are well-formed: no handle that is dead (invalidated directly, or a cached proof that lost all its justifications) is used as a premise of a later insertion — the property's own restriction; ill-formed cases are skipped by the oracle (tag illformed)",
    "ProofGraph::clear and the statistics counters are outside the property",
]


def classify(case, impl, model, oracle, kind):
    if kind == "oracle":
        return "oracle:" + oracle.split("@")[0].replace("fail ", "")
    return "diff"


LEVEL_TEXT = ("Lean 4 theorems (kernel-checked, unbounded: every finite well-formed history of insert_proof / invalidate_handle, "
              "any handles, keys, premise lists, insertion orders, cycles, and every iteration order of the dependents sets) that the "
              "executable model of ProofGraph reports is_proven(k) / get_node(h).valid / lookup_by_key(k) exactly as the "
              "history-only specification prescribes (inductive Dead: invalidated directly or lost every justification; proven iff a "
              "live justification exists and not invalidated since the last insert), that re-proof revives, and that propagation "
              "terminates (well-founded on stored justifications); the executable oracle is proved equal to the inductive "
              "specification. Tied to src/backward/proof_graph.rs by a correspondence check (exhaustive short histories + random "
              "longer ones; observations after every operation) and by evaluating the specification on the implementation's observations.")
LEVEL_NOTE = ("Trusted: Lean kernel + {propext, Classical.choice, Quot.sound}; hand-written model tied to the code by differential "
              "testing only; harness/driver glue. Requires fix-C17 (global dependency index on every hop); the pre-fix behaviour is "
              "refuted in Lean on the legacy variant of the model (C17.legacy_counterexample) and by corpus/C17/witness.case on the code.")
DESIGN_REF = "§6 C17, §7 F-C17"
