//! Shared pieces of the correspondence harness: one PRNG, hex helpers, and the CLI every
//! per-property binary (`src/bin/cXX.rs`) exposes:
//!   cXX gen <seed> <n> <tier>   -> n (or more: exhaustive prefixes) case lines on stdout
//!   cXX exec                    -> one observation line per case line on stdin (real code, in-process)
//!   cXX shrink                  -> candidate smaller cases for the single case line on stdin
use std::io::{BufRead, Write};

/// splitmix64; every random choice of a run derives from one state
#[derive(Clone)]
pub struct Rng(pub u64);
impl Rng {
    pub fn new(seed: u64) -> Self {
        Rng(seed.wrapping_mul(0x9E3779B97F4A7C15) ^ 0xD1B54A32D192ED03)
    }
    pub fn next(&mut self) -> u64 {
        self.0 = self.0.wrapping_add(0x9E3779B97F4A7C15);
        let mut z = self.0;
        z = (z ^ (z >> 30)).wrapping_mul(0xBF58476D1CE4E5B9);
        z = (z ^ (z >> 27)).wrapping_mul(0x94D049BB133111EB);
        z ^ (z >> 31)
    }
    /// uniform in 0..n (n > 0)
    pub fn below(&mut self, n: u64) -> u64 {
        self.next() % n
    }
    pub fn range(&mut self, lo: u64, hi_incl: u64) -> u64 {
        lo + self.below(hi_incl - lo + 1)
    }
    pub fn chance(&mut self, num: u64, den: u64) -> bool {
        self.below(den) < num
    }
    pub fn pick<'a, T>(&mut self, xs: &'a [T]) -> &'a T {
        &xs[self.below(xs.len() as u64) as usize]
    }
    pub fn shuffle<T>(&mut self, xs: &mut [T]) {
        for i in (1..xs.len()).rev() {
            let j = self.below(i as u64 + 1) as usize;
            xs.swap(i, j);
        }
    }
}

pub fn hex(s: &str) -> String {
    if s.is_empty() {
        return "-".to_string();
    }
    s.bytes().map(|b| format!("{:02x}", b)).collect()
}
pub fn hex_bytes(bs: &[u8]) -> String {
    if bs.is_empty() {
        return "-".to_string();
    }
    bs.iter().map(|b| format!("{:02x}", b)).collect()
}
pub fn unhex_bytes(s: &str) -> Option<Vec<u8>> {
    if s == "-" {
        return Some(vec![]);
    }
    if s.len() % 2 != 0 {
        return None;
    }
    (0..s.len() / 2)
        .map(|i| u8::from_str_radix(&s[2 * i..2 * i + 2], 16).ok())
        .collect()
}
pub fn unhex(s: &str) -> Option<String> {
    String::from_utf8(unhex_bytes(s)?).ok()
}

pub fn join_nums<T: std::fmt::Display>(xs: &[T]) -> String {
    if xs.is_empty() {
        "-".to_string()
    } else {
        xs.iter().map(|x| x.to_string()).collect::<Vec<_>>().join(",")
    }
}
pub fn parse_nums<T: std::str::FromStr>(s: &str) -> Option<Vec<T>> {
    if s == "-" {
        return Some(vec![]);
    }
    s.split(',').map(|x| x.parse().ok()).collect()
}

pub struct Prop {
    /// produce the case lines for this run; `n` is the number of random cases wanted
    pub gen: fn(rng: &mut Rng, n: usize, tier: &str) -> Vec<String>,
    /// run the real implementation on one case and render the observation (one line)
    pub exec: fn(case: &str) -> String,
    /// smaller variants of a case, most aggressive first
    pub shrink: fn(case: &str) -> Vec<String>,
}

fn panic_msg(e: Box<dyn std::any::Any + Send>) -> String {
    if let Some(s) = e.downcast_ref::<&str>() {
        s.to_string()
    } else if let Some(s) = e.downcast_ref::<String>() {
        s.clone()
    } else {
        "?".to_string()
    }
}

/// `exec` guarded by catch_unwind: a panic inside the implementation is an observation
pub fn exec_guarded(f: fn(&str) -> String, case: &str) -> String {
    let c = case.to_string();
    match std::panic::catch_unwind(move || f(&c)) {
        Ok(s) => s,
        Err(e) => format!("panic:{}", hex(&panic_msg(e))),
    }
}

/// A `log` logger at Trace that formats every record into a null sink. `log` evaluates the arguments of `debug!`/`trace!`/`info!`
/// lines only when a logger with that level is installed (the default max level is Off): with this logger every log line of the
/// library is evaluated on every case, so a side effect hidden in a log argument (seeded change C13-15) is no longer invisible.
/// The properties must hold whatever logging configuration the host application uses. `VERIF_NO_LOGGER=1` switches it off.
struct SinkLogger;
struct Sink;
impl std::fmt::Write for Sink {
    fn write_str(&mut self, _: &str) -> std::fmt::Result {
        Ok(())
    }
}
impl log::Log for SinkLogger {
    fn enabled(&self, _: &log::Metadata) -> bool {
        true
    }
    fn log(&self, record: &log::Record) {
        let _ = std::fmt::Write::write_fmt(&mut Sink, *record.args());
    }
    fn flush(&self) {}
}
static SINK_LOGGER: SinkLogger = SinkLogger;

/// idempotent: a second call (or a logger installed by the binary itself) is not an error
pub fn install_sink_logger() {
    if std::env::var_os("VERIF_NO_LOGGER").is_none() && log::set_logger(&SINK_LOGGER).is_ok() {
        log::set_max_level(log::LevelFilter::Trace);
    }
}

pub fn main_with(p: Prop) {
    install_sink_logger();
    let args: Vec<String> = std::env::args().collect();
    let out = std::io::stdout();
    let mut out = std::io::BufWriter::new(out.lock());
    match args.get(1).map(|s| s.as_str()) {
        Some("gen") => {
            let seed: u64 = args.get(2).and_then(|s| s.parse().ok()).unwrap_or(1);
            let n: usize = args.get(3).and_then(|s| s.parse().ok()).unwrap_or(100);
            let tier = args.get(4).map(|s| s.as_str()).unwrap_or("quick");
            let mut rng = Rng::new(seed);
            for c in (p.gen)(&mut rng, n, tier) {
                writeln!(out, "{}", c).unwrap();
            }
        }
        Some("exec") => {
            std::panic::set_hook(Box::new(|_| {}));
            let stdin = std::io::stdin();
            for line in stdin.lock().lines() {
                let line = line.unwrap();
                let line = line.trim_end();
                if line.is_empty() {
                    continue;
                }
                writeln!(out, "{}", exec_guarded(p.exec, line)).unwrap();
                // flushed per case: if the process dies or hangs, the lines already printed tell check.py
                // exactly which case killed it
                out.flush().unwrap();
            }
        }
        Some("shrink") => {
            let mut line = String::new();
            std::io::stdin().lock().read_line(&mut line).unwrap();
            for c in (p.shrink)(line.trim_end()) {
                writeln!(out, "{}", c).unwrap();
            }
        }
        _ => {
            eprintln!("usage: gen <seed> <n> <tier> | exec | shrink");
            std::process::exit(2);
        }
    }
    out.flush().unwrap();
}

/// generic list shrinker: remove halves, then single elements
pub fn shrink_list<T: Clone>(xs: &[T]) -> Vec<Vec<T>> {
    let mut out = Vec::new();
    let n = xs.len();
    if n == 0 {
        return out;
    }
    if n > 1 {
        out.push(xs[..n / 2].to_vec());
        out.push(xs[n / 2..].to_vec());
    }
    for i in 0..n {
        let mut v = xs.to_vec();
        v.remove(i);
        out.push(v);
    }
    out
}
