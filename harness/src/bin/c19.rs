//! C19 — ParallelRuleEngine::execute_parallel against the engine's own sequential path.
//!
//! case := `<enabled:0|1> <max_threads> <min_rules_per_thread> <reps> <pseed> <facts> <rules>`
//!   facts := `-` | `name=int,name=int,…`      (a dotted name `U.x` is field `x` of object fact `U`)
//!   rules := rule;rule;…   rule := `name/salience/enabled/cond/acts`   (KB insertion order)
//!   cond  := RPN tokens joined by `_` : `L:<field>:<op>:<int>` (op ∈ eq ne gt ge lt le) | `R:<field>:<op>:<field>`
//!            (right-hand side = Value::String naming a field) | `A` and | `O` or
//!            | `N` not | `X` (Compound with LogicalOperator::Not, which the parallel evaluator answers false)
//!   acts  := `-` | `field=int,…`               (ActionType::Set — the typed core's assignments)
//! obs  := `S:<run> P:<run> P:<run> …`  S = same engine with `enabled=false` (its sequential path),
//!          P = the configured engine, first unperturbed, then `reps` runs under seeded schedule points
//!   run  := `ok/<total_rules_evaluated>/<total_rules_fired>/<name=0|1,…>/<facts after, sorted>`
//!          | `err` | `panic` | `timeout` (watchdog: the call did not return within 8 s) | `timeout-skipped`
use rre_harness::*;
use rust_rule_engine::engine::facts::Facts;
use rust_rule_engine::engine::knowledge_base::KnowledgeBase;
use rust_rule_engine::engine::parallel::{ParallelConfig, ParallelRuleEngine};
use rust_rule_engine::engine::rule::{Condition, ConditionGroup, Rule};
use rust_rule_engine::types::{ActionType, LogicalOperator, Operator, Value};
use std::collections::{BTreeMap, HashMap};
use std::sync::mpsc;
use std::time::Duration;

#[derive(Clone, Debug)]
enum Tok {
    Leaf(String, String, i64),
    Ref(String, String, String),
    And,
    Or,
    Not,
    XNot,
}

#[derive(Clone, Debug)]
struct RuleSpec {
    name: String,
    sal: i32,
    en: bool,
    cond: Vec<Tok>,
    acts: Vec<(String, i64)>,
}

#[derive(Clone, Debug)]
struct Case {
    en: bool,
    mt: usize,
    mr: usize,
    reps: usize,
    pseed: u64,
    facts: Vec<(String, i64)>,
    rules: Vec<RuleSpec>,
}

fn parse_kv(s: &str) -> Option<Vec<(String, i64)>> {
    if s == "-" {
        return Some(vec![]);
    }
    s.split(',')
        .map(|kv| {
            let (k, v) = kv.split_once('=')?;
            Some((k.to_string(), v.parse().ok()?))
        })
        .collect()
}

fn show_kv(kv: &[(String, i64)]) -> String {
    if kv.is_empty() {
        "-".into()
    } else {
        kv.iter().map(|(k, v)| format!("{}={}", k, v)).collect::<Vec<_>>().join(",")
    }
}

fn parse_cond(s: &str) -> Option<Vec<Tok>> {
    s.split('_')
        .map(|t| match t {
            "A" => Some(Tok::And),
            "O" => Some(Tok::Or),
            "N" => Some(Tok::Not),
            "X" => Some(Tok::XNot),
            _ => {
                let p: Vec<&str> = t.split(':').collect();
                if p.len() == 4 && p[0] == "L" {
                    Some(Tok::Leaf(p[1].to_string(), p[2].to_string(), p[3].parse().ok()?))
                } else if p.len() == 4 && p[0] == "R" {
                    Some(Tok::Ref(p[1].to_string(), p[2].to_string(), p[3].to_string()))
                } else {
                    None
                }
            }
        })
        .collect()
}

fn show_cond(c: &[Tok]) -> String {
    c.iter()
        .map(|t| match t {
            Tok::And => "A".to_string(),
            Tok::Or => "O".to_string(),
            Tok::Not => "N".to_string(),
            Tok::XNot => "X".to_string(),
            Tok::Leaf(f, o, v) => format!("L:{}:{}:{}", f, o, v),
            Tok::Ref(f, o, g) => format!("R:{}:{}:{}", f, o, g),
        })
        .collect::<Vec<_>>()
        .join("_")
}

fn parse_rule(s: &str) -> Option<RuleSpec> {
    let p: Vec<&str> = s.split('/').collect();
    if p.len() != 5 {
        return None;
    }
    Some(RuleSpec {
        name: p[0].to_string(),
        sal: p[1].parse().ok()?,
        en: p[2] == "1",
        cond: parse_cond(p[3])?,
        acts: parse_kv(p[4])?,
    })
}

fn show_rule(r: &RuleSpec) -> String {
    format!("{}/{}/{}/{}/{}", r.name, r.sal, r.en as u8, show_cond(&r.cond), show_kv(&r.acts))
}

fn parse_case(line: &str) -> Option<Case> {
    let t: Vec<&str> = line.split_whitespace().collect();
    if t.len() != 7 {
        return None;
    }
    let rules = if t[6] == "-" {
        vec![]
    } else {
        t[6].split(';').map(parse_rule).collect::<Option<Vec<_>>>()?
    };
    Some(Case {
        en: t[0] == "1",
        mt: t[1].parse().ok()?,
        mr: t[2].parse().ok()?,
        reps: t[3].parse().ok()?,
        pseed: t[4].parse().ok()?,
        facts: parse_kv(t[5])?,
        rules,
    })
}

fn show_case(c: &Case) -> String {
    let rules = if c.rules.is_empty() {
        "-".to_string()
    } else {
        c.rules.iter().map(show_rule).collect::<Vec<_>>().join(";")
    };
    format!("{} {} {} {} {} {} {}", c.en as u8, c.mt, c.mr, c.reps, c.pseed, show_kv(&c.facts), rules)
}

fn op_of(s: &str) -> Option<Operator> {
    Some(match s {
        "eq" => Operator::Equal,
        "ne" => Operator::NotEqual,
        "gt" => Operator::GreaterThan,
        "ge" => Operator::GreaterThanOrEqual,
        "lt" => Operator::LessThan,
        "le" => Operator::LessThanOrEqual,
        _ => return None,
    })
}

fn build_cond(toks: &[Tok]) -> Option<ConditionGroup> {
    let mut st: Vec<ConditionGroup> = Vec::new();
    for t in toks {
        match t {
            Tok::Leaf(f, o, v) => st.push(ConditionGroup::single(Condition::new(
                f.clone(),
                op_of(o)?,
                Value::Integer(*v),
            ))),
            Tok::Ref(f, o, g) => st.push(ConditionGroup::single(Condition::new(
                f.clone(),
                op_of(o)?,
                Value::String(g.clone()),
            ))),
            Tok::Not => {
                let a = st.pop()?;
                st.push(ConditionGroup::not(a));
            }
            Tok::And | Tok::Or | Tok::XNot => {
                let r = st.pop()?;
                let l = st.pop()?;
                st.push(match t {
                    Tok::And => ConditionGroup::and(l, r),
                    Tok::Or => ConditionGroup::or(l, r),
                    _ => ConditionGroup::Compound {
                        left: Box::new(l),
                        operator: LogicalOperator::Not,
                        right: Box::new(r),
                    },
                });
            }
        }
    }
    if st.len() == 1 {
        st.pop()
    } else {
        None
    }
}

fn build_facts(kv: &[(String, i64)]) -> Facts {
    let facts = Facts::new();
    let mut objs: BTreeMap<String, HashMap<String, Value>> = BTreeMap::new();
    for (k, v) in kv {
        match k.split_once('.') {
            Some((root, field)) => {
                objs.entry(root.to_string()).or_default().insert(field.to_string(), Value::Integer(*v));
            }
            None => {
                facts.add_value(k, Value::Integer(*v)).unwrap();
            }
        }
    }
    for (root, m) in objs {
        facts.add_value(&root, Value::Object(m)).unwrap();
    }
    facts
}

fn show_value(prefix: &str, v: &Value, out: &mut Vec<String>) {
    match v {
        Value::Integer(i) => out.push(format!("{}={}", prefix, i)),
        Value::Object(m) => {
            for (k, x) in m {
                show_value(&format!("{}.{}", prefix, k), x, out);
            }
        }
        other => out.push(format!("{}=?{}", prefix, hex(&format!("{:?}", other)))),
    }
}

fn show_facts(f: &Facts) -> String {
    let mut out = Vec::new();
    for (k, v) in f.get_all_facts() {
        show_value(&k, &v, &mut out);
    }
    out.sort();
    if out.is_empty() {
        "-".into()
    } else {
        out.join(",")
    }
}

static TIMEOUTS: std::sync::atomic::AtomicUsize = std::sync::atomic::AtomicUsize::new(0);

/// one call of the real `execute_parallel` on a fresh knowledge base and fresh facts,
/// guarded by a watchdog ("it always returns")
fn run_once(c: &Case, enabled: bool, sched_seed: u64) -> String {
    // once three calls have hung in this process, further calls that may spawn workers are not attempted
    // (each would cost the full watchdog time); the hang has been reported by then
    if enabled && TIMEOUTS.load(std::sync::atomic::Ordering::SeqCst) >= 3 {
        return "timeout-skipped".into();
    }
    // read by the `#[cfg(rre_verif)]` schedule points of src/engine/parallel.rs (hooks-C19.patch);
    // without the hook the variable is simply ignored
    std::env::set_var("RRE_VERIF_SCHED", sched_seed.to_string());
    let c = c.clone();
    let (tx, rx) = mpsc::channel();
    std::thread::spawn(move || {
        let kb = KnowledgeBase::new("c19");
        for r in &c.rules {
            let Some(cond) = build_cond(&r.cond) else {
                let _ = tx.send("bad-cond".to_string());
                return;
            };
            let acts = r
                .acts
                .iter()
                .map(|(f, v)| ActionType::Set { field: f.clone(), value: Value::Integer(*v) })
                .collect();
            let mut rule = Rule::new(r.name.clone(), cond, acts).with_salience(r.sal);
            rule.enabled = r.en;
            if kb.add_rule(rule).is_err() {
                let _ = tx.send("err-add".to_string());
                return;
            }
        }
        let facts = build_facts(&c.facts);
        let engine = ParallelRuleEngine::new(ParallelConfig {
            enabled,
            max_threads: c.mt,
            min_rules_per_thread: c.mr,
            dependency_analysis: true,
        });
        let r = std::panic::catch_unwind(std::panic::AssertUnwindSafe(|| engine.execute_parallel(&kb, &facts, false)));
        let s = match r {
            Err(_) => "panic".to_string(),
            Ok(Err(_)) => "err".to_string(),
            Ok(Ok(res)) => {
                let ctxs: Vec<String> = res
                    .execution_contexts
                    .iter()
                    .map(|x| format!("{}={}", x.rule.name, x.fired as u8))
                    .collect();
                format!(
                    "ok/{}/{}/{}/{}",
                    res.total_rules_evaluated,
                    res.total_rules_fired,
                    if ctxs.is_empty() { "-".to_string() } else { ctxs.join(",") },
                    show_facts(&facts)
                )
            }
        };
        let _ = tx.send(s);
    });
    match rx.recv_timeout(Duration::from_secs(8)) {
        Ok(s) => s,
        Err(mpsc::RecvTimeoutError::Timeout) => {
            TIMEOUTS.fetch_add(1, std::sync::atomic::Ordering::SeqCst);
            "timeout".into()
        }
        Err(mpsc::RecvTimeoutError::Disconnected) => "panic".into(),
    }
}

fn exec(case: &str) -> String {
    let Some(c) = parse_case(case) else { return "bad-case".into() };
    let mut out = vec![format!("S:{}", run_once(&c, false, 0))];
    out.push(format!("P:{}", run_once(&c, c.en, 0)));
    for j in 0..c.reps {
        let seed = c.pseed.wrapping_mul(1_000_003).wrapping_add(j as u64 + 1) | 1;
        // contention cases (many repetitions): every other run is unperturbed, so that workers that start
        // together also finish together (races on shared counters need simultaneous, not staggered, workers)
        let seed = if c.reps >= 50 && j % 2 == 1 { 0 } else { seed };
        out.push(format!("P:{}", run_once(&c, c.en, seed)));
    }
    out.join(" ")
}

// ------------------------------------------------------------------ generator

const FIELDS: [&str; 7] = ["a", "b", "c", "d", "U.x", "U.y", "zz"]; // `zz` is never given a value
const OPS: [&str; 6] = ["eq", "ne", "gt", "ge", "lt", "le"];

fn gen_cond(rng: &mut Rng, depth: u32, out: &mut Vec<Tok>) {
    if depth == 0 || rng.chance(2, 5) {
        let f = *rng.pick(&FIELDS);
        let o = *rng.pick(&OPS);
        if rng.chance(1, 4) {
            // right-hand side names another field (Value::String resolved against the facts)
            out.push(Tok::Ref(f.to_string(), o.to_string(), rng.pick(&FIELDS).to_string()));
        } else {
            out.push(Tok::Leaf(f.to_string(), o.to_string(), rng.below(5) as i64 - 2));
        }
        return;
    }
    match rng.below(20) {
        0..=7 => {
            gen_cond(rng, depth - 1, out);
            gen_cond(rng, depth - 1, out);
            out.push(Tok::And);
        }
        8..=14 => {
            gen_cond(rng, depth - 1, out);
            gen_cond(rng, depth - 1, out);
            out.push(Tok::Or);
        }
        15..=18 => {
            gen_cond(rng, depth - 1, out);
            out.push(Tok::Not);
        }
        _ => {
            gen_cond(rng, depth - 1, out);
            gen_cond(rng, depth - 1, out);
            out.push(Tok::XNot);
        }
    }
}

fn gen_case(rng: &mut Rng, reps: usize) -> Case {
    let n = match rng.below(10) {
        0 => rng.range(1, 3),
        1..=3 => rng.range(2, 8),
        _ => rng.range(1, 24),
    } as usize;
    let sal_dom = *rng.pick(&[1u64, 2, 2, 3, 4]);
    let mut facts = Vec::new();
    for f in &FIELDS[..6] {
        if rng.chance(4, 5) {
            facts.push((f.to_string(), rng.below(5) as i64 - 2));
        }
    }
    let p_enabled = *rng.pick(&[100u64, 100, 85, 60]);
    let mut rules = Vec::new();
    for i in 0..n {
        let mut cond = Vec::new();
        gen_cond(rng, 3, &mut cond);
        let mut acts = Vec::new();
        for _ in 0..rng.below(3) {
            // assignments that *would* change other rules' verdicts if the engine performed them
            acts.push((rng.pick(&FIELDS[..6]).to_string(), rng.below(5) as i64 - 2 + 10));
        }
        rules.push(RuleSpec {
            name: format!("r{}", i),
            sal: rng.below(sal_dom) as i32 * 5 - 5,
            en: rng.below(100) < p_enabled,
            cond,
            acts,
        });
    }
    Case {
        en: !rng.chance(1, 7),
        mt: if rng.chance(1, 4) { rng.range(1, 3) } else { rng.range(1, 16) } as usize,
        mr: rng.range(1, 4) as usize,
        reps,
        pseed: rng.next() % 1_000_000,
        facts,
        rules,
    }
}

fn gen(rng: &mut Rng, n: usize, tier: &str) -> Vec<String> {
    let reps = if tier == "thorough" { 4 } else { 3 };
    let mut out = Vec::new();
    // systematic part: every (n, max_threads) chunking shape on one salience level, min_rules 1..4
    let (nmax, step) = if tier == "thorough" { (24usize, 1usize) } else { (24usize, 3usize) };
    let mut n_rules = 1;
    while n_rules <= nmax {
        for mt in 1..=16usize {
            if tier != "thorough" && !(mt <= 5 || mt == n_rules || mt + 1 == n_rules || mt == n_rules + 1 || mt == 16 || mt == 8) {
                continue;
            }
            let mut c = gen_case(rng, 1);
            c.en = true;
            c.mt = mt;
            c.mr = 1 + (n_rules + mt) % 4;
            c.rules.truncate(n_rules);
            while c.rules.len() < n_rules {
                let mut more = gen_case(rng, 1).rules;
                for r in more.drain(..) {
                    if c.rules.len() < n_rules {
                        c.rules.push(r);
                    }
                }
            }
            for (i, r) in c.rules.iter_mut().enumerate() {
                r.name = format!("r{}", i);
                r.sal = 0;
                r.en = true;
            }
            out.push(show_case(&c));
        }
        n_rules += step;
    }
    // contention family: one salience level of 16..24 rules that all fire, one rule per worker, many repetitions
    // (a lost update on a shared tally or result vector needs workers that finish at the same instant)
    let (ncont, creps) = if tier == "thorough" { (40usize, 200usize) } else { (12usize, 100usize) };
    for k in 0..ncont {
        let mut c = gen_case(rng, creps);
        c.en = true;
        c.mt = 16;
        c.mr = 1;
        c.reps = creps;
        c.facts = vec![("a".to_string(), 1)];
        let n_rules = 16 + (k % 9);
        c.rules = (0..n_rules)
            .map(|i| RuleSpec {
                name: format!("r{}", i),
                sal: 0,
                en: true,
                cond: vec![Tok::Leaf("a".to_string(), if i % 5 == 4 { "lt" } else { "ge" }.to_string(), 1)],
                acts: vec![],
            })
            .collect();
        out.push(show_case(&c));
    }
    for _ in 0..n {
        out.push(show_case(&gen_case(rng, reps)));
    }
    out
}

fn shrink(case: &str) -> Vec<String> {
    let Some(c) = parse_case(case) else { return vec![] };
    let mut out = Vec::new();
    for rs in shrink_list(&c.rules) {
        if !rs.is_empty() {
            let mut d = c.clone();
            d.rules = rs;
            out.push(show_case(&d));
        }
    }
    if c.mt > 1 {
        for mt in [1, c.mt / 2, c.mt - 1] {
            if mt >= 1 && mt != c.mt {
                let mut d = c.clone();
                d.mt = mt;
                out.push(show_case(&d));
            }
        }
    }
    if c.mr > 1 {
        let mut d = c.clone();
        d.mr = c.mr - 1;
        out.push(show_case(&d));
    }
    if c.reps > 0 {
        let mut d = c.clone();
        d.reps = 0;
        out.push(show_case(&d));
    }
    for i in 0..c.rules.len() {
        if c.rules[i].cond.len() > 1 {
            // replace the condition by one of its leaves
            for t in &c.rules[i].cond {
                if matches!(t, Tok::Leaf(..) | Tok::Ref(..)) {
                    let mut d = c.clone();
                    d.rules[i].cond = vec![t.clone()];
                    out.push(show_case(&d));
                    break;
                }
            }
        }
        if !c.rules[i].acts.is_empty() {
            let mut d = c.clone();
            d.rules[i].acts.clear();
            out.push(show_case(&d));
        }
        if c.rules[i].sal != 0 {
            let mut d = c.clone();
            d.rules[i].sal = 0;
            out.push(show_case(&d));
        }
    }
    for fs in shrink_list(&c.facts) {
        let mut d = c.clone();
        d.facts = fs;
        out.push(show_case(&d));
    }
    out
}

fn main() {
    main_with(Prop { gen, exec, shrink });
}
