//! C19 — ParallelRuleEngine::execute_parallel against the engine's own sequential path.
//!
//! case := `<enabled:0|1> <max_threads> <min_rules_per_thread> <reps> <pseed> <facts> <rules> [d<k> (<facts> <rules>)*]`
//!   facts := `-` | `name=V,name=V,…`          (a dotted name `U.x` is field `x` of object fact `U`; `~U.x` is the FLAT
//!            top-level fact whose key is spelled `U.x` — `facts.add_value("U.x", v)` — which may coexist with the object
//!            field of the same spelling and hold another value: the evaluator reads the nested field first)
//!   V     := `<int>` Value::Integer | `f<int>` Value::Number(<int> as f64) | `b0`/`b1` Value::Boolean | `s<text>` Value::String
//!   rules := rule;rule;…   rule := `name/salience/enabled/cond/acts`   (KB insertion order)
//!   cond  := RPN tokens joined by `_` : `L:<field>:<op>:<int|f<int>|b0|b1>` (op ∈ eq ne gt ge lt le)
//!            | `R:<field>:<op>:<text>` (right-hand side = Value::String: the evaluator resolves it as a field name first,
//!            otherwise it is that string literal — `25`, `true` …) | `A` and | `O` or
//!            | `E:<field>:<op>:<name|name+k|name-k|name*k>` (right-hand side = Value::Expression — what the GRL parser
//!            makes of `a > b`, `a > U.x`, `a > b + 1`: evaluated by expression::evaluate_expression, which reads the
//!            FLAT key first) | `N` not | `X` (Compound with LogicalOperator::Not, which the parallel evaluator answers false)
//!            op also ∈ ct (contains) nc (not_contains) sw (startsWith) ew (endsWith) mt (matches) in
//!   acts  := `-` | item,…   item := `field=int` (ActionType::Set) | mcall | log | retract | append | custom (a Custom action
//!            whose function nobody registered) | agenda | sched | wfdone | wfdata   (every ActionType there is)
//!   d<k>  := flags. bit 0 / bit 1 = debug_mode of the configured engine's / the sequential engine's calls (debug output
//!            goes to fd 1, which `exec` points at /dev/null); bit 2 = the engines are built from
//!            `ParallelConfig::default()` (only max_threads — and `enabled` of the sequential reference — overridden; the case
//!            must say enabled=1, min_rules=2, which is what the default is documented and tested to be); bits 3-4 = how the
//!            facts are built: 0 add_value, 1 set + create_object + set_nested, 2 from_context, 3 add_value into a scratch
//!            store, then merge into a store that had a decoy key added and removed, snapshot, clear, restore
//!            the token may carry a SLOW-WORKER suffix `w<worker>.<step|p>.<ms>`: in every perturbed repetition worker
//!            <worker> of the first parallelised level sleeps <ms> ms at its schedule point in front of its <step>-th rule
//!            (0 = before it evaluates its chunk) or at the one in front of the critical section (`p` = before it publishes
//!            its results), the other workers run freely (see `sched_yield` below: the repository's hook is unchanged)
//!   rule name := plain word | `%L<pad>.<w>.<k>` = <pad> bytes `a` followed by <k> characters of <w> UTF-8 bytes (1 `b`,
//!            2 `é`, 3 `請`, 4 `𝄞`) | `%h<hex>` = any UTF-8 text (`%h-` the empty name).  Distinct tokens must decode to
//!            distinct names; the SAME token twice in one knowledge base is a duplicate name, which `add_rule` rejects
//!            (that rule is then not in the knowledge base).  Observations print the token, not the decoded name.
//!   a dotted name may be deeper than one level (`U.p.q`: object `U` holds object `p` holds `q`)
//!   every further `<facts> <rules>` pair is one more *stage*: a different KnowledgeBase object with the SAME name and
//!   other facts, run through the SAME two engine objects (one `ParallelRuleEngine` per configuration lives for the
//!   whole case: all stages, all repetitions)
//! obs  := stage ` ;; ` stage …     stage := `S:<run> P:<run> P:<run> …`  S = the engine with `enabled=false` (its
//!          sequential path), P = the configured engine, first unperturbed, then `reps` runs under seeded schedule points
//!   run  := `ok/<total_rules_evaluated>/<total_rules_fired>/<name=0|1,…>/<facts after, sorted>`
//!          | `badstats/…` (the two counters printed by `ParallelExecutionResult::get_stats` are not the fields)
//!          | `err` | `panic` | `timeout` (watchdog: the call did not return within 8 s) | `timeout-skipped`
//!          | `slow-not-taken` (a slow-worker run in which no worker reached the chosen schedule point: harness self-check)
use rre_harness::*;
use rust_rule_engine::engine::facts::Facts;
use rust_rule_engine::engine::knowledge_base::KnowledgeBase;
use rust_rule_engine::engine::parallel::{ParallelConfig, ParallelRuleEngine};
use rust_rule_engine::engine::rule::{Condition, ConditionGroup, Rule};
use rust_rule_engine::types::{ActionType, LogicalOperator, Operator, Value};
use std::collections::{BTreeMap, HashMap};
use std::io::{BufRead, Write};
use std::sync::atomic::{AtomicBool, AtomicU64, Ordering};
use std::sync::{mpsc, Arc};
use std::time::Duration;

/// the scalar values of the typed core; `F(i)` is the integral float `i as f64` (floats are never written as decimals)
#[derive(Clone, Debug, PartialEq)]
enum Val {
    I(i64),
    F(i64),
    B(bool),
    S(String),
}

const MAX_MAG: i64 = 1 << 53; // `i as f64` is exact up to here

fn parse_int(s: &str) -> Option<i64> {
    if s.starts_with('+') {
        return None;
    }
    let i: i64 = s.parse().ok()?;
    if (-MAX_MAG..=MAX_MAG).contains(&i) {
        Some(i)
    } else {
        None
    }
}

/// a string literal of the grammar: a decimal integer (optional `-`), or a word that Rust's f64 parser rejects —
/// so that `Value::to_number` of a string is decided by its spelling alone
fn valid_text(s: &str) -> bool {
    if s.is_empty() || s.chars().any(|c| c.is_whitespace() || ":_/;,=|".contains(c)) {
        return false;
    }
    let digits = s.strip_prefix('-').unwrap_or(s);
    if !digits.is_empty() && digits.bytes().all(|b| b.is_ascii_digit()) {
        return parse_int(s).is_some();
    }
    s.parse::<f64>().is_err() && !s.starts_with(|c: char| c.is_ascii_digit() || c == '.' || c == '+' || c == '-')
}

fn parse_scalar(s: &str) -> Option<Val> {
    match s {
        "b0" => Some(Val::B(false)),
        "b1" => Some(Val::B(true)),
        _ => match s.strip_prefix('f') {
            Some(r) => parse_int(r).map(Val::F),
            None => parse_int(s).map(Val::I),
        },
    }
}

fn parse_val(s: &str) -> Option<Val> {
    match s.strip_prefix('s') {
        Some(t) => valid_text(t).then(|| Val::S(t.to_string())),
        None => parse_scalar(s),
    }
}

fn show_val(v: &Val) -> String {
    match v {
        Val::I(i) => i.to_string(),
        Val::F(i) => format!("f{}", i),
        Val::B(b) => format!("b{}", *b as u8),
        Val::S(t) => format!("s{}", t),
    }
}

fn to_value(v: &Val) -> Value {
    match v {
        Val::I(i) => Value::Integer(*i),
        Val::F(i) => Value::Number(*i as f64),
        Val::B(b) => Value::Boolean(*b),
        Val::S(t) => Value::String(t.clone()),
    }
}

#[derive(Clone, Debug)]
enum Tok {
    Leaf(String, String, Val),
    Ref(String, String, String),
    /// field, op, expression text (`Value::Expression`)
    Expr(String, String, String),
    And,
    Or,
    Not,
    XNot,
}

#[derive(Clone, Debug, PartialEq)]
enum Act {
    Set(String, i64),
    /// one of ACT_KINDS
    Kind(String),
}

const ACT_KINDS: [&str; 9] = ["mcall", "log", "retract", "append", "custom", "agenda", "sched", "wfdone", "wfdata"];

/// a field name usable as an expression atom: letters, digits, dots; starts with a letter; not inf / nan / infinity
fn plain_name(s: &str) -> bool {
    s.starts_with(|c: char| c.is_ascii_alphabetic())
        && s.chars().all(|c| c.is_ascii_alphanumeric() || c == '.')
        && !["inf", "infinity", "nan"].contains(&s.to_ascii_lowercase().as_str())
}

/// `name` | `name+k` | `name-k` | `name*k`; Some(is_arithmetic)
fn valid_expr(t: &str) -> Option<bool> {
    match t.find(|c| c == '+' || c == '-' || c == '*') {
        None => plain_name(t).then_some(false),
        Some(i) => {
            let (n, k) = (&t[..i], &t[i + 1..]);
            let ok = plain_name(n) && !k.is_empty() && k.len() <= 7 && k.bytes().all(|b| b.is_ascii_digit());
            (ok && k.parse::<u64>().ok()? <= 1 << 20).then_some(true)
        }
    }
}

#[derive(Clone, Debug)]
struct RuleSpec {
    name: String,
    sal: i32,
    en: bool,
    cond: Vec<Tok>,
    acts: Vec<Act>,
}

/// one knowledge base + the facts it is run on
#[derive(Clone, Debug)]
struct Stage {
    facts: Vec<(String, Val)>,
    rules: Vec<RuleSpec>,
}

#[derive(Clone, Debug)]
struct Case {
    en: bool,
    mt: usize,
    mr: usize,
    reps: usize,
    pseed: u64,
    facts: Vec<(String, Val)>,
    rules: Vec<RuleSpec>,
    /// flags: bit 0 = debug_mode of the configured engine, bit 1 = of the sequential engine, bit 2 = default config,
    /// bits 3-4 = facts builder
    dbg: u8,
    /// further stages run through the same engine objects
    more: Vec<Stage>,
    /// slow-worker family: (worker, Some(step) | None = before publishing, milliseconds)
    slow: Option<(usize, Option<usize>, u64)>,
}

/// the characters `%L` names are made of, by UTF-8 width
const WIDE: [&str; 4] = ["b", "\u{e9}", "\u{8acb}", "\u{1d11e}"];

/// the rule name a name token stands for
fn real_name(tok: &str) -> Option<String> {
    if let Some(spec) = tok.strip_prefix("%L") {
        let p: Vec<&str> = spec.split('.').collect();
        if p.len() != 3 || p.iter().any(|x| x.is_empty() || x.len() > 5 || !x.bytes().all(|b| b.is_ascii_digit())) {
            return None;
        }
        let (pad, w, k): (usize, usize, usize) = (p[0].parse().ok()?, p[1].parse().ok()?, p[2].parse().ok()?);
        if !(1..=4).contains(&w) || pad + w * k > 70_000 {
            return None;
        }
        Some("a".repeat(pad) + &WIDE[w - 1].repeat(k))
    } else if let Some(h) = tok.strip_prefix("%h") {
        unhex(h)
    } else if tok.is_empty() || tok.contains(|c: char| ",=|%?".contains(c)) {
        None
    } else {
        Some(tok.to_string())
    }
}

/// every name token decodes, and two different tokens never stand for the same name
fn names_ok(sts: &[Stage]) -> bool {
    sts.iter().all(|st| {
        let mut seen: HashMap<String, &str> = HashMap::new();
        st.rules.iter().all(|r| match real_name(&r.name) {
            None => false,
            Some(n) => *seen.entry(n).or_insert(r.name.as_str()) == r.name.as_str(),
        })
    })
}

fn parse_slow(s: &str) -> Option<(usize, Option<usize>, u64)> {
    let p: Vec<&str> = s.split('.').collect();
    if p.len() != 3 {
        return None;
    }
    let step = if p[1] == "p" { None } else { Some(p[1].parse::<usize>().ok().filter(|s| *s < 64)?) };
    let (w, ms): (usize, u64) = (p[0].parse().ok()?, p[2].parse().ok()?);
    (w < 64 && ms >= 1 && ms <= 5000).then_some((w, step, ms))
}

fn show_slow(sl: &(usize, Option<usize>, u64)) -> String {
    format!("w{}.{}.{}", sl.0, sl.1.map(|s| s.to_string()).unwrap_or("p".into()), sl.2)
}

fn parse_facts(s: &str) -> Option<Vec<(String, Val)>> {
    if s == "-" {
        return Some(vec![]);
    }
    s.split(',')
        .map(|kv| {
            let (k, v) = kv.split_once('=')?;
            // `~` marks a flat key and is only meaningful (and only admitted) in front of a dotted name
            if k.contains('~') && !(k.starts_with('~') && !k[1..].contains('~') && k.contains('.')) {
                return None;
            }
            Some((k.to_string(), parse_val(v)?))
        })
        .collect()
}

fn show_facts_kv(kv: &[(String, Val)]) -> String {
    if kv.is_empty() {
        "-".into()
    } else {
        kv.iter().map(|(k, v)| format!("{}={}", k, show_val(v))).collect::<Vec<_>>().join(",")
    }
}

fn parse_kv(s: &str) -> Option<Vec<Act>> {
    if s == "-" {
        return Some(vec![]);
    }
    s.split(',')
        .map(|kv| match kv.split_once('=') {
            Some((k, v)) => Some(Act::Set(k.to_string(), v.parse().ok()?)),
            None => ACT_KINDS.contains(&kv).then(|| Act::Kind(kv.to_string())),
        })
        .collect()
}

fn show_kv(kv: &[Act]) -> String {
    if kv.is_empty() {
        "-".into()
    } else {
        kv.iter()
            .map(|a| match a {
                Act::Set(k, v) => format!("{}={}", k, v),
                Act::Kind(k) => k.clone(),
            })
            .collect::<Vec<_>>()
            .join(",")
    }
}

fn parse_cond(s: &str) -> Option<Vec<Tok>> {
    s.split('_')
        .map(|t| match t {
            "A" => Some(Tok::And),
            "O" => Some(Tok::Or),
            "N" => Some(Tok::Not),
            "X" => Some(Tok::XNot),
            _ => {
                let p: Vec<&str> = t.split(':').collect();
                if p.len() == 4 && p[0] == "L" {
                    Some(Tok::Leaf(p[1].to_string(), p[2].to_string(), parse_scalar(p[3])?))
                } else if p.len() == 4 && p[0] == "R" && valid_text(p[3]) {
                    Some(Tok::Ref(p[1].to_string(), p[2].to_string(), p[3].to_string()))
                } else if p.len() == 4 && p[0] == "E" && valid_expr(p[3]).is_some() {
                    Some(Tok::Expr(p[1].to_string(), p[2].to_string(), p[3].to_string()))
                } else {
                    None
                }
            }
        })
        .collect()
}

fn show_cond(c: &[Tok]) -> String {
    c.iter()
        .map(|t| match t {
            Tok::And => "A".to_string(),
            Tok::Or => "O".to_string(),
            Tok::Not => "N".to_string(),
            Tok::XNot => "X".to_string(),
            Tok::Leaf(f, o, v) => format!("L:{}:{}:{}", f, o, show_val(v)),
            Tok::Ref(f, o, g) => format!("R:{}:{}:{}", f, o, g),
            Tok::Expr(f, o, t) => format!("E:{}:{}:{}", f, o, t),
        })
        .collect::<Vec<_>>()
        .join("_")
}

fn parse_rule(s: &str) -> Option<RuleSpec> {
    let p: Vec<&str> = s.split('/').collect();
    if p.len() != 5 {
        return None;
    }
    Some(RuleSpec {
        name: p[0].to_string(),
        sal: p[1].parse().ok()?,
        en: p[2] == "1",
        cond: parse_cond(p[3])?,
        acts: parse_kv(p[4])?,
    })
}

fn show_rule(r: &RuleSpec) -> String {
    format!("{}/{}/{}/{}/{}", r.name, r.sal, r.en as u8, show_cond(&r.cond), show_kv(&r.acts))
}

fn parse_rules(s: &str) -> Option<Vec<RuleSpec>> {
    if s == "-" {
        Some(vec![])
    } else {
        s.split(';').map(parse_rule).collect()
    }
}

fn show_rules(rs: &[RuleSpec]) -> String {
    if rs.is_empty() {
        "-".to_string()
    } else {
        rs.iter().map(show_rule).collect::<Vec<_>>().join(";")
    }
}

fn parse_case(line: &str) -> Option<Case> {
    let t: Vec<&str> = line.split_whitespace().collect();
    if t.len() != 7 && (t.len() < 8 || t.len() % 2 != 0) {
        return None;
    }
    let mut dbg = 0u8;
    let mut more = Vec::new();
    let mut slow = None;
    if t.len() >= 8 {
        let d = t[7].strip_prefix('d')?;
        let (d, sl) = match d.split_once('w') {
            Some((d, sl)) => (d, Some(sl)),
            None => (d, None),
        };
        if let Some(sl) = sl {
            slow = Some(parse_slow(sl)?);
        }
        if d.is_empty() || !d.bytes().all(|b| b.is_ascii_digit()) {
            return None;
        }
        dbg = d.parse().ok()?;
        if dbg > 31 {
            return None;
        }
        for pair in t[8..].chunks(2) {
            more.push(Stage { facts: parse_facts(pair[0])?, rules: parse_rules(pair[1])? });
        }
    }
    let c = Case {
        en: t[0] == "1",
        mt: t[1].parse().ok()?,
        mr: t[2].parse().ok()?,
        reps: t[3].parse().ok()?,
        pseed: t[4].parse().ok()?,
        facts: parse_facts(t[5])?,
        rules: parse_rules(t[6])?,
        dbg,
        more,
        slow,
    };
    if !names_ok(&stages(&c)) {
        return None;
    }
    // the default configuration is enabled with min_rules_per_thread = 2
    if c.dbg & 4 != 0 && !(c.en && c.mr == 2) {
        return None;
    }
    // arithmetic right-hand sides are computed in f64 by the engine: exact as long as the numbers stay small
    let sts = stages(&c);
    let arith = sts.iter().any(|s| {
        s.rules.iter().any(|r| r.cond.iter().any(|t| matches!(t, Tok::Expr(_, _, e) if valid_expr(e) == Some(true))))
    });
    let big = |v: &Val| match v {
        Val::I(i) | Val::F(i) => i.unsigned_abs() > 1 << 31,
        Val::S(t) => t.parse::<i64>().map(|i| i.unsigned_abs() > 1 << 31).unwrap_or(false),
        Val::B(_) => false,
    };
    if arith && sts.iter().any(|s| s.facts.iter().any(|(_, v)| big(v))) {
        return None;
    }
    Some(c)
}

fn show_case(c: &Case) -> String {
    let mut s = format!(
        "{} {} {} {} {} {} {}",
        c.en as u8,
        c.mt,
        c.mr,
        c.reps,
        c.pseed,
        show_facts_kv(&c.facts),
        show_rules(&c.rules)
    );
    if c.dbg != 0 || !c.more.is_empty() || c.slow.is_some() {
        s.push_str(&format!(" d{}{}", c.dbg, c.slow.as_ref().map(show_slow).unwrap_or_default()));
        for st in &c.more {
            s.push_str(&format!(" {} {}", show_facts_kv(&st.facts), show_rules(&st.rules)));
        }
    }
    s
}

fn stages(c: &Case) -> Vec<Stage> {
    let mut v = vec![Stage { facts: c.facts.clone(), rules: c.rules.clone() }];
    v.extend(c.more.iter().cloned());
    v
}

fn op_of(s: &str) -> Option<Operator> {
    Some(match s {
        "eq" => Operator::Equal,
        "ne" => Operator::NotEqual,
        "gt" => Operator::GreaterThan,
        "ge" => Operator::GreaterThanOrEqual,
        "lt" => Operator::LessThan,
        "le" => Operator::LessThanOrEqual,
        "ct" => Operator::Contains,
        "nc" => Operator::NotContains,
        "sw" => Operator::StartsWith,
        "ew" => Operator::EndsWith,
        "mt" => Operator::Matches,
        "in" => Operator::In,
        _ => return None,
    })
}

fn build_cond(toks: &[Tok]) -> Option<ConditionGroup> {
    let mut st: Vec<ConditionGroup> = Vec::new();
    for t in toks {
        match t {
            Tok::Leaf(f, o, v) => st.push(ConditionGroup::single(Condition::new(
                f.clone(),
                op_of(o)?,
                to_value(v),
            ))),
            Tok::Ref(f, o, g) => st.push(ConditionGroup::single(Condition::new(
                f.clone(),
                op_of(o)?,
                Value::String(g.clone()),
            ))),
            Tok::Expr(f, o, e) => st.push(ConditionGroup::single(Condition::new(
                f.clone(),
                op_of(o)?,
                Value::Expression(e.clone()),
            ))),
            Tok::Not => {
                let a = st.pop()?;
                st.push(ConditionGroup::not(a));
            }
            Tok::And | Tok::Or | Tok::XNot => {
                let r = st.pop()?;
                let l = st.pop()?;
                st.push(match t {
                    Tok::And => ConditionGroup::and(l, r),
                    Tok::Or => ConditionGroup::or(l, r),
                    _ => ConditionGroup::Compound {
                        left: Box::new(l),
                        operator: LogicalOperator::Not,
                        right: Box::new(r),
                    },
                });
            }
        }
    }
    if st.len() == 1 {
        st.pop()
    } else {
        None
    }
}

/// the facts of a case as a tree: a dotted name is a path through nested objects
#[derive(Clone, Debug)]
enum Node {
    Leaf(Value),
    Obj(BTreeMap<String, Node>),
}

fn node_insert(m: &mut BTreeMap<String, Node>, path: &[&str], v: Value) -> Option<()> {
    if path.len() == 1 {
        // the same name twice: the later value wins (as with repeated add_value), unless one of them is an object
        if matches!(m.get(path[0]), Some(Node::Obj(_))) {
            return None;
        }
        m.insert(path[0].to_string(), Node::Leaf(v));
        return Some(());
    }
    match m.entry(path[0].to_string()).or_insert_with(|| Node::Obj(BTreeMap::new())) {
        Node::Obj(sub) => node_insert(sub, &path[1..], v),
        Node::Leaf(_) => None, // a scalar where an object is needed
    }
}

fn node_value(n: &Node) -> Value {
    match n {
        Node::Leaf(v) => v.clone(),
        Node::Obj(m) => Value::Object(m.iter().map(|(k, x)| (k.clone(), node_value(x))).collect()),
    }
}

/// mode 1: the object is created empty and filled field by field through `set_nested`
fn fill_nested(facts: &Facts, prefix: &str, m: &BTreeMap<String, Node>) -> Option<()> {
    for (k, n) in m {
        let path = format!("{}.{}", prefix, k);
        match n {
            Node::Leaf(v) => facts.set_nested(&path, v.clone()).ok()?,
            Node::Obj(sub) => {
                facts.set_nested(&path, Facts::create_object(vec![])).ok()?;
                fill_nested(facts, &path, sub)?;
            }
        }
    }
    Some(())
}

/// `mode`: 0 add_value | 1 set / create_object / set_nested | 2 from_context | 3 scratch store merged into a store that
/// had a decoy key, then snapshot / clear / restore.  All four must hand the engine the same facts.
fn build_facts(kv: &[(String, Val)], mode: u8) -> Option<Facts> {
    // flat keys (`~U.x`, and every undotted name) and object trees
    let mut top: BTreeMap<String, Node> = BTreeMap::new();
    let mut flat: Vec<(String, Value)> = Vec::new();
    for (k, v) in kv {
        if let Some(f) = k.strip_prefix('~') {
            // a top-level key that contains a dot
            flat.retain(|(x, _)| x != f);
            flat.push((f.to_string(), to_value(v)));
            continue;
        }
        let parts: Vec<&str> = k.split('.').collect();
        if parts.iter().any(|p| p.is_empty()) {
            return None;
        }
        node_insert(&mut top, &parts, to_value(v))?;
    }
    let by_add = |facts: &Facts| {
        for (k, v) in &flat {
            facts.add_value(k, v.clone()).unwrap();
        }
        for (k, n) in &top {
            facts.add_value(k, node_value(n)).unwrap();
        }
    };
    match mode {
        1 => {
            let facts = Facts::new();
            for (k, v) in &flat {
                facts.set(k, v.clone());
            }
            for (k, n) in &top {
                match n {
                    Node::Leaf(v) => facts.set_nested(k, v.clone()).ok()?,
                    Node::Obj(sub) => {
                        facts.set(k, Facts::create_object(vec![]));
                        fill_nested(&facts, k, sub)?;
                    }
                }
            }
            Some(facts)
        }
        2 => {
            let mut ctx: HashMap<String, Value> = flat.iter().cloned().collect();
            for (k, n) in &top {
                ctx.insert(k.clone(), node_value(n));
            }
            Some(Facts::from_context(ctx))
        }
        3 => {
            let scratch = Facts::new();
            by_add(&scratch);
            let facts = Facts::new();
            facts.add_value("decoy9", Value::Integer(9)).unwrap();
            facts.merge(&scratch);
            facts.remove("decoy9")?;
            let snap = facts.snapshot();
            let n = facts.count();
            facts.clear();
            if facts.count() != 0 || facts.contains("decoy9") {
                return None;
            }
            facts.restore(snap);
            (facts.count() == n).then_some(facts)
        }
        _ => {
            let facts = Facts::new();
            by_add(&facts);
            Some(facts)
        }
    }
}

fn show_value(prefix: &str, v: &Value, out: &mut Vec<String>) {
    match v {
        Value::Integer(i) => out.push(format!("{}={}", prefix, i)),
        // an integral float is shown by its integer, never as a decimal
        Value::Number(n) if n.fract() == 0.0 && n.abs() <= MAX_MAG as f64 => out.push(format!("{}=f{}", prefix, *n as i64)),
        Value::Boolean(b) => out.push(format!("{}=b{}", prefix, *b as u8)),
        Value::String(t) if valid_text(t) => out.push(format!("{}=s{}", prefix, t)),
        Value::Object(m) => {
            for (k, x) in m {
                show_value(&format!("{}.{}", prefix, k), x, out);
            }
        }
        other => out.push(format!("{}=?{}", prefix, hex(&format!("{:?}", other)))),
    }
}

fn show_facts(f: &Facts) -> String {
    let mut out = Vec::new();
    for (k, v) in f.get_all_facts() {
        // a top-level key spelled with a dot is shown with the `~` mark: it is not the object field of that spelling
        let k = if k.contains('.') { format!("~{}", k) } else { k };
        show_value(&k, &v, &mut out);
    }
    out.sort();
    if out.is_empty() {
        "-".into()
    } else {
        out.join(",")
    }
}

// ------------------------------------------------------------------ slow-worker support (harness side only)
//
// The repository's schedule points (`verif_sched::point`, cfg rre_verif) can only do nothing, `yield_now()` or sleep
// < 150 µs.  To delay ONE chosen worker for seconds without touching the hook, this binary defines the C symbol
// `sched_yield` itself — `std::thread::yield_now()` is `libc::sched_yield()`, and a definition in the executable takes
// precedence over the one in the shared libc — and picks a schedule seed under which the chosen point is the ONLY
// point of the call that yields (`point` is a pure function of (seed, worker, step), copied in `sched_action`).
// While a delay is armed, the first `sched_yield` of a thread that is not one of the harness' own sleeps that long.
// If the copy of the hash ever went stale the delay would not be taken: the run then reports `slow-not-taken`.
static SLOW_MS: AtomicU64 = AtomicU64::new(0);
static SLOW_TAKEN: AtomicBool = AtomicBool::new(false);
thread_local! {
    static HARNESS_THREAD: std::cell::Cell<bool> = const { std::cell::Cell::new(false) };
}

extern "C" {
    fn syscall(num: i64, ...) -> i64;
}

#[no_mangle]
pub extern "C" fn sched_yield() -> i32 {
    if !HARNESS_THREAD.with(|h| h.get()) {
        let ms = SLOW_MS.swap(0, Ordering::SeqCst);
        if ms > 0 {
            SLOW_TAKEN.store(true, Ordering::SeqCst);
            std::thread::sleep(Duration::from_millis(ms));
            return 0;
        }
    }
    #[cfg(target_arch = "x86_64")]
    unsafe {
        syscall(24);
    }
    #[cfg(target_arch = "aarch64")]
    unsafe {
        syscall(124);
    }
    0
}

/// what `verif_sched::point(seed, worker, step)` does: 0 nothing, 1 yield_now, 2|3 a sleep below 150 µs
fn sched_action(seed: u64, thread_id: usize, step: usize) -> u64 {
    let mut z = seed ^ (thread_id as u64).wrapping_mul(0x9E37_79B9_7F4A_7C15) ^ (step as u64).wrapping_mul(0xD1B5_4A32_D192_ED03);
    z = (z ^ (z >> 30)).wrapping_mul(0xBF58_476D_1CE4_E5B9);
    z = (z ^ (z >> 27)).wrapping_mul(0x94D0_49BB_1331_11EB);
    z ^= z >> 31;
    z % 4
}

/// the chunk lengths of every level of the stage that `execute_parallel` runs on worker threads, highest salience
/// first (needed only to choose the delayed schedule point; no verdict depends on it)
fn parallel_shapes(st: &Stage, enabled: bool, mt: usize, mr: usize) -> Vec<Vec<usize>> {
    if !enabled || mt == 0 {
        return vec![];
    }
    let mut seen = std::collections::HashSet::new();
    let mut levels: BTreeMap<i32, usize> = BTreeMap::new();
    for r in &st.rules {
        // a duplicate name is not in the knowledge base, whatever its flags
        if seen.insert(r.name.clone()) && r.en {
            *levels.entry(r.sal).or_default() += 1;
        }
    }
    levels
        .iter()
        .rev()
        .filter(|(_, n)| **n >= mr && **n >= 2)
        .map(|(_, n)| {
            let cs = n.div_ceil(mt);
            (0..n.div_ceil(cs)).map(|j| cs.min(n - j * cs)).collect()
        })
        .collect()
}

/// (seed, worker, step) such that under `seed` the point (worker, step) of the first parallelised level is the only
/// schedule point of the whole call that yields; the wanted worker / step are clamped to what that level has
fn slow_seed(shapes: &[Vec<usize>], want: &(usize, Option<usize>, u64), from: u64) -> Option<(u64, usize, usize)> {
    let first = shapes.first()?;
    let w = want.0.min(first.len() - 1);
    let step = match want.1 {
        None => usize::MAX,
        Some(s) => s.min(first[w] - 1),
    };
    let mut pts: Vec<(usize, usize)> = Vec::new();
    for sh in shapes {
        for (t, len) in sh.iter().enumerate() {
            for st in (0..*len).chain([usize::MAX]) {
                if (t, st) != (w, step) && !pts.contains(&(t, st)) {
                    pts.push((t, st));
                }
            }
        }
    }
    (0..20_000_000u64)
        .map(|i| from.wrapping_mul(0x9E37_79B9).wrapping_add(i) | 1)
        .find(|sd| sched_action(*sd, w, step) == 1 && pts.iter().all(|(t, st)| sched_action(*sd, *t, *st) != 1))
        .map(|sd| (sd, w, step))
}

static TIMEOUTS: std::sync::atomic::AtomicUsize = std::sync::atomic::AtomicUsize::new(0);

/// one call of the real `execute_parallel` of the given (long-lived) engine on a fresh knowledge base object —
/// always named "c19" — and fresh facts, guarded by a watchdog ("it always returns")
fn run_once(engine: &Arc<ParallelRuleEngine>, st: &Stage, enabled: bool, debug: bool, sched_seed: u64, fmode: u8, slow_ms: u64) -> String {
    // once three calls have hung in this process, further calls that may spawn workers are not attempted
    // (each would cost the full watchdog time); the hang has been reported by then
    if enabled && TIMEOUTS.load(std::sync::atomic::Ordering::SeqCst) >= 3 {
        return "timeout-skipped".into();
    }
    // read by the `#[cfg(rre_verif)]` schedule points of src/engine/parallel.rs (hooks-C19.patch);
    // without the hook the variable is simply ignored
    std::env::set_var("RRE_VERIF_SCHED", sched_seed.to_string());
    let st = st.clone();
    let engine = Arc::clone(engine);
    let (tx, rx) = mpsc::channel();
    SLOW_MS.store(0, Ordering::SeqCst);
    SLOW_TAKEN.store(false, Ordering::SeqCst);
    std::thread::spawn(move || {
        HARNESS_THREAD.with(|h| h.set(true));
        let kb = KnowledgeBase::new("c19");
        // decoded name -> token (observations print tokens)
        let mut tok_of: HashMap<String, String> = HashMap::new();
        for r in &st.rules {
            let Some(cond) = build_cond(&r.cond) else {
                let _ = tx.send("bad-cond".to_string());
                return;
            };
            let acts = r.acts.iter().map(build_action).collect();
            let Some(name) = real_name(&r.name) else {
                let _ = tx.send("bad-name".to_string());
                return;
            };
            let mut rule = Rule::new(name.clone(), cond, acts).with_salience(r.sal);
            rule.enabled = r.en;
            let dup = tok_of.contains_key(&name);
            match kb.add_rule(rule) {
                // a name that is already there is rejected: the rule is not in the knowledge base
                Err(_) if dup => continue,
                Ok(()) if !dup => {}
                Err(_) => {
                    let _ = tx.send("err-add".to_string());
                    return;
                }
                Ok(()) => {
                    let _ = tx.send("dup-accepted".to_string());
                    return;
                }
            }
            tok_of.insert(name, r.name.clone());
        }
        let Some(facts) = build_facts(&st.facts, fmode) else {
            let _ = tx.send("bad-facts".to_string());
            return;
        };
        SLOW_MS.store(slow_ms, Ordering::SeqCst);
        let r = std::panic::catch_unwind(std::panic::AssertUnwindSafe(|| engine.execute_parallel(&kb, &facts, debug)));
        let armed_left = SLOW_MS.swap(0, Ordering::SeqCst);
        let s = match r {
            _ if slow_ms > 0 && (armed_left != 0 || !SLOW_TAKEN.load(Ordering::SeqCst)) => "slow-not-taken".to_string(),
            Err(_) => "panic".to_string(),
            Ok(Err(_)) => "err".to_string(),
            Ok(Ok(res)) => {
                let ctxs: Vec<String> = res
                    .execution_contexts
                    .iter()
                    .map(|x| match tok_of.get(&x.rule.name) {
                        Some(t) => format!("{}={}", t, x.fired as u8),
                        None => format!("?{}={}", hex(&x.rule.name), x.fired as u8),
                    })
                    .collect();
                // the two counters as `get_stats` prints them
                let stats = res.get_stats();
                let num_after = |key: &str| -> Option<usize> {
                    let rest = &stats[stats.find(key)? + key.len()..];
                    rest.trim_start().split(|c: char| !c.is_ascii_digit()).next()?.parse().ok()
                };
                let head = if num_after("Rules evaluated:") == Some(res.total_rules_evaluated)
                    && num_after("Rules fired:") == Some(res.total_rules_fired)
                {
                    "ok"
                } else {
                    "badstats"
                };
                format!(
                    "{}/{}/{}/{}/{}",
                    head,
                    res.total_rules_evaluated,
                    res.total_rules_fired,
                    if ctxs.is_empty() { "-".to_string() } else { ctxs.join(",") },
                    show_facts(&facts)
                )
            }
        };
        let _ = tx.send(s);
    });
    match rx.recv_timeout(Duration::from_secs(8)) {
        Ok(s) => s,
        Err(mpsc::RecvTimeoutError::Timeout) => {
            TIMEOUTS.fetch_add(1, std::sync::atomic::Ordering::SeqCst);
            "timeout".into()
        }
        Err(mpsc::RecvTimeoutError::Disconnected) => "panic".into(),
    }
}

fn build_action(a: &Act) -> ActionType {
    let s = |x: &str| x.to_string();
    match a {
        Act::Set(f, v) => ActionType::Set { field: f.clone(), value: Value::Integer(*v) },
        Act::Kind(k) => match k.as_str() {
            "mcall" => ActionType::MethodCall { object: s("U"), method: s("setX"), args: vec![Value::Integer(7)] },
            "log" => ActionType::Log { message: s("c19") },
            "retract" => ActionType::Retract { object: s("U") },
            "append" => ActionType::Append { field: s("U.x"), value: Value::Integer(7) },
            "custom" => ActionType::Custom { action_type: s("notRegistered"), params: HashMap::new() },
            "agenda" => ActionType::ActivateAgendaGroup { group: s("g") },
            "sched" => ActionType::ScheduleRule { rule_name: s("r0"), delay_ms: 1 },
            "wfdone" => ActionType::CompleteWorkflow { workflow_name: s("w") },
            _ => ActionType::SetWorkflowData { key: s("a"), value: Value::Integer(7) },
        },
    }
}

fn exec(case: &str) -> String {
    let Some(c) = parse_case(case) else { return "bad-case".into() };
    let dflt = c.dbg & 4 != 0;
    if dflt {
        // the default configuration must be one the property quantifies over (and the one the case text says)
        let d = ParallelConfig::default();
        if !(d.enabled && d.min_rules_per_thread == 2 && d.max_threads >= 1) {
            return format!("default-config/{}/{}/{}", d.enabled as u8, d.max_threads, d.min_rules_per_thread);
        }
    }
    let mk = |enabled: bool| {
        Arc::new(ParallelRuleEngine::new(if dflt {
            let d = ParallelConfig::default();
            ParallelConfig { enabled: enabled && d.enabled, max_threads: c.mt, ..d }
        } else {
            ParallelConfig { enabled, max_threads: c.mt, min_rules_per_thread: c.mr, dependency_analysis: true }
        }))
    };
    let fmode = (c.dbg >> 3) & 3;
    // two engine objects for the whole case: every stage and every repetition goes through them
    let eng_s = mk(false);
    let eng_p = mk(c.en);
    let (dbg_p, dbg_s) = (c.dbg & 1 != 0, c.dbg & 2 != 0);
    let mut out_stages = Vec::new();
    for st in stages(&c) {
        let mut out = vec![format!("S:{}", run_once(&eng_s, &st, false, dbg_s, 0, fmode, 0))];
        out.push(format!("P:{}", run_once(&eng_p, &st, c.en, dbg_p, 0, fmode, 0)));
        // slow-worker family: the level shapes of this stage under the configuration the engine really has
        let shapes = match &c.slow {
            Some(_) => parallel_shapes(&st, c.en, c.mt, if dflt { 2 } else { c.mr }),
            None => vec![],
        };
        for j in 0..c.reps {
            let seed = c.pseed.wrapping_mul(1_000_003).wrapping_add(j as u64 + 1) | 1;
            // contention cases (many repetitions): every other run is unperturbed, so that workers that start
            // together also finish together (races on shared counters need simultaneous, not staggered, workers)
            let seed = if c.reps >= 50 && j % 2 == 1 { 0 } else { seed };
            // a delayed worker: the seed under which its schedule point is the only one that yields (nothing is
            // delayed when no level of this stage runs on worker threads)
            let (seed, slow_ms) = match c.slow.as_ref().and_then(|sl| slow_seed(&shapes, sl, seed).map(|x| (x.0, sl.2))) {
                Some(x) => x,
                None if c.slow.is_some() && !shapes.is_empty() => {
                    out.push("P:slow-no-seed".to_string());
                    continue;
                }
                None => (seed, 0),
            };
            out.push(format!("P:{}", run_once(&eng_p, &st, c.en, dbg_p, seed, fmode, slow_ms)));
        }
        out_stages.push(out.join(" "));
    }
    out_stages.join(" ;; ")
}

// the engine prints to stdout when debug_mode is on (and `main_with`'s exec loop holds the stdout lock, which a
// worker thread's `println!` would wait for): fd 1 is pointed at /dev/null while cases run and the observations go
// to a duplicate of the original fd 1
extern "C" {
    fn dup(fd: i32) -> i32;
    fn dup2(a: i32, b: i32) -> i32;
}

fn exec_main() {
    use std::os::fd::{AsRawFd, FromRawFd};
    HARNESS_THREAD.with(|h| h.set(true));
    let saved = unsafe { dup(1) };
    let null = std::fs::OpenOptions::new().write(true).open("/dev/null").unwrap();
    unsafe { dup2(null.as_raw_fd(), 1) };
    let mut out = std::io::BufWriter::new(unsafe { std::fs::File::from_raw_fd(saved) });
    std::panic::set_hook(Box::new(|_| {}));
    let stdin = std::io::stdin();
    for line in stdin.lock().lines() {
        let line = line.unwrap();
        let line = line.trim_end();
        if line.is_empty() {
            continue;
        }
        writeln!(out, "{}", exec_guarded(exec, line)).unwrap();
        // flushed per case: if the process dies or hangs, the lines already printed name the killing case
        out.flush().unwrap();
    }
    out.flush().unwrap();
}

// ------------------------------------------------------------------ generator

const FIELDS: [&str; 7] = ["a", "b", "c", "d", "U.x", "U.y", "zz"]; // `zz` is never given a value
const OPS: [&str; 6] = ["eq", "ne", "gt", "ge", "lt", "le"];
/// string literals that are not numbers (`to_number` is None): the two that print like booleans, and plain words
const WORDS: [&str; 4] = ["true", "false", "x", "yes"];

/// a value of a random scalar type "around" the small integer `n`: the integer, the float of the same value, the
/// string that prints the same, a boolean, or the string that prints like that boolean
fn gen_typed_val(rng: &mut Rng, n: i64) -> Val {
    match rng.below(8) {
        0 | 1 => Val::I(n),
        2 | 3 => Val::F(n),
        4 => Val::S(n.to_string()),
        5 => Val::B(n & 1 == 1),
        6 => Val::S(if n & 1 == 1 { "true" } else { "false" }.to_string()),
        _ => Val::S(rng.pick(&WORDS).to_string()),
    }
}

/// a leaf comparing `f` with the constant `v` (a string constant is an `R:` leaf)
fn leaf_of(f: &str, o: &str, v: Val) -> Tok {
    match v {
        Val::S(t) => Tok::Ref(f.to_string(), o.to_string(), t),
        v => Tok::Leaf(f.to_string(), o.to_string(), v),
    }
}

fn gen_cond(rng: &mut Rng, depth: u32, typed: bool, out: &mut Vec<Tok>) {
    if depth == 0 || rng.chance(2, 5) {
        let f = *rng.pick(&FIELDS);
        let o = *rng.pick(&OPS);
        if typed && rng.chance(1, 2) {
            // constants of every scalar type; `==` / `!=` twice as often (they are the type-sensitive operators)
            let o = if rng.chance(1, 2) { *rng.pick(&OPS[..2]) } else { o };
            let n = rng.below(5) as i64 - 2;
            out.push(leaf_of(f, o, gen_typed_val(rng, n)));
        } else if rng.chance(1, 4) {
            // right-hand side names another field (Value::String resolved against the facts)
            out.push(Tok::Ref(f.to_string(), o.to_string(), rng.pick(&FIELDS).to_string()));
        } else {
            out.push(Tok::Leaf(f.to_string(), o.to_string(), Val::I(rng.below(5) as i64 - 2)));
        }
        return;
    }
    match rng.below(20) {
        0..=7 => {
            gen_cond(rng, depth - 1, typed, out);
            gen_cond(rng, depth - 1, typed, out);
            out.push(Tok::And);
        }
        8..=14 => {
            gen_cond(rng, depth - 1, typed, out);
            gen_cond(rng, depth - 1, typed, out);
            out.push(Tok::Or);
        }
        15..=18 => {
            gen_cond(rng, depth - 1, typed, out);
            out.push(Tok::Not);
        }
        _ => {
            gen_cond(rng, depth - 1, typed, out);
            gen_cond(rng, depth - 1, typed, out);
            out.push(Tok::XNot);
        }
    }
}

fn gen_facts(rng: &mut Rng, typed: bool) -> Vec<(String, Val)> {
    let mut facts = Vec::new();
    for f in &FIELDS[..6] {
        if rng.chance(4, 5) {
            let n = rng.below(5) as i64 - 2;
            facts.push((f.to_string(), if typed && rng.chance(1, 2) { gen_typed_val(rng, n) } else { Val::I(n) }));
        }
    }
    facts
}

/// flat top-level keys spelled like the dotted fields (`~U.x`, `~U.y`): with the object field of the same spelling
/// present and holding ANOTHER value (the nested field must win), with the object present but without that field, or
/// with no object `U` at all (then the flat key is what the condition reads).  `p` = chance (in 1/8) per case.
fn add_flat_twins(rng: &mut Rng, facts: &mut Vec<(String, Val)>, typed: bool, p: u64) {
    if !rng.chance(p, 8) {
        return;
    }
    match rng.below(6) {
        // the object loses one of its fields / disappears: the flat key is the fallback
        0 => facts.retain(|(k, _)| k != "U.x"),
        1 => facts.retain(|(k, _)| !k.starts_with("U.")),
        _ => {}
    }
    let both = rng.chance(1, 2);
    for f in ["U.x", "U.y"] {
        if !(both || rng.chance(1, 2)) {
            continue;
        }
        let nested = facts.iter().find(|(k, _)| k == f).map(|(_, v)| v.clone());
        let mut v = match &nested {
            // the same number in another type, or another number: a value on which comparisons come out differently
            Some(x) if typed && rng.chance(1, 3) => twin_of(rng, x),
            _ => Val::I(rng.below(5) as i64 - 2),
        };
        if Some(&v) == nested.as_ref() && !rng.chance(1, 6) {
            v = match v {
                Val::I(n) => Val::I(if n >= 2 { n - 3 } else { n + 1 + rng.below(2) as i64 }),
                _ => Val::I(rng.below(5) as i64 - 2),
            };
        }
        facts.push((format!("~{}", f), v));
    }
}

/// `n` rules named `<prefix>0 …`, saliences from `sal_dom` levels, each enabled with probability `p_enabled` %
fn gen_rules(rng: &mut Rng, n: usize, prefix: &str, sal_dom: u64, p_enabled: u64, typed: bool) -> Vec<RuleSpec> {
    let mut rules = Vec::new();
    for i in 0..n {
        let mut cond = Vec::new();
        gen_cond(rng, 3, typed, &mut cond);
        let mut acts = Vec::new();
        for _ in 0..rng.below(3) {
            // assignments that *would* change other rules' verdicts if the engine performed them
            acts.push(Act::Set(rng.pick(&FIELDS[..6]).to_string(), rng.below(5) as i64 - 2 + 10));
        }
        rules.push(RuleSpec {
            name: format!("{}{}", prefix, i),
            sal: rng.below(sal_dom) as i32 * 5 - 5,
            en: rng.below(100) < p_enabled,
            cond,
            acts,
        });
    }
    rules
}

/// debug_mode of the calls: off in half of the cases; otherwise on for the configured engine (1), for both (3), or
/// for the sequential reference only (2)
fn gen_dbg(rng: &mut Rng) -> u8 {
    *rng.pick(&[0u8, 0, 0, 0, 1, 1, 3, 2])
}

fn gen_case(rng: &mut Rng, reps: usize) -> Case {
    let n = match rng.below(10) {
        0 => rng.range(1, 3),
        1..=3 => rng.range(2, 8),
        _ => rng.range(1, 24),
    } as usize;
    let sal_dom = *rng.pick(&[1u64, 2, 2, 3, 4]);
    // a quarter of the cases draws constants and fact values from every scalar type
    let typed = rng.chance(1, 4);
    let mut facts = gen_facts(rng, typed);
    add_flat_twins(rng, &mut facts, typed, 2);
    let p_enabled = *rng.pick(&[100u64, 100, 85, 60]);
    let rules = gen_rules(rng, n, "r", sal_dom, p_enabled, typed);
    Case {
        en: !rng.chance(1, 7),
        mt: if rng.chance(1, 4) { rng.range(1, 3) } else { rng.range(1, 16) } as usize,
        mr: rng.range(1, 4) as usize,
        reps,
        pseed: rng.next() % 1_000_000,
        facts,
        rules,
        dbg: gen_dbg(rng),
        more: vec![],
        slow: None,
    }
}

/// a constant of another type whose `Value::to_string()` is the same: 25 / 25.0 / "25", true / "true"
fn twin_of(rng: &mut Rng, v: &Val) -> Val {
    let flip = rng.chance(1, 2);
    match v {
        Val::I(n) => if flip { Val::F(*n) } else { Val::S(n.to_string()) },
        Val::F(n) => if flip { Val::I(*n) } else { Val::S(n.to_string()) },
        Val::B(b) => Val::S(b.to_string()),
        Val::S(t) => match (t.as_str(), t.parse::<i64>()) {
            ("true", _) => Val::B(true),
            ("false", _) => Val::B(false),
            (_, Ok(n)) => if flip { Val::I(n) } else { Val::F(n) },
            _ => Val::S(t.clone()),
        },
    }
}

/// look-alike constants: one salience level of single-comparison rules on one or two fields, mostly `==` / `!=`,
/// whose constants are the same number / truth value in different types (25, 25.0, "25"; true, "true") plus a few
/// near misses, in random order, with few threads — several of them share a worker's chunk.  The evaluator
/// distinguishes them (`Value`'s `PartialEq` is type-sensitive) and so must anything that sits in front of it.
fn gen_lookalike(rng: &mut Rng, reps: usize) -> Case {
    let base = *rng.pick(&[0i64, 1, 1, -1, 2, 25]);
    let numeric = rng.chance(2, 3);
    let pool: Vec<Val> = if numeric {
        vec![
            Val::I(base),
            Val::F(base),
            Val::S(base.to_string()),
            Val::I(base + 1),
            Val::F(base + 1),
            Val::S((base + 1).to_string()),
        ]
    } else {
        vec![
            Val::B(true),
            Val::S("true".into()),
            Val::B(false),
            Val::S("false".into()),
            Val::I(1),
            Val::I(0),
        ]
    };
    let fields: Vec<&str> = if rng.chance(1, 2) { vec!["a"] } else { vec!["a", "U.x"] };
    let mut facts: Vec<(String, Val)> = fields.iter().map(|f| (f.to_string(), rng.pick(&pool[..4]).clone())).collect();
    if rng.chance(1, 3) {
        facts.push(("b".to_string(), rng.pick(&pool).clone()));
    }
    // a flat key spelled like the nested field, holding a look-alike (or near-miss) of its value
    if fields.len() == 2 && rng.chance(1, 3) {
        let nested = facts[1].1.clone();
        let v = if rng.chance(1, 2) { twin_of(rng, &nested) } else { rng.pick(&pool).clone() };
        facts.push(("~U.x".to_string(), v));
    }
    let n = rng.range(2, 10) as usize;
    let ops: &[&str] = match rng.below(4) {
        0 => &["eq"],
        1 => &["ne"],
        2 => &["eq", "ne"],
        _ => &OPS,
    };
    let mut rules: Vec<RuleSpec> = Vec::new();
    for i in 0..n {
        let (f, o, v) = match rules.last().map(|r: &RuleSpec| r.cond[0].clone()) {
            // half of the rules are the *twin* of an earlier one: same field, same operator, a constant that prints
            // the same but has another type
            Some(prev) if rng.chance(1, 2) => {
                let (f, o, v) = match prev {
                    Tok::Leaf(f, o, v) => (f, o, v),
                    Tok::Ref(f, o, t) => (f, o, Val::S(t)),
                    _ => unreachable!(),
                };
                let (f, o) = (fields.iter().copied().find(|x| *x == f).unwrap(), OPS.iter().copied().find(|x| *x == o).unwrap());
                (f, o, twin_of(rng, &v))
            }
            _ => (*rng.pick(&fields), *rng.pick(ops), rng.pick(&pool).clone()),
        };
        let mut cond = vec![leaf_of(f, o, v)];
        if rng.chance(1, 8) {
            cond.push(Tok::Not);
        }
        rules.push(RuleSpec { name: format!("r{}", i), sal: if rng.chance(1, 8) { 5 } else { 0 }, en: !rng.chance(1, 12), cond, acts: vec![] });
    }
    // the twins need not be neighbours
    if rng.chance(1, 2) {
        rng.shuffle(&mut rules);
        for (i, r) in rules.iter_mut().enumerate() {
            r.name = format!("r{}", i);
        }
    }
    Case {
        en: !rng.chance(1, 7),
        mt: *rng.pick(&[1usize, 1, 2, 2, 3, 4, 16]),
        mr: rng.range(1, 2) as usize,
        reps,
        pseed: rng.next() % 1_000_000,
        facts,
        rules,
        dbg: gen_dbg(rng),
        more: vec![],
        slow: None,
    }
}

/// one engine, several knowledge bases: two or three stages, every knowledge base a different object with the same
/// name; the later rule sets have (mostly) the same number of rules — hence the same `version()` — but other
/// conditions, saliences, enabled flags and (half of the time) other rule names; sometimes the very same rules on
/// other facts, sometimes one rule more or fewer.  Parallelism on and off (`en`), debug on and off.
fn gen_session(rng: &mut Rng, reps: usize) -> Case {
    let mut c = gen_case(rng, reps);
    let n = rng.range(1, 12) as usize;
    let typed = rng.chance(1, 5);
    let (sal_dom, p_en) = (*rng.pick(&[1u64, 2, 3]), *rng.pick(&[100u64, 100, 75]));
    c.rules = gen_rules(rng, n, "r", sal_dom, p_en, typed);
    c.facts = gen_facts(rng, typed);
    add_flat_twins(rng, &mut c.facts, typed, 2);
    for k in 0..rng.range(1, 2) {
        let prefix = if rng.chance(1, 2) { "r".to_string() } else { format!("k{}r", k + 1) };
        let (sal_dom, p_en) = (*rng.pick(&[1u64, 2, 3]), *rng.pick(&[100u64, 100, 75]));
        let (rules, facts) = match rng.below(8) {
            // the same rule set again, other facts
            0 => (c.rules.clone(), gen_facts(rng, typed)),
            // one rule more / fewer (a different version)
            1 => {
                let m = if n > 1 && rng.chance(1, 2) { n - 1 } else { n + 1 };
                (gen_rules(rng, m, &prefix, sal_dom, p_en, typed), c.facts.clone())
            }
            // same number of rules, different rules; same or other facts
            2..=4 => (gen_rules(rng, n, &prefix, sal_dom, p_en, typed), c.facts.clone()),
            _ => (gen_rules(rng, n, &prefix, sal_dom, p_en, typed), gen_facts(rng, typed)),
        };
        let mut facts = facts;
        if !facts.iter().any(|(k, _)| k.starts_with('~')) {
            add_flat_twins(rng, &mut facts, typed, 2);
        }
        c.more.push(Stage { facts, rules });
    }
    c
}

/// string values for the string operators: substrings / prefixes / suffixes of one another, and two that look numeric
const STRS: [&str; 8] = ["abc", "ab", "bc", "b", "xabcx", "abcabc", "12", "2"];
/// the fields of the extended families: two flat strings, a string field of the object, a field two objects deep, a
/// path THROUGH the scalar `U.x` (never an object field; sometimes a flat key), and the plain ones
const XFIELDS: [&str; 10] = ["s", "t", "U.s", "U.p.q", "U.x.y", "a", "b", "U.x", "U.y", "zz"];
const SOPS: [&str; 6] = ["ct", "nc", "sw", "ew", "mt", "in"];

/// a leaf of the extended grammar: a `Value::Expression` right-hand side (bare field name or one arithmetic step on
/// it — over numbers, numeric strings, booleans, words, missing fields), or a string operator
fn gen_xleaf(rng: &mut Rng) -> Tok {
    let f = rng.pick(&XFIELDS).to_string();
    match rng.below(10) {
        0..=2 => Tok::Expr(f, rng.pick(&OPS).to_string(), rng.pick(&XFIELDS).to_string()),
        3..=5 => {
            let g = *rng.pick(&XFIELDS);
            let k = *rng.pick(&[0u64, 1, 1, 2, 3, 10]);
            Tok::Expr(f, rng.pick(&OPS).to_string(), format!("{}{}{}", g, rng.pick(&["+", "-", "*"]), k))
        }
        6 | 7 => {
            // string operator against a string constant; mostly on the string-valued fields
            let f = if rng.chance(3, 4) { rng.pick(&XFIELDS[..3]).to_string() } else { f };
            Tok::Ref(f, rng.pick(&SOPS).to_string(), rng.pick(&STRS).to_string())
        }
        8 => {
            // string operator against another field (API spelling and GRL spelling of the reference)
            let g = rng.pick(&XFIELDS[..4]).to_string();
            if rng.chance(1, 2) {
                Tok::Ref(f, rng.pick(&SOPS).to_string(), g)
            } else {
                Tok::Expr(f, rng.pick(&SOPS).to_string(), g)
            }
        }
        // string operator with a non-string constant, ordering / equality on a string field
        _ => {
            if rng.chance(1, 2) {
                Tok::Leaf(f, rng.pick(&SOPS).to_string(), Val::I(rng.below(3) as i64))
            } else {
                Tok::Ref(rng.pick(&XFIELDS[..3]).to_string(), rng.pick(&OPS).to_string(), rng.pick(&STRS).to_string())
            }
        }
    }
}

/// turn a stage into one of the extended grammar: string / deep / shadowing facts, a third of the leaves replaced,
/// half of the rules given actions of the other kinds
fn extend_stage(rng: &mut Rng, facts: &mut Vec<(String, Val)>, rules: &mut [RuleSpec]) {
    for f in ["s", "t", "U.s"] {
        if rng.chance(4, 5) {
            facts.push((f.to_string(), Val::S(rng.pick(&STRS).to_string())));
        }
    }
    if rng.chance(3, 4) {
        facts.push(("U.p.q".to_string(), Val::I(rng.below(5) as i64 - 2)));
    }
    // flat keys spelled like the deep path, like a path through a scalar, like the string field
    for f in ["~U.p.q", "~U.x.y", "~U.s"] {
        if rng.chance(1, 4) && !facts.iter().any(|(k, _)| k == f) {
            let v = if f == "~U.s" { Val::S(rng.pick(&STRS).to_string()) } else { Val::I(rng.below(5) as i64 - 2) };
            facts.push((f.to_string(), v));
        }
    }
    for r in rules.iter_mut() {
        for t in r.cond.iter_mut() {
            if matches!(t, Tok::Leaf(..) | Tok::Ref(..)) && rng.chance(2, 5) {
                *t = gen_xleaf(rng);
            }
        }
        if rng.chance(1, 2) {
            for _ in 0..rng.range(1, 2) {
                let at = rng.below(r.acts.len() as u64 + 1) as usize;
                r.acts.insert(at, Act::Kind(rng.pick(&ACT_KINDS).to_string()));
            }
        }
    }
}

/// the extended families: expression right-hand sides, string operators, every action kind, deep paths; the engines
/// built from the default configuration in a quarter of them; the facts built through the other Facts entry points
fn gen_ext(rng: &mut Rng, reps: usize) -> Case {
    let mut c = if rng.chance(1, 6) { gen_session(rng, 1) } else { gen_case(rng, reps) };
    extend_stage(rng, &mut c.facts, &mut c.rules);
    for st in c.more.iter_mut() {
        extend_stage(rng, &mut st.facts, &mut st.rules);
    }
    c.dbg &= 3;
    if rng.chance(1, 4) {
        c.en = true;
        c.mr = 2;
        c.dbg |= 4;
    }
    if rng.chance(1, 2) {
        c.dbg |= (rng.range(1, 3) as u8) << 3;
    }
    c
}

/// every action kind on one parallelised level: rule i carries kind i (and an assignment in front or behind it),
/// firing and non-firing rules alternate in a pattern that is not the chunking period
fn gen_action_kinds(rng: &mut Rng, k: usize) -> Case {
    let mut c = gen_case(rng, 2);
    c.en = true;
    c.mt = [2usize, 3, 4, 16][k % 4];
    c.mr = 1 + k % 2;
    c.dbg = [0u8, 1, 3, 4 * (c.mr == 2) as u8][k % 4];
    c.facts = vec![("a".to_string(), Val::I(1)), ("U.x".to_string(), Val::I(1))];
    let n = ACT_KINDS.len() + 1 + k % 3;
    c.rules = (0..n)
        .map(|i| {
            let mut acts = Vec::new();
            if i % ACT_KINDS.len() != i || rng.chance(1, 2) {
                acts.push(Act::Set("a".to_string(), 0));
            }
            acts.push(Act::Kind(ACT_KINDS[(i + k) % ACT_KINDS.len()].to_string()));
            if rng.chance(1, 3) {
                acts.push(Act::Kind(rng.pick(&ACT_KINDS).to_string()));
            }
            RuleSpec {
                name: format!("r{}", i),
                sal: if k % 3 == 2 && i % 4 == 0 { 5 } else { 0 },
                en: true,
                cond: vec![Tok::Leaf(if i % 2 == 0 { "a" } else { "U.x" }.to_string(), if i % 3 == 2 { "lt" } else { "ge" }.to_string(), Val::I(1))],
                acts,
            }
        })
        .collect();
    c
}

fn hx(s: &str) -> String {
    format!("%h{}", hex(s))
}

/// short names that are legal `String`s but unusual: empty, blanks, separators of the text formats around the engine,
/// format-string and quote characters, control characters, a name spelled like a name token
const ODD_NAMES: [&str; 30] = [
    "", " ", "  ", "\t", "\n", " r0", "r0 ", "r 0", "r0\n", "a/b", "a;b", "a,b", "a=b", "a:b", "a_b", "a|b", "%", "%L1.1.1", "%h41", "'",
    "\"", "{}", "{0}", "\\", "\0", "rule \"x\" {", "//", "#", "\u{feff}r0", "\u{200b}",
];
/// names that differ only in case (ASCII and not), in normalisation form, or by a look-alike letter
const TWIN_NAMES: [&str; 16] = [
    "Rule", "rule", "RULE", "rULE", "\u{c9}t\u{e9}", "\u{e9}t\u{e9}", "e\u{301}te\u{301}", "\u{c9}T\u{c9}", "stra\u{df}e", "STRASSE", "strasse", "\u{130}", "i", "I",
    "\u{131}", "\u{43e}k",
];
/// byte offsets a truncation / fixed buffer / length byte would use
const NAME_OFFSETS: [usize; 12] = [40, 40, 40, 64, 64, 255, 255, 16, 32, 128, 256, 1024];

/// one name token of the given class for rule `i` (classes: 0 a multi-byte character at every alignment around a byte
/// offset, 1 multi-byte characters only, 2 long ASCII, 3 odd short names, 4 case / normalisation twins, 5 any)
fn gen_name(rng: &mut Rng, class: u64, i: usize, off: usize, w: usize) -> String {
    match class {
        0 => {
            // the character starts d bytes in front of the offset: d = 0 (boundary at the offset) .. w (ends there)
            let d = i % (w + 1);
            let pad = off.saturating_sub(d);
            let k = (off + 4 * w - pad) / w + 1 + i / (w + 1);
            format!("%L{}.{}.{}", pad, w, k)
        }
        1 => format!("%L0.{}.{}", w, off / w + 1 + i),
        2 => format!("%L0.1.{}", off - 1 + i),
        3 => hx(ODD_NAMES[(off + i) % ODD_NAMES.len()]),
        4 => {
            let t = TWIN_NAMES[(off + i) % TWIN_NAMES.len()];
            if t.is_ascii() { t.to_string() } else { hx(t) }
        }
        _ => {
            let (off, w) = (*rng.pick(&NAME_OFFSETS), rng.range(2, 4) as usize);
            let (class, shift) = (rng.below(5), rng.below(5) as usize);
            gen_name(rng, class, i + shift, off, w)
        }
    }
}

/// UNUSUAL BUT LEGAL RULE NAMES: longer than 40 / 64 / 255 / … bytes with a 2-, 3- or 4-byte character at every
/// alignment around that offset, multi-byte only, long ASCII, empty / blank / separator / control-character names,
/// names differing only in case or normalisation, and the same name twice in one knowledge base (rejected by
/// `add_rule`) — under debug_mode on and off for both paths, parallelism on and off.  Half of the cases are random
/// plain cases, half a level of simple rules most of which fire.
fn gen_names(rng: &mut Rng, k: usize) -> Case {
    let mut c = gen_case(rng, 1);
    if k % 2 == 0 {
        let n = rng.range(2, 12) as usize;
        c.facts = vec![("a".to_string(), Val::I(1))];
        let two_levels = rng.chance(1, 4);
        c.rules = (0..n)
            .map(|i| RuleSpec {
                name: String::new(),
                sal: if two_levels && i % 3 == 0 { 5 } else { 0 },
                en: !rng.chance(1, 10),
                cond: vec![Tok::Leaf("a".to_string(), if rng.chance(1, 4) { "lt" } else { "ge" }.to_string(), Val::I(1))],
                acts: vec![],
            })
            .collect();
        c.mt = *rng.pick(&[1usize, 2, 2, 3, 4, 16]);
        c.mr = rng.range(1, 2) as usize;
    }
    c.en = !rng.chance(1, 6);
    c.dbg = (k / 2 % 4) as u8;
    let class = rng.below(7).min(5);
    let (off, w) = (*rng.pick(&NAME_OFFSETS), rng.range(2, 4) as usize);
    let mut used: Vec<String> = Vec::new();
    for i in 0..c.rules.len() {
        // the finite classes (odd, twins) run out of names: the rest of the rules draw from every class, then plain
        let mut tries = 0;
        let name = loop {
            let t = match tries {
                0 => gen_name(rng, class, i, off, w),
                1..=20 => gen_name(rng, 5, i + tries, off, w),
                _ => format!("r{}", i + tries),
            };
            tries += 1;
            let real = real_name(&t).unwrap();
            if !used.contains(&real) {
                used.push(real);
                break t;
            }
        };
        c.rules[i].name = name;
    }
    // the same name twice (or three times): the later rule — other condition, maybe other salience — is rejected
    if c.rules.len() >= 2 && rng.chance(1, 4) {
        for _ in 0..rng.range(1, 2) {
            let j = rng.range(1, c.rules.len() as u64 - 1) as usize;
            let i = rng.below(j as u64) as usize;
            c.rules[j].name = c.rules[i].name.clone();
        }
    }
    c
}

/// SLOW WORKER: one level (or two) of simple rules that is really split over workers; in the perturbed repetition one
/// worker — first, middle or last — sleeps `ms` milliseconds before it evaluates its chunk (`step` 0), in the middle
/// of it, or before it publishes its results, while the others run freely.  Every rule's verdict must still arrive.
fn gen_slow(rng: &mut Rng, k: usize, ms: u64) -> Case {
    let mut c = gen_case(rng, 1);
    // (rules, max_threads, worker, step)
    let shapes: [(usize, usize, usize, Option<usize>); 8] = [
        (4, 2, 1, Some(0)),
        (6, 3, 0, None),
        (5, 2, 0, Some(0)),
        (16, 16, 7, None),
        (3, 4, 2, Some(0)),
        (9, 4, 1, Some(1)),
        (24, 16, 11, None),
        (2, 2, 0, None),
    ];
    let (n, mt, w, step) = shapes[k % shapes.len()];
    c.en = true;
    c.mt = mt;
    c.mr = 1 + k % 2;
    c.reps = 1;
    c.dbg = [0u8, 1, 0, 3][k / 2 % 4];
    c.facts = vec![("a".to_string(), Val::I(1))];
    // every third case has a second, lower level behind the delayed one (it must wait for the join)
    let tail = if k % 3 == 2 { 3 } else { 0 };
    c.rules = (0..n + tail)
        .map(|i| RuleSpec {
            name: format!("r{}", i),
            sal: if i < n { 5 } else { 0 },
            en: true,
            cond: vec![Tok::Leaf("a".to_string(), if i % 4 == 3 { "lt" } else { "ge" }.to_string(), Val::I(1))],
            acts: vec![],
        })
        .collect();
    c.slow = Some((w, step, ms));
    c
}

fn gen(rng: &mut Rng, n: usize, tier: &str) -> Vec<String> {
    let reps = if tier == "thorough" { 4 } else { 3 };
    let mut out = Vec::new();
    // systematic part: every (n, max_threads) chunking shape on one salience level, min_rules 1..4;
    // debug_mode alternates over the shapes (off / configured engine / off / both engines)
    let (nmax, step) = if tier == "thorough" { (24usize, 1usize) } else { (24usize, 3usize) };
    let mut n_rules = 1;
    let mut shape = 0usize;
    while n_rules <= nmax {
        for mt in 1..=16usize {
            if tier != "thorough" && !(mt <= 5 || mt == n_rules || mt + 1 == n_rules || mt == n_rules + 1 || mt == 16 || mt == 8) {
                continue;
            }
            let mut c = gen_case(rng, 1);
            c.en = true;
            c.mt = mt;
            c.mr = 1 + (n_rules + mt) % 4;
            c.dbg = [0u8, 1, 0, 3][shape % 4];
            shape += 1;
            c.rules.truncate(n_rules);
            while c.rules.len() < n_rules {
                let mut more = gen_case(rng, 1).rules;
                for r in more.drain(..) {
                    if c.rules.len() < n_rules {
                        c.rules.push(r);
                    }
                }
            }
            for (i, r) in c.rules.iter_mut().enumerate() {
                r.name = format!("r{}", i);
                r.sal = 0;
                r.en = true;
            }
            out.push(show_case(&c));
        }
        n_rules += step;
    }
    // contention family: one salience level of 16..24 rules that all fire, one rule per worker, many repetitions
    // (a lost update on a shared tally or result vector needs workers that finish at the same instant)
    let (ncont, creps) = if tier == "thorough" { (40usize, 200usize) } else { (12usize, 100usize) };
    for k in 0..ncont {
        let mut c = gen_case(rng, creps);
        c.en = true;
        c.mt = 16;
        c.mr = 1;
        c.reps = creps;
        c.dbg = 0;
        c.facts = vec![("a".to_string(), Val::I(1))];
        let n_rules = 16 + (k % 9);
        c.rules = (0..n_rules)
            .map(|i| RuleSpec {
                name: format!("r{}", i),
                sal: 0,
                en: true,
                cond: vec![Tok::Leaf("a".to_string(), if i % 5 == 4 { "lt" } else { "ge" }.to_string(), Val::I(1))],
                acts: vec![],
            })
            .collect();
        out.push(show_case(&c));
    }
    // slow-worker family: each case costs its sleep (quick: 2 x 1.3 s + 1 x 2.5 s + a few short ones here, 1 x 1.3 s in the corpus)
    let delays: &[u64] = if tier == "thorough" {
        &[1300, 2500, 1300, 2500, 1300, 2500, 1300, 2500, 1300, 2500, 1300, 1100, 1600, 3500, 1300, 2500, 20, 120, 400, 700, 5, 50, 250, 900]
    } else {
        &[1300, 2500, 1300, 20, 120, 400]
    };
    for (k, ms) in delays.iter().enumerate() {
        out.push(show_case(&gen_slow(rng, k, *ms)));
    }
    // unusual rule names
    for k in 0..n / 8 {
        out.push(show_case(&gen_names(rng, k)));
    }
    // every action kind on a parallelised level
    for k in 0..(if tier == "thorough" { 48 } else { 12 }) {
        out.push(show_case(&gen_action_kinds(rng, k)));
    }
    // the extended grammar (expression right-hand sides, string operators, action kinds, deep paths, default
    // configuration, the other ways to build the facts): n/6 cases on top of the n random ones
    for _ in 0..n / 6 {
        out.push(show_case(&gen_ext(rng, reps.min(2))));
    }
    // random part: 1/6 sessions (one engine, several knowledge bases; one perturbed repetition per stage, so a
    // session costs about as many calls as a plain case), 1/8 look-alike constants, the rest plain cases
    for _ in 0..n {
        let c = match rng.below(24) {
            0..=3 => gen_session(rng, 1),
            4..=6 => gen_lookalike(rng, reps.min(2)),
            _ => gen_case(rng, reps),
        };
        out.push(show_case(&c));
    }
    out
}

fn from_stages(c: &Case, sts: Vec<Stage>) -> Case {
    let mut d = c.clone();
    let mut it = sts.into_iter();
    let s0 = it.next().unwrap();
    d.facts = s0.facts;
    d.rules = s0.rules;
    d.more = it.collect();
    d
}

fn shrink(case: &str) -> Vec<String> {
    let Some(c) = parse_case(case) else { return vec![] };
    let mut out = Vec::new();
    let sts = stages(&c);
    // a slow-worker case: every candidate that still delays a worker costs its sleep — a short list only
    if let Some(sl) = c.slow {
        let mut d = c.clone();
        d.slow = None;
        out.push(show_case(&d));
        if sl.2 > 1300 {
            let mut d = c.clone();
            d.slow = Some((sl.0, sl.1, 1300));
            out.push(show_case(&d));
        }
        if c.dbg != 0 {
            let mut d = c.clone();
            d.dbg = 0;
            out.push(show_case(&d));
        }
        if c.rules.len() > 2 {
            for rs in [c.rules[..2].to_vec(), c.rules[..c.rules.len() / 2].to_vec(), c.rules[..c.rules.len() - 1].to_vec()] {
                let mut d = c.clone();
                d.rules = rs;
                out.push(show_case(&d));
            }
        }
        if c.mt > 2 {
            let mut d = c.clone();
            d.mt = 2;
            d.slow = Some((sl.0.min(1), sl.1, sl.2));
            out.push(show_case(&d));
        }
        if c.mr > 1 {
            let mut d = c.clone();
            d.mr = 1;
            out.push(show_case(&d));
        }
        for i in 0..c.rules.len() {
            if c.rules[i].sal != 0 {
                let mut d = c.clone();
                d.rules[i].sal = 0;
                out.push(show_case(&d));
                break;
            }
        }
        out.dedup();
        return out;
    }
    // unusual names: all of them plain at once, then one by one; shorter `%L` names
    let plain = |st: &Stage, i: usize| -> Option<String> {
        let t = format!("n{}", i);
        (st.rules[i].name.starts_with('%') && !st.rules.iter().any(|r| r.name == t)).then_some(t)
    };
    if sts.iter().any(|st| st.rules.iter().any(|r| r.name.starts_with('%'))) {
        let mut v = sts.clone();
        for st in v.iter_mut() {
            for i in 0..st.rules.len() {
                if let Some(t) = plain(st, i) {
                    let old = st.rules[i].name.clone();
                    // duplicates stay duplicates
                    for r in st.rules.iter_mut().filter(|r| r.name == old) {
                        r.name = t.clone();
                    }
                }
            }
        }
        out.push(show_case(&from_stages(&c, v)));
    }
    // fewer stages: drop one (the first included: the next one is promoted)
    if sts.len() > 1 {
        for i in (0..sts.len()).rev() {
            let mut v = sts.clone();
            v.remove(i);
            out.push(show_case(&from_stages(&c, v)));
        }
        // the same rule position removed from every stage (keeps the rule counts equal)
        let m = sts.iter().map(|s| s.rules.len()).min().unwrap_or(0);
        if m > 1 {
            for i in (0..m).rev() {
                let mut v = sts.clone();
                for s in v.iter_mut() {
                    s.rules.remove(i);
                }
                out.push(show_case(&from_stages(&c, v)));
            }
        }
    }
    if c.dbg != 0 {
        for dbg in [0u8, 1, c.dbg & 7, c.dbg & 27, c.dbg & 28] {
            if dbg != c.dbg {
                let mut d = c.clone();
                d.dbg = dbg;
                out.push(show_case(&d));
            }
        }
    }
    for (k, st) in sts.iter().enumerate() {
        for rs in shrink_list(&st.rules) {
            if !rs.is_empty() {
                let mut v = sts.clone();
                v[k].rules = rs;
                out.push(show_case(&from_stages(&c, v)));
            }
        }
    }
    if c.mt > 1 {
        for mt in [1, c.mt / 2, c.mt - 1] {
            if mt >= 1 && mt != c.mt {
                let mut d = c.clone();
                d.mt = mt;
                out.push(show_case(&d));
            }
        }
    }
    if c.mr > 1 {
        let mut d = c.clone();
        d.mr = c.mr - 1;
        out.push(show_case(&d));
    }
    if c.reps > 0 {
        let mut d = c.clone();
        d.reps = 0;
        out.push(show_case(&d));
    }
    for (k, st) in sts.iter().enumerate() {
        for i in 0..st.rules.len() {
            let old = &st.rules[i].name;
            let mut cands: Vec<String> = plain(st, i).into_iter().collect();
            if let Some(spec) = old.strip_prefix("%L") {
                let p: Vec<usize> = spec.split('.').filter_map(|x| x.parse().ok()).collect();
                if p.len() == 3 {
                    for (pad, kk) in [(p[0], p[2] / 2), (p[0], p[2].saturating_sub(1)), (p[0] / 2, p[2]), (p[0].saturating_sub(1), p[2])] {
                        cands.push(format!("%L{}.{}.{}", pad, p[1], kk));
                    }
                }
            }
            for t in cands {
                if &t != old && !st.rules.iter().any(|r| r.name == t || real_name(&r.name) == real_name(&t)) {
                    let mut v = sts.clone();
                    for r in v[k].rules.iter_mut().filter(|r| &r.name == old) {
                        r.name = t.clone();
                    }
                    out.push(show_case(&from_stages(&c, v)));
                }
            }
        }
    }
    for (k, st) in sts.iter().enumerate() {
        for i in 0..st.rules.len() {
            if st.rules[i].cond.len() > 1 {
                // replace the condition by one of its leaves
                for t in &st.rules[i].cond {
                    if matches!(t, Tok::Leaf(..) | Tok::Ref(..) | Tok::Expr(..)) {
                        let mut v = sts.clone();
                        v[k].rules[i].cond = vec![t.clone()];
                        out.push(show_case(&from_stages(&c, v)));
                        break;
                    }
                }
            }
            if !st.rules[i].acts.is_empty() {
                let mut v = sts.clone();
                v[k].rules[i].acts.clear();
                out.push(show_case(&from_stages(&c, v)));
            }
            if st.rules[i].sal != 0 {
                let mut v = sts.clone();
                v[k].rules[i].sal = 0;
                out.push(show_case(&from_stages(&c, v)));
            }
        }
        for fs in shrink_list(&st.facts) {
            let mut v = sts.clone();
            v[k].facts = fs;
            out.push(show_case(&from_stages(&c, v)));
        }
    }
    out
}

fn main() {
    if std::env::args().nth(1).as_deref() == Some("exec") {
        exec_main();
    } else {
        main_with(Prop { gen, exec, shrink });
    }
}
