//! C18 — ModuleManager (src/engine/module.rs) under every history of create / delete / export /
//! add_rule / add_template / import operations, plus the GRL `defmodule` front-end
//! (src/parser/grl.rs, `GRLParser::parse_with_modules`) as a second entry point.
//!
//! case := op op ...            (space separated; names/patterns never contain ` ;/!,~^:=|`)
//!   c:M                create_module(M)
//!   d:M                delete_module(M)
//!   x:M:all | x:M:none | x:M:s[,K~pat]*      export_all_from(M, All|None|Specific[..]); K in R,T,F,A
//!   r:M:rule           get_module_mut(M)?.add_rule(rule)
//!   t:M:tmpl           get_module_mut(M)?.add_template(tmpl)
//!   i:TO:FROM:TY:pat[:re]   import_from / import_from_with_reexport; TY in AR,AT,R,T,A;
//!                      re = `+p^q` (transitive) | `-p^q` (not transitive); absent = import_from
//!   a leading token `G` runs the remaining ops (c/x/i with AR|AT and pattern `*` only) through a
//!   generated GRL text with `defmodule` blocks instead of the direct API (one block per `c`); trailing `r:M:rule` ops
//!   become `;; MODULE: M` + a rule in the text (the parser assigns the rule to that module).
//! obs  := step;step;...   step := res/snapshot   (see `snapshot`)
use rre_harness::*;
use rust_rule_engine::engine::module::*;
use rust_rule_engine::parser::grl::GRLParser;

#[derive(Clone, Debug)]
enum Op {
    Create(String),
    Delete(String),
    Export(String, ExportList),
    Rule(String, String),
    Tmpl(String, String),
    Import(String, String, ImportType, String, Option<ReExport>),
}

fn name_ok(s: &str) -> bool {
    !s.is_empty() && s != "-" && s != "E" && !s.chars().any(|c| " ;/!,~^:=|>".contains(c))
}

fn parse_ty(s: &str) -> Option<ImportType> {
    Some(match s {
        "AR" => ImportType::AllRules,
        "AT" => ImportType::AllTemplates,
        "R" => ImportType::Rules,
        "T" => ImportType::Templates,
        "A" => ImportType::All,
        _ => return None,
    })
}
fn show_ty(t: &ImportType) -> &'static str {
    match t {
        ImportType::AllRules => "AR",
        ImportType::AllTemplates => "AT",
        ImportType::Rules => "R",
        ImportType::Templates => "T",
        ImportType::All => "A",
    }
}

fn parse_exports(s: &str) -> Option<ExportList> {
    match s {
        "all" => Some(ExportList::All),
        "none" => Some(ExportList::None),
        _ => {
            let mut it = s.split(',');
            if it.next()? != "s" {
                return None;
            }
            let mut items = Vec::new();
            for x in it {
                let (k, p) = x.split_once('~')?;
                let item_type = match k {
                    "R" => ItemType::Rule,
                    "T" => ItemType::Template,
                    "F" => ItemType::Fact,
                    "A" => ItemType::All,
                    _ => return None,
                };
                if !name_ok(p) {
                    return None;
                }
                items.push(ExportItem { item_type, pattern: p.to_string() });
            }
            Some(ExportList::Specific(items))
        }
    }
}
fn show_exports(e: &ExportList) -> String {
    match e {
        ExportList::All => "all".into(),
        ExportList::None => "none".into(),
        ExportList::Specific(items) => {
            let mut s = String::from("s");
            for it in items {
                let k = match it.item_type {
                    ItemType::Rule => "R",
                    ItemType::Template => "T",
                    ItemType::Fact => "F",
                    ItemType::All => "A",
                };
                s.push_str(&format!(",{}~{}", k, it.pattern));
            }
            s
        }
    }
}

fn parse_re(s: &str) -> Option<ReExport> {
    let transitive = match s.chars().next()? {
        '+' => true,
        '-' => false,
        _ => return None,
    };
    let rest = &s[1..];
    let patterns: Vec<String> = if rest.is_empty() { vec![] } else { rest.split('^').map(|x| x.to_string()).collect() };
    if patterns.iter().any(|p| !name_ok(p)) {
        return None;
    }
    Some(ReExport { patterns, transitive })
}
fn show_re(r: &Option<ReExport>) -> String {
    match r {
        None => "n".into(),
        Some(re) => format!("{}{}", if re.transitive { "+" } else { "-" }, re.patterns.join("^")),
    }
}

fn parse_op(tok: &str) -> Option<Op> {
    let f: Vec<&str> = tok.split(':').collect();
    if f.len() < 2 || !name_ok(f[1]) || (f[0] != "x" && f.len() > 2 && !name_ok(f[2])) {
        return None;
    }
    Some(match (f[0], f.len()) {
        ("c", 2) => Op::Create(f[1].into()),
        ("d", 2) => Op::Delete(f[1].into()),
        ("x", 3) => Op::Export(f[1].into(), parse_exports(f[2])?),
        ("r", 3) => Op::Rule(f[1].into(), f[2].into()),
        ("t", 3) => Op::Tmpl(f[1].into(), f[2].into()),
        ("i", 5) | ("i", 6) => {
            if !name_ok(f[4]) {
                return None;
            }
            let re = if f.len() == 6 { Some(parse_re(f[5])?) } else { None };
            Op::Import(f[1].into(), f[2].into(), parse_ty(f[3])?, f[4].into(), re)
        }
        _ => return None,
    })
}

/// mode: 'F' every step shows a snapshot; 'L' only the last two steps do; 'G' through the GRL parser
fn parse_case(case: &str) -> Option<(char, Vec<Op>)> {
    let mut toks: Vec<&str> = case.split_whitespace().collect();
    let mode = match toks.first() {
        Some(&"G") => 'G',
        Some(&"L") => 'L',
        _ => 'F',
    };
    if mode != 'F' {
        toks.remove(0);
    }
    let ops: Option<Vec<Op>> = toks.iter().map(|t| parse_op(t)).collect();
    Some((mode, ops?))
}

fn sorted_dedup(mut v: Vec<String>) -> Vec<String> {
    v.sort();
    v.dedup();
    v
}

/// the names every snapshot asks about: MAIN + every module name in the case; every rule name in
/// the case + the never-owned name `zz`; every template name + `zt`
fn universe(ops: &[Op]) -> (Vec<String>, Vec<String>, Vec<String>) {
    let (mut ms, mut rs, mut ts) = (vec!["MAIN".to_string()], vec!["zz".to_string()], vec!["zt".to_string()]);
    for op in ops {
        match op {
            Op::Create(m) | Op::Delete(m) | Op::Export(m, _) => ms.push(m.clone()),
            Op::Rule(m, r) => {
                ms.push(m.clone());
                rs.push(r.clone())
            }
            Op::Tmpl(m, t) => {
                ms.push(m.clone());
                ts.push(t.clone())
            }
            Op::Import(a, b, ..) => {
                ms.push(a.clone());
                ms.push(b.clone())
            }
        }
    }
    (sorted_dedup(ms), sorted_dedup(rs), sorted_dedup(ts))
}

fn err_kind(e: &rust_rule_engine::errors::RuleEngineError) -> &'static str {
    let s = e.to_string();
    if s.contains("already exists") {
        "e:exists"
    } else if s.contains("Cannot delete default") {
        "e:default"
    } else if s.contains("Source module") {
        "e:source"
    } else if s.contains("Cyclic import") {
        "e:cycle"
    } else if s.contains("not found") {
        "e:notfound"
    } else {
        "e:other"
    }
}

fn list_or_dash(v: &[String]) -> String {
    if v.is_empty() { "-".into() } else { v.join(",") }
}

fn tri(r: rust_rule_engine::errors::Result<bool>) -> char {
    match r {
        Ok(true) => 'T',
        Ok(false) => 'F',
        Err(_) => 'E',
    }
}

/// g[!key>t1,t2]*  /  name!exists!rules!templates!exports!imports!vis!tvis!listing  / ...
fn snapshot(m: &ModuleManager, ms: &[String], rs: &[String], ts: &[String], with_extra: bool) -> String {
    let mut g: Vec<(String, Vec<String>)> = m
        .get_import_graph()
        .iter()
        .map(|(k, v)| (k.clone(), sorted_dedup(v.iter().cloned().collect())))
        .collect();
    g.sort();
    let mut out = String::from("g");
    for (k, v) in &g {
        out.push_str(&format!("!{}>{}", k, v.join(",")));
    }
    for name in ms {
        let vis: String = rs.iter().map(|r| tri(m.is_rule_visible(r, name))).collect();
        let tvis: String = ts.iter().map(|t| tri(m.is_template_visible(t, name))).collect();
        let listing = match m.get_visible_rules(name) {
            Ok(v) => {
                let mut v = v;
                v.sort();
                list_or_dash(&v)
            }
            Err(_) => "E".into(),
        };
        match m.get_module(name) {
            Ok(md) => {
                let rules = sorted_dedup(md.get_rules().iter().cloned().collect());
                let tmpls = sorted_dedup(md.get_templates().iter().cloned().collect());
                let imps: Vec<String> = md
                    .get_imports()
                    .iter()
                    .map(|d| format!("{}~{}~{}~{}", d.from_module, show_ty(&d.import_type), d.pattern, show_re(&d.re_export)))
                    .collect();
                out.push_str(&format!(
                    "/{}!1!{}!{}!{}!{}!{}!{}!{}",
                    name,
                    list_or_dash(&rules),
                    list_or_dash(&tmpls),
                    show_exports(md.get_exports()),
                    list_or_dash(&imps),
                    vis,
                    tvis,
                    listing
                ));
            }
            Err(_) => out.push_str(&format!("/{}!0!-!-!-!-!{}!{}!{}", name, vis, tvis, listing)),
        }
    }
    if with_extra {
        out.push('#');
        out.push_str(&extra(m, ms));
    }
    out
}

fn show_validation(v: &ModuleValidation) -> String {
    let unused = v.warnings.iter().filter(|w| w.starts_with("Import from")).count();
    let reexp = v.warnings.iter().filter(|w| w.starts_with("Re-export pattern")).count();
    let empty = v.warnings.iter().filter(|w| w.starts_with("Module is empty")).count();
    if unused + reexp + empty != v.warnings.len() || empty > 1 {
        return format!("?{}", hex(&v.warnings.join("|")));
    }
    if v.is_valid && v.errors.is_empty() && unused < 10 && reexp < 10 {
        return format!("{}{}{}", unused, reexp, empty); // the short form: valid, no errors
    }
    format!("{}.{}.{}.{}.{}", if v.is_valid { 1 } else { 0 }, v.errors.len(), unused, reexp, empty)
}

/// the remaining queries that read the module set / the import relation (reach audit):
/// extra := mods[!<dbg><stats><vall>[!other!total]](/[deps!val])*      (one `/deps!val` block per module name of the case, in order)
///   mods  = list_modules() as one 0/1 digit per module name of the case; `other` = listed names that are not names of the case
///   deps  = get_transitive_dependencies(name) sorted (`E` = Err);
///   val   = validate_module(name): `<#unused-import warnings><#re-export warnings><empty>` when is_valid and no errors,
///           else is_valid.#errors.#unused.#reexport.empty (`E` = Err)
///   dbg   = `=` iff get_import_graph_debug() shows the relation get_import_graph() shows
///   stats = `=` iff get_stats() shows list_modules() and, per module, the counts / export type get_module() shows
///   vall  = `=` iff validate_all_modules() has exactly the existing modules, each with its validate_module() answer
fn extra(m: &ModuleManager, ms: &[String]) -> String {
    let mut mods = m.list_modules();
    mods.sort();
    // twin: get_import_graph_debug
    let canon = |mut g: Vec<(String, Vec<String>)>| {
        for e in g.iter_mut() {
            e.1.sort();
        }
        g.sort();
        g
    };
    let g1 = canon(m.get_import_graph().iter().map(|(k, v)| (k.clone(), v.iter().cloned().collect())).collect());
    let g2 = canon(m.get_import_graph_debug());
    let dbg = if g1 == g2 { "=" } else { "X" };
    // twin: get_stats
    let st = m.get_stats();
    let mut st_names: Vec<String> = st.modules.keys().cloned().collect();
    st_names.sort();
    let mut stats_ok = st.total_modules == mods.len() && st_names == mods && m.get_module(&st.current_focus).is_ok();
    for (name, info) in &st.modules {
        match m.get_module(name) {
            Ok(md) => {
                let et = match md.get_exports() {
                    ExportList::All => "All".to_string(),
                    ExportList::None => "None".to_string(),
                    ExportList::Specific(items) => format!("Specific({})", items.len()),
                };
                stats_ok = stats_ok
                    && info.name == *name
                    && info.rules_count == md.get_rules().len()
                    && info.templates_count == md.get_templates().len()
                    && info.imports_count == md.get_imports().len()
                    && info.exports_type == et
                    && m.get_module_salience(name).ok() == Some(info.salience);
            }
            Err(_) => stats_ok = false,
        }
    }
    // twin: validate_all_modules
    let all = m.validate_all_modules();
    let mut all_names: Vec<String> = all.keys().cloned().collect();
    all_names.sort();
    let mut vall_ok = all_names == mods;
    for (name, v) in &all {
        match m.validate_module(name) {
            Ok(w) => vall_ok = vall_ok && v.module_name == *name && show_validation(v) == show_validation(&w),
            Err(_) => vall_ok = false,
        }
    }
    let bits: String = ms.iter().map(|n| if mods.contains(n) { '1' } else { '0' }).collect();
    let other: Vec<String> = mods.iter().filter(|n| !ms.contains(n)).cloned().collect();
    // the flags are omitted when all three twins agree
    let flags = format!("{}{}{}", dbg, if stats_ok { "=" } else { "X" }, if vall_ok { "=" } else { "X" });
    let mut out = if flags == "===" && other.is_empty() && mods.len() == bits.matches('1').count() { bits.clone() } else { format!("{}!{}", bits, flags) };
    if !other.is_empty() || mods.len() != bits.matches('1').count() + other.len() {
        out.push_str(&format!("!{}!{}", list_or_dash(&other), mods.len()));
    }
    for name in ms {
        let deps = match m.get_transitive_dependencies(name) {
            Ok(mut v) => {
                v.sort();
                list_or_dash(&v)
            }
            Err(_) => "E".into(),
        };
        let val = match m.validate_module(name) {
            Ok(v) => show_validation(&v),
            Err(_) => "E".into(),
        };
        // an empty block = no dependencies and `Err` from validate_module (the usual answer for a module that does not exist)
        if deps == "-" && val == "E" {
            out.push('/');
        } else {
            out.push_str(&format!("/{}!{}", deps, val));
        }
    }
    out
}

fn apply(m: &mut ModuleManager, op: &Op) -> &'static str {
    let r = match op.clone() {
        Op::Create(n) => m.create_module(n).map(|_| ()),
        Op::Delete(n) => m.delete_module(&n),
        Op::Export(n, e) => m.export_all_from(&n, e),
        Op::Rule(n, r) => m.get_module_mut(&n).map(|md| md.add_rule(r)),
        Op::Tmpl(n, t) => m.get_module_mut(&n).map(|md| md.add_template(t)),
        Op::Import(a, b, ty, p, None) => m.import_from(&a, &b, ty, p),
        Op::Import(a, b, ty, p, re) => m.import_from_with_reexport(&a, &b, ty, p, re),
    };
    match r {
        Ok(()) => "ok",
        Err(e) => err_kind(&e),
    }
}

/// GRL text for a `G` case: one `defmodule` block per create, carrying the export directive and the
/// imports addressed to that module that follow it (before the next create).
fn grl_text(ops: &[Op]) -> Option<String> {
    let mut blocks: Vec<(String, Option<String>, Vec<String>)> = Vec::new();
    // rule assignment through the text: `;; MODULE: M` comment + a rule (only after the last block, distinct rule names:
    // the parser registers every module first and resolves a rule's module from the FIRST occurrence of its name)
    let mut rules: Vec<(String, String)> = Vec::new();
    for op in ops {
        if !rules.is_empty() && !matches!(op, Op::Rule(..)) {
            return None;
        }
        match op {
            Op::Rule(m, r) => {
                if rules.iter().any(|x| &x.1 == r) {
                    return None;
                }
                rules.push((m.clone(), r.clone()));
            }
            Op::Create(n) => blocks.push((n.clone(), None, vec![])),
            Op::Export(n, e) => {
                let b = blocks.last_mut()?;
                if &b.0 != n || b.1.is_some() || !b.2.is_empty() {
                    return None;
                }
                b.1 = Some(match e {
                    ExportList::All => "all".into(),
                    ExportList::None => "none".into(),
                    ExportList::Specific(items) if items.len() == 1 && items[0].item_type == ItemType::All => items[0].pattern.clone(),
                    _ => return None,
                });
            }
            Op::Import(a, b, ty, p, None) if p == "*" => {
                let blk = blocks.last_mut()?;
                if &blk.0 != a {
                    return None;
                }
                let what = match ty {
                    ImportType::AllRules => "rules",
                    ImportType::AllTemplates => "templates",
                    _ => return None,
                };
                blk.2.push(format!("    import: {} ({} *)\n", b, what));
            }
            _ => return None,
        }
    }
    let mut s = String::new();
    for (n, e, imps) in blocks {
        s.push_str(&format!("defmodule {} {{\n", n));
        if let Some(e) = e {
            s.push_str(&format!("    export: {}\n", e));
        }
        for i in imps {
            s.push_str(&i);
        }
        s.push_str("}\n");
    }
    for (m, r) in rules {
        s.push_str(&format!(";; MODULE: {} - rules of {}\nrule \"{}\" salience 1 {{ when X == 1 then Y = 1; }}\n", m, m, r));
    }
    Some(s)
}

fn exec(case: &str) -> String {
    let Some((mode, ops)) = parse_case(case) else { return "bad-case".into() };
    let (ms, rs, ts) = universe(&ops);
    if mode == 'G' {
        // only the final state is observable through the parser; a refused import aborts the parse
        let Some(text) = grl_text(&ops) else { return "bad-case".into() };
        return match GRLParser::parse_with_modules(&text) {
            Ok(p) => format!("ok/{}", snapshot(&p.module_manager, &ms, &rs, &ts, true)),
            Err(e) => {
                let s = e.to_string();
                if s.contains("Cyclic import") {
                    "e:cycle".into()
                } else if s.contains("Source module") {
                    "e:source".into()
                } else {
                    format!("e:other:{}", hex(&s))
                }
            }
        };
    }
    let mut m = ModuleManager::new();
    let mut steps = Vec::new();
    for (i, op) in ops.iter().enumerate() {
        let r = apply(&mut m, op);
        if mode == 'L' && i + 2 < ops.len() {
            steps.push(r.to_string());
        } else {
            // the extra queries: after every step (full mode) / after the last step only (`L`: every prefix is its own case)
            steps.push(format!("{}/{}", r, snapshot(&m, &ms, &rs, &ts, mode != 'L' || i + 1 == ops.len())));
        }
    }
    if steps.is_empty() { "-".into() } else { steps.join(";") }
}

// ------------------------------------------------------------------------------------ generation

const PATS: [&str; 8] = ["*", "r*", "*1", "r1", "?ALL", "s*", "*2", "x*"];

/// starting states for the exhaustive part (the alphabet below then acts on A, B, C, MAIN)
const PRESETS: [&str; 3] = [
    // three modules, rules everywhere, A and C export, one import with a re-export already declared
    "c:A c:B c:C r:A:r1 r:B:r2 r:C:s1 x:A:all x:C:s,R~s*",
    // chain C -> B -> A already present, B re-exports r* from A
    "c:A c:B c:C r:A:r1 r:A:r2 r:MAIN:s1 x:A:all i:B:A:AR:*:+r* i:C:B:A:r*",
    // only A exists; B, C must be created by the sequence itself
    "c:A r:A:r1 t:A:t1 x:A:s,A~*1",
];

fn alphabet(full: bool) -> Vec<&'static str> {
    let mut a = vec![
        "i:A:B:AR:*", "i:B:A:AR:*", "i:B:C:R:r*", "i:C:B:AR:*", "i:C:A:A:*:+r*", "i:A:C:AR:*1",
        "i:A:A:AR:*", "i:A:MAIN:AR:*", "i:MAIN:A:A:?ALL",
        "d:A", "d:B", "d:C",
        "c:A", "c:B", "c:C",
    ];
    if full {
        a.extend_from_slice(&[
            "d:MAIN", "x:A:none", "x:B:all", "x:B:s,R~r*", "r:B:r1", "r:C:r2", "t:B:t1", "i:C:A:AT:*", "i:B:A:T:t*:-t*",
            "i:B:D:AR:*", "i:D:A:AR:*",
        ]);
    }
    a
}

/// every sequence over `alpha` of length 1..=len after `prefix`, as `L` cases (snapshots after the last
/// two operations only: every shorter sequence is a case of its own)
fn enumerate(alpha: &[&str], len: usize, prefix: &str, out: &mut Vec<String>) {
    let mut frontier: Vec<String> = vec![if prefix.is_empty() { "L".to_string() } else { format!("L {}", prefix) }];
    for _ in 0..len {
        let mut next = Vec::with_capacity(frontier.len() * alpha.len());
        for s in &frontier {
            for a in alpha {
                next.push(format!("{} {}", s, a));
            }
        }
        out.extend(next.iter().cloned());
        frontier = next;
    }
}

fn rand_op(rng: &mut Rng) -> String {
    let mods = ["A", "B", "C", "MAIN", "A", "B", "C", "D"];
    let rules = ["r1", "r2", "s1"];
    let tmpls = ["t1", "u1"];
    let m = *rng.pick(&mods);
    match rng.below(20) {
        0..=3 => format!("c:{}", m),
        4..=5 => format!("d:{}", m),
        6..=7 => match rng.below(4) {
            0 => format!("x:{}:all", m),
            1 => format!("x:{}:none", m),
            _ => {
                let n = rng.below(3);
                let mut s = format!("x:{}:s", m);
                for _ in 0..n {
                    s.push_str(&format!(",{}~{}", rng.pick(&["R", "T", "A", "F"]), rng.pick(&PATS)));
                }
                s
            }
        },
        8..=10 => format!("r:{}:{}", m, rng.pick(&rules)),
        11 => format!("t:{}:{}", m, rng.pick(&tmpls)),
        _ => {
            let from = *rng.pick(&mods);
            let ty = *rng.pick(&["AR", "AR", "R", "A", "AT", "T"]);
            let pat = *rng.pick(&PATS);
            let re = match rng.below(4) {
                0 => format!(":+{}", rng.pick(&PATS)),
                1 if rng.chance(1, 2) => format!(":-{}^{}", rng.pick(&PATS), rng.pick(&PATS)),
                1 => ":+".to_string(),
                _ => String::new(),
            };
            format!("i:{}:{}:{}:{}{}", m, from, ty, pat, re)
        }
    }
}

fn gen(rng: &mut Rng, n: usize, tier: &str) -> Vec<String> {
    let mut out = Vec::new();
    let thorough = tier == "thorough";
    // (1) exhaustive: every sequence over the core alphabet of length <= L after each preset,
    //     and every sequence over the full alphabet of length <= L-1
    //     (thorough: length 5 over the core alphabet after the first preset)
    for (k, p) in PRESETS.iter().enumerate() {
        enumerate(&alphabet(false), if thorough && k == 0 { 5 } else { 4 }, p, &mut out);
        enumerate(&alphabet(true), 3, p, &mut out);
    }
    // from the empty manager (only MAIN): creation has to happen inside the sequence
    enumerate(&["c:A", "c:B", "i:A:B:AR:*", "i:B:A:A:*:+*", "d:A", "d:B", "r:A:r1", "x:A:all", "i:A:MAIN:AR:*", "i:MAIN:A:AR:*"],
              5, "", &mut out);
    // (2) random: length 1..7 from the empty manager, and 1..7 after a random preset / creates
    for k in 0..n {
        let len = rng.range(1, 7) as usize;
        let mut ops: Vec<String> = Vec::new();
        match k % 4 {
            0 => {}
            1 => ops.push("c:A c:B c:C".into()),
            2 => ops.push("c:A c:B c:C r:A:r1 r:B:r2 r:C:s1 x:A:all x:B:all".into()),
            _ => ops.push(rng.pick(&PRESETS).to_string()),
        }
        for _ in 0..len {
            ops.push(rand_op(rng));
        }
        out.push(ops.join(" "));
    }
    // (3) the GRL front-end: defmodule blocks = create + export + imports
    let gn = if thorough { n / 4 } else { n / 10 };
    for _ in 0..gn {
        let mut names = vec!["A", "B", "C", "MAIN"];
        rng.shuffle(&mut names);
        let k = rng.range(1, 4) as usize;
        let mut ops = vec!["G".to_string()];
        for i in 0..k {
            let me = names[i];
            ops.push(format!("c:{}", me));
            match rng.below(4) {
                0 => ops.push(format!("x:{}:all", me)),
                1 => ops.push(format!("x:{}:none", me)),
                2 => ops.push(format!("x:{}:s,A~{}", me, rng.pick(&["r*", "*1", "s1"]))),
                _ => {}
            }
            for _ in 0..rng.below(3) {
                // mostly from a module that already has its block (a later one is "not found")
                let from = if rng.chance(5, 6) {
                    let j = rng.below(i as u64 + 1) as usize;
                    if j == i { "MAIN" } else { names[j] }
                } else {
                    *rng.pick(&["A", "B", "C", "MAIN", "D"])
                };
                ops.push(format!("i:{}:{}:{}:*", me, from, rng.pick(&["AR", "AT"])));
            }
        }
        // rules assigned to modules by `;; MODULE:` comments (a second representation of add_rule), incl. a missing module
        let mut rn = vec!["r1", "r2", "s1"];
        rng.shuffle(&mut rn);
        for r in rn.iter().take(rng.below(4) as usize) {
            ops.push(format!("r:{}:{}", rng.pick(&["A", "B", "C", "MAIN", "D"]), r));
        }
        out.push(ops.join(" "));
    }
    // (4), (5): constructive families, no randomness (they do not depend on the random stream)
    reconvergent_family(thorough, &mut out);
    export_order_family(&mut out);
    out
}

/// (4) reconvergent import graphs (seeded C18-4): every DAG over 4 and 5 modules and a deterministic sample of the DAGs over
/// 6 modules (edge i -> j, i < j: module i imports module j), built by accepted imports, followed by every cycle-closing
/// import `b imports a` (a reaches b) for which the search from a meets a RECONVERGENCE (some module is reached from a along
/// two different paths - the situation in which the breadth-first search sees an already-visited module). Each
/// (graph, closing import) is REPEATED under several injective renamings of the modules (7 names incl. MAIN, creation and
/// import order varied): every case runs on a fresh manager whose HashSets have their own random hash keys, so the
/// iteration order of a module's import set differs between the repetitions. Expected on every repetition: `e:cycle`,
/// nothing changed, the relation stays acyclic. One more repetition goes through the GRL front-end (`G`; b plays MAIN,
/// whose block comes last).
fn reconvergent_family(thorough: bool, out: &mut Vec<String>) {
    // (`E` is not a usable module name: the observation grammar prints `E` for an Err)
    const POOL: [&str; 7] = ["A", "B", "C", "D", "K", "F", "MAIN"];
    for n in 4..=6usize {
        let pairs: Vec<(usize, usize)> = (0..n).flat_map(|i| (i + 1..n).map(move |j| (i, j))).collect();
        let n_masks: u64 = 1 << pairs.len();
        // n = 6: a stride through the 32768 graphs (coprime with 2^15), graphs of 5..9 imports
        let (stride, count, reps): (u64, u64, usize) = match n {
            4 => (1, n_masks, if thorough { 16 } else { 12 }),
            5 => (1, n_masks, if thorough { 8 } else { 2 }),
            _ => (7919, if thorough { 4000 } else { 400 }, if thorough { 6 } else { 2 }),
        };
        let mut combo = 0usize;
        for t in 0..count {
            let mask = (t * stride + if n == 6 { 12345 } else { 0 }) % n_masks;
            let edges: Vec<(usize, usize)> = pairs.iter().enumerate().filter(|(k, _)| (mask >> k) & 1 == 1).map(|(_, e)| *e).collect();
            if n == 6 && !(5..=9).contains(&edges.len()) {
                continue;
            }
            // paths[a][x] = number of paths a ->* x (capped), by decreasing a (edges go upwards)
            let mut paths = vec![vec![0u32; n]; n];
            for a in (0..n).rev() {
                paths[a][a] = 1;
                for &(i, j) in &edges {
                    if i == a {
                        for x in 0..n {
                            paths[a][x] = (paths[a][x] + paths[j][x]).min(9);
                        }
                    }
                }
            }
            for a in 0..n {
                if !(0..n).any(|x| paths[a][x] >= 2) {
                    continue;
                }
                for b in a + 1..n {
                    if paths[a][b] == 0 {
                        continue;
                    }
                    combo += 1;
                    for q in 0..=reps {
                        let grl = q == reps;
                        let m = 1 + (q + q / 7 + combo) % 6;
                        // the GRL repetition: b is MAIN
                        let r = if grl { (6 + 7 * 6 - (b * m) % 7) % 7 } else { (q + combo / 6) % 7 };
                        let name = |i: usize| POOL[(i * m + r) % 7];
                        let mut toks: Vec<String> = Vec::new();
                        if grl {
                            toks.push("G".into());
                            for j in (0..n).rev().filter(|j| *j != b).chain(std::iter::once(b)) {
                                toks.push(format!("c:{}", name(j)));
                                for &(i, k) in &edges {
                                    if i == j {
                                        toks.push(format!("i:{}:{}:AR:*", name(i), name(k)));
                                    }
                                }
                            }
                            toks.push(format!("i:{}:{}:AR:*", name(b), name(a)));
                        } else {
                            toks.push("L".into());
                            for i in 0..n {
                                let i = (i + q) % n;
                                if name(i) != "MAIN" {
                                    toks.push(format!("c:{}", name(i)));
                                }
                            }
                            let mut es = edges.clone();
                            if q % 2 == 1 {
                                es.reverse();
                            }
                            es.rotate_left((q / 2) % edges.len().max(1));
                            for (i, k) in es {
                                toks.push(format!("i:{}:{}:{}:*", name(i), name(k), if (i + k + q) % 3 == 0 { "AT" } else { "AR" }));
                            }
                            toks.push(format!("i:{}:{}:AR:*", name(b), name(a)));
                        }
                        out.push(toks.join(" "));
                    }
                }
            }
        }
    }
}

/// (5) export lists whose entries OVERLAP (seeded C18-14): module A owns rules r1, s1 and templates t1, r1, module B imports
/// from it; A's export list has 2..4 entries of mixed item types (Rule / Template / Fact / All) with overlapping patterns,
/// in EVERY order: whether a rule / template is exported (hence visible, listed) must not depend on the order of the list.
fn export_order_family(out: &mut Vec<String>) {
    const KINDS: [&str; 4] = ["R", "T", "F", "A"];
    const IMPORTS: [&str; 4] = ["i:B:A:A:*", "i:B:A:AR:*", "i:B:A:R:r*", "i:B:A:T:*1:+r*"];
    let mut idx = 0usize;
    let mut emit = |entries: &[(usize, &str)], out: &mut Vec<String>| {
        let list: Vec<String> = entries.iter().map(|(k, p)| format!("{}~{}", KINDS[*k], p)).collect();
        out.push(format!("L c:A c:B r:A:r1 r:A:s1 t:A:t1 t:A:r1 {} x:A:s,{}", IMPORTS[idx % IMPORTS.len()], list.join(",")));
        idx += 1;
    };
    // two entries: every ordered pair over 4 types x 5 patterns
    let pats5 = ["*", "r*", "*1", "r1", "s*"];
    let pool5: Vec<(usize, &str)> = (0..4).flat_map(|k| pats5.iter().map(move |p| (k, *p))).collect();
    for a in &pool5 {
        for b in &pool5 {
            emit(&[*a, *b], out);
        }
    }
    // three entries: every triple of distinct entries over 4 types x 3 patterns with at least two types, every order
    let pats3 = ["*", "r*", "*1"];
    let pool3: Vec<(usize, &str)> = (0..4).flat_map(|k| pats3.iter().map(move |p| (k, *p))).collect();
    const ORD3: [[usize; 3]; 6] = [[0, 1, 2], [0, 2, 1], [1, 0, 2], [1, 2, 0], [2, 0, 1], [2, 1, 0]];
    for x in 0..pool3.len() {
        for y in x + 1..pool3.len() {
            for z in y + 1..pool3.len() {
                let e = [pool3[x], pool3[y], pool3[z]];
                if e[0].0 == e[1].0 && e[1].0 == e[2].0 {
                    continue;
                }
                for o in ORD3 {
                    emit(&[e[o[0]], e[o[1]], e[o[2]]], out);
                }
            }
        }
    }
    // four entries: one per item type, every choice of its pattern, every order
    let mut perms: Vec<[usize; 4]> = Vec::new();
    for a in 0..4 {
        for b in 0..4 {
            for c in 0..4 {
                for d in 0..4 {
                    let p = [a, b, c, d];
                    if (0..4).all(|v| p.contains(&v)) {
                        perms.push(p);
                    }
                }
            }
        }
    }
    for code in 0..81usize {
        let e: Vec<(usize, &str)> = (0..4).map(|k| (k, pats3[(code / 3usize.pow(k as u32)) % 3])).collect();
        for p in &perms {
            emit(&[e[p[0]], e[p[1]], e[p[2]], e[p[3]]], out);
        }
    }
}

fn shrink(case: &str) -> Vec<String> {
    let toks: Vec<String> = case.split_whitespace().map(|s| s.to_string()).collect();
    if toks.first().map(|s| s.as_str()) == Some("G") {
        return shrink_list(&toks[1..])
            .into_iter()
            .map(|v| format!("G {}", v.join(" ")))
            .collect();
    }
    if toks.first().map(|s| s.as_str()) == Some("L") {
        // first switch to full snapshots, then shrink as usual
        let mut out = vec![toks[1..].join(" ")];
        out.extend(shrink_list(&toks[1..]).into_iter().map(|v| format!("L {}", v.join(" "))));
        return out;
    }
    let mut out: Vec<String> = shrink_list(&toks).into_iter().map(|v| v.join(" ")).collect();
    // drop a re-export suffix / simplify a pattern
    for (i, t) in toks.iter().enumerate() {
        let f: Vec<&str> = t.split(':').collect();
        if f[0] == "i" && f.len() == 6 {
            let mut v = toks.clone();
            v[i] = f[..5].join(":");
            out.push(v.join(" "));
        }
        if f[0] == "i" && f.len() >= 5 && f[4] != "*" {
            let mut v = toks.clone();
            let mut g: Vec<String> = f.iter().map(|s| s.to_string()).collect();
            g[4] = "*".into();
            v[i] = g.join(":");
            out.push(v.join(" "));
        }
    }
    out
}

fn main() {
    main_with(Prop { gen, exec, shrink });
}
