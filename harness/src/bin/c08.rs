//! C08 — truth maintenance: IncrementalEngine {insert, insert_explicit, insert_logical, retract,
//! tms_mut().add_*_justification} + a stand-alone TruthMaintenanceSystem fed the same calls (to
//! observe the return value of retract_with_cascade, which the engine swallows).
//!
//! case := op op …      I | E | L<ps> | J<f>:<ps> | X<f> | R<h>      <ps> := - | p,p,…
//!         I = engine.insert, E = engine.insert_explicit, L = engine.insert_logical(premises),
//!         J = tms_mut().add_logical_justification(f, premises), X = tms_mut().add_explicit_justification(f),
//!         R = engine.retract(h), C = working_memory_mut().clear_modification_tracking() (the public maintenance call
//!         "after propagation" of the pending modified / retracted tracking sets: it inserts and retracts nothing, so its
//!         step — result `c` — must repeat the previous step's sets; the driver checks that and removes the step before
//!         the model / the Spec oracle see the history).  Handles are the numbers working memory hands out (1, 2, …); they
//!         are decimal numbers of any length and premise lists have any length (`L12,7,30,1,2,44,9,10`).
//!         Rule names: every logical token (`L`, `Lk`, `J`, `Fl`) may end in `@<n>` = the SOURCE-RULE NAME handed to the call is
//!         entry n of `RULE_NAMES` (empty, blank, very long, non-ASCII, names of other justifications, fact types, words such as
//!         "explicit"); without the suffix the names are "rule" (L, Lk, Fl) and "rule2" (J) as before. The name is a label: the
//!         model, the oracle and every other part of this file see the history WITHOUT the suffixes (`parse_case`).
//! obs  := step;step;…  step := res/present/logical/explicit/valid/stats
//!         res = h<k> | u | ok:<cascade> | err ; the four sets are over the universe 1..=K
//!         (K = max(#inserting ops + 1, largest handle mentioned)), sorted; stats = TmsStats fields.
use rre_harness::*;
use rust_rule_engine::rete::tms::TruthMaintenanceSystem;
use rust_rule_engine::rete::{
    ActionResult, AlphaNode, DeffactsBuilder, FactHandle, FactValue, GrlReteLoader, IncrementalEngine, ReteUlNode, TemplateBuilder,
    TypedFacts, TypedReteUlRule,
};
use std::sync::{Arc, Mutex};

/// the one ActionResult the fired rule's action returns (op `F<a>`)
#[derive(Clone, Debug, PartialEq)]
enum Act {
    R(u64),      // r<h>  ActionResult::Retract(h)            (what GRL `retract($X)` produces)
    T(u64),      // t<h>  ActionResult::RetractByType(type of h)  (deterministic only for `N` facts: a type of their own)
    I,           // i     ActionResult::InsertFact
    L(Vec<u64>), // l<ps> ActionResult::InsertLogicalFact { premises }
    U(u64),      // u<h>  ActionResult::Update(h)
    N,           // n     ActionResult::None
    G,           // g     ActionResult::ActivateAgendaGroup
    C,           // c     ActionResult::CallFunction (not registered)
    S,           // s     ActionResult::ScheduleRule
    M,           // m     no result: the action modifies F.v / adds D.w, fire_all writes the fields back (working_memory.update)
}

/// the reach ops: engine paths beyond insert / insert_explicit / insert_logical / retract / tms_mut()
#[derive(Clone, Debug, PartialEq)]
enum Ext {
    N,      // engine.insert("N<handle>", ..): a fact type of its own
    P,      // engine.insert_with_template("P", ..)
    D,      // engine.load_deffacts_by_name("one")   (one fact, of the template type)
    G,      // engine.load_deffacts()
    U(u64), // engine.update(h, ..)
    A,      // engine.add_rule(aux rule depending on F, D)
    Z,      // engine.reset()
    F(Act), // engine.insert("T", go=1) [step 1]; reset(); fire_all() with the scripted action [step 2]
    FG(Vec<Act>), // `F<a>+<a>[+<a>]`: the same, the fired rule's action returns SEVERAL ActionResults (in this order) in ONE firing
    K(u64), // engine.update(h, kill=true); reset(); fire_all(): GRL rule `when F.kill == true then retract($F)`
    W,      // engine.reset_with_deffacts()
    Lk(Vec<u64>), // engine.resolve_premise_keys(["<type>.id=<p>", ..]) must find the live premises; then insert_logical
}

#[derive(Clone, Debug, PartialEq)]
enum Op {
    I,
    E,
    L(Vec<u64>),
    J(u64, Vec<u64>),
    X(u64),
    R(u64),
    C,
    Q(u64), // `Q<f>` = PROMOTE a fact to a stated one: tms_mut().remove_justifications(f) + tms_mut().add_explicit_justification(f)
    Ext(Ext),
}
// Ext::Lk(ps): insert_logical after resolve_premise_keys

fn parse_act(t: &str) -> Option<Act> {
    if t.is_empty() {
        return None;
    }
    let (a, arg) = t.split_at(1);
    Some(match a {
        "r" => Act::R(arg.parse().ok()?),
        "t" => Act::T(arg.parse().ok()?),
        "u" => Act::U(arg.parse().ok()?),
        "i" if arg.is_empty() => Act::I,
        "n" if arg.is_empty() => Act::N,
        "g" if arg.is_empty() => Act::G,
        "c" if arg.is_empty() => Act::C,
        "s" if arg.is_empty() => Act::S,
        "m" if arg.is_empty() => Act::M,
        "l" => Act::L(parse_nums(arg)?),
        _ => return None,
    })
}

fn show_act(a: &Act) -> String {
    match a {
        Act::R(h) => format!("r{}", h),
        Act::T(h) => format!("t{}", h),
        Act::U(h) => format!("u{}", h),
        Act::I => "i".into(),
        Act::N => "n".into(),
        Act::G => "g".into(),
        Act::C => "c".into(),
        Act::S => "s".into(),
        Act::M => "m".into(),
        Act::L(ps) => format!("l{}", join_nums(ps)),
    }
}

fn parse_op(t: &str) -> Option<Op> {
    if t.is_empty() {
        return None;
    }
    let (k, rest) = t.split_at(1);
    Some(match k {
        "I" if rest.is_empty() => Op::I,
        "E" if rest.is_empty() => Op::E,
        "C" if rest.is_empty() => Op::C,
        "L" if rest.starts_with('k') => Op::Ext(Ext::Lk(parse_nums(&rest[1..])?)),
        "L" => Op::L(parse_nums(rest)?),
        "J" => {
            let (f, ps) = rest.split_once(':')?;
            Op::J(f.parse().ok()?, parse_nums(ps)?)
        }
        "X" => Op::X(rest.parse().ok()?),
        "R" => Op::R(rest.parse().ok()?),
        "Q" => Op::Q(rest.parse().ok()?),
        "N" if rest.is_empty() => Op::Ext(Ext::N),
        "P" if rest.is_empty() => Op::Ext(Ext::P),
        "D" if rest.is_empty() => Op::Ext(Ext::D),
        "G" if rest.is_empty() => Op::Ext(Ext::G),
        "A" if rest.is_empty() => Op::Ext(Ext::A),
        "Z" if rest.is_empty() => Op::Ext(Ext::Z),
        "W" if rest.is_empty() => Op::Ext(Ext::W),
        "U" => Op::Ext(Ext::U(rest.parse().ok()?)),
        "K" => Op::Ext(Ext::K(rest.parse().ok()?)),
        "F" if rest.contains('+') => {
            let acts: Vec<Act> = rest.split('+').map(parse_act).collect::<Option<Vec<_>>>()?;
            if acts.len() < 2 || acts.contains(&Act::M) {
                return None;
            }
            Op::Ext(Ext::FG(acts))
        }
        "F" if !rest.is_empty() => Op::Ext(Ext::F(parse_act(rest)?)),
        _ => return None,
    })
}

fn show_op(o: &Op) -> String {
    match o {
        Op::I => "I".into(),
        Op::E => "E".into(),
        Op::L(ps) => format!("L{}", join_nums(ps)),
        Op::J(f, ps) => format!("J{}:{}", f, join_nums(ps)),
        Op::X(f) => format!("X{}", f),
        Op::R(h) => format!("R{}", h),
        Op::Q(h) => format!("Q{}", h),
        Op::C => "C".into(),
        Op::Ext(e) => match e {
            Ext::N => "N".into(),
            Ext::P => "P".into(),
            Ext::D => "D".into(),
            Ext::G => "G".into(),
            Ext::A => "A".into(),
            Ext::Z => "Z".into(),
            Ext::W => "W".into(),
            Ext::U(h) => format!("U{}", h),
            Ext::K(h) => format!("K{}", h),
            Ext::Lk(ps) => format!("Lk{}", join_nums(ps)),
            Ext::F(a) => format!("F{}", show_act(a)),
            Ext::FG(acts) => format!("F{}", acts.iter().map(show_act).collect::<Vec<_>>().join("+")),
        },
    }
}

fn parse_case(case: &str) -> Option<Vec<Op>> {
    parse_case_named(case).map(|(ops, _)| ops)
}

/// the source-rule names a logical token's `@<n>` suffix selects (the whole class of "the rule name as an input": the name is a
/// label and must never influence support). Entry 0 is the empty string so that minimised inputs read `L1@0`.
fn rule_names() -> &'static Vec<String> {
    static NAMES: std::sync::OnceLock<Vec<String>> = std::sync::OnceLock::new();
    NAMES.get_or_init(|| {
        let mut v: Vec<String> = [
            "", " ", "\t\n", "rule", "rule2", "D", "F", "T", "P", "explicit", "Explicit", "logical", "None", "null", "0", "-1",
            "  rule  ", "\u{0}", "\u{feff}", "r\u{e8}gle", "re\u{301}gle", "\u{89c4}\u{5219}", "\u{1f525}", "killF", "act", "a\"b\\c", "Some(\"rule\")",
            "rule \"x\" { when F.v > 0 then retract($F); }", "D.id=1", "*", "%", "\u{1}0\u{2}",
        ]
        .iter()
        .map(|s| s.to_string())
        .collect();
        v.push("r".repeat(300));
        v.push("\u{89c4}".repeat(10_000));
        v.push(" ".repeat(64));
        v
    })
}

fn is_logical_tok(o: &Op) -> bool {
    matches!(o, Op::L(_) | Op::J(..) | Op::Ext(Ext::Lk(_)) | Op::Ext(Ext::F(Act::L(_))))
        || matches!(o, Op::Ext(Ext::FG(acts)) if matches!(acts[0], Act::L(_)))
}

/// the operations of a case and, per operation, the index of the rule name its token selects (`None`: the default name)
fn parse_case_named(case: &str) -> Option<(Vec<Op>, Vec<Option<usize>>)> {
    let mut ops = Vec::new();
    let mut names = Vec::new();
    for t in case.split_whitespace() {
        let (body, name) = match t.split_once('@') {
            Some((b, n)) => (b, Some(n.parse::<usize>().ok().filter(|i| *i < rule_names().len())?)),
            None => (t, None),
        };
        let op = parse_op(body)?;
        if name.is_some() && !is_logical_tok(&op) {
            return None;
        }
        ops.push(op);
        names.push(name);
    }
    Some((ops, names))
}

fn show_case_named(ops: &[Op], names: &[Option<usize>]) -> String {
    ops.iter()
        .zip(names)
        .map(|(o, n)| match n {
            Some(i) if is_logical_tok(o) => format!("{}@{}", show_op(o), i),
            _ => show_op(o),
        })
        .collect::<Vec<_>>()
        .join(" ")
}

fn show_case(ops: &[Op]) -> String {
    ops.iter().map(show_op).collect::<Vec<_>>().join(" ")
}

fn has_ext(ops: &[Op]) -> bool {
    ops.iter().any(|o| matches!(o, Op::Ext(_)))
}

/// the fact types of the handles an operation creates, in creation order (F / D: the shared types of explicit / logical
/// facts, N: a type of its own, P: the template type, T: trigger facts)
fn kinds_of(o: &Op) -> Vec<u8> {
    let k: &[u8] = match o {
        Op::I | Op::E => b"F",
        Op::L(_) | Op::Ext(Ext::Lk(_)) => b"D",
        Op::Ext(Ext::N) => b"N",
        Op::Ext(Ext::P) | Op::Ext(Ext::D) | Op::Ext(Ext::G) | Op::Ext(Ext::W) => b"P",
        Op::Ext(Ext::F(Act::I)) => b"TF",
        Op::Ext(Ext::F(Act::L(_))) => b"TD",
        Op::Ext(Ext::FG(acts)) => {
            let mut v = vec![b'T'];
            for a in acts {
                match a {
                    Act::I => v.push(b'F'),
                    Act::L(_) => v.push(b'D'),
                    _ => {}
                }
            }
            return v;
        }
        Op::Ext(Ext::F(_)) => b"T",
        _ => b"",
    };
    k.to_vec()
}

fn kind_at(kinds: &[u8], h: u64) -> u8 {
    if h == 0 { b'?' } else { kinds.get(h as usize - 1).copied().unwrap_or(b'?') }
}

/// the histories of a case: `W` (reset_with_deffacts) starts a new one, of which it is the first operation
fn segments(ops: &[Op]) -> Vec<Vec<Op>> {
    let mut segs: Vec<Vec<Op>> = vec![Vec::new()];
    for o in ops {
        if matches!(o, Op::Ext(Ext::W)) {
            segs.push(Vec::new());
        }
        segs.last_mut().unwrap().push(o.clone());
    }
    segs.retain(|s| !s.is_empty());
    segs
}

/// `K<h>` / `Ft<h>` name a handle the code can only reach when `h` has the right fact type (K: a GRL rule exists for F and D;
/// t: only an `N` fact has its type to itself): the handle the operation is about, or 0 = nothing happens
fn eff_target(kinds: &[u8], o: &Op) -> Option<u64> {
    match o {
        Op::Ext(Ext::K(h)) => Some(if matches!(kind_at(kinds, *h), b'F' | b'D') { *h } else { 0 }),
        Op::Ext(Ext::F(Act::T(h))) => Some(if kind_at(kinds, *h) == b'N' { *h } else { 0 }),
        _ => None,
    }
}

/// universe of one history (the driver computes the same number: Spec.universeOf of the desugared operations)
fn universe_seg(ops: &[Op]) -> u64 {
    let kinds: Vec<u8> = ops.iter().flat_map(|o| kinds_of(o)).collect();
    let ins = kinds.len() as u64;
    let mut mx = 0u64;
    let top = |ps: &Vec<u64>| ps.iter().copied().max().unwrap_or(0);
    for o in ops {
        match o {
            Op::I | Op::E | Op::C => {}
            Op::L(ps) => mx = mx.max(top(ps)),
            Op::J(f, ps) => mx = mx.max(*f).max(top(ps)),
            Op::X(f) | Op::R(f) | Op::Q(f) => mx = mx.max(*f),
            Op::Ext(Ext::F(Act::R(h))) => mx = mx.max(*h),
            Op::Ext(Ext::F(Act::L(ps))) | Op::Ext(Ext::Lk(ps)) => mx = mx.max(top(ps)),
            Op::Ext(Ext::FG(acts)) => {
                for a in acts {
                    match a {
                        Act::R(h) => mx = mx.max(*h),
                        Act::L(ps) => mx = mx.max(top(ps)),
                        Act::T(h) => mx = mx.max(if kind_at(&kinds, *h) == b'N' { *h } else { 0 }),
                        _ => {}
                    }
                }
            }
            Op::Ext(_) => mx = mx.max(eff_target(&kinds, o).unwrap_or(0)),
        }
    }
    (ins + 1).max(mx)
}

fn universe(ops: &[Op]) -> u64 {
    segments(ops).iter().map(|s| universe_seg(s)).max().unwrap_or(1)
}

fn hs(v: &[u64]) -> Vec<FactHandle> {
    v.iter().map(|x| FactHandle::new(*x)).collect()
}

/// (the ActionResult the next firing returns, a value the action writes into F.v / D.w first — 0 = it modifies nothing)
type Script = Arc<Mutex<(Vec<ActionResult>, i64)>>;

/// what a case with reach ops needs on the engine before the first fact: the trigger rule `act` (built through the API; its
/// action returns the scripted ActionResult), the GRL rules killF / killD (`retract($F)`), the template P and the deffacts `one`
fn setup_engine(eng: &mut IncrementalEngine, script: &Script) {
    let sc = script.clone();
    let rule = TypedReteUlRule {
        name: "act".to_string(),
        node: ReteUlNode::UlAlpha(AlphaNode { field: "T.go".to_string(), operator: ">".to_string(), value: "0".to_string() }),
        priority: 0,
        no_loop: true,
        action: Arc::new(move |facts, results| {
            let mut g = sc.lock().unwrap();
            if g.1 != 0 {
                facts.set("F.v", FactValue::Integer(g.1));
                facts.set("D.w", FactValue::Integer(g.1));
                g.1 = 0;
            }
            for a in g.0.drain(..) {
                results.add(a);
            }
        }),
    };
    eng.add_rule(rule, vec!["T".to_string()]);
    let grl = "rule \"killF\" no-loop { when F.kill == true then retract($F); }\n\
               rule \"killD\" no-loop { when D.kill == true then retract($D); }\n";
    GrlReteLoader::load_from_string(grl, eng).expect("kill rules load");
    eng.templates_mut().register(TemplateBuilder::new("P").integer_field("v").integer_field("id").build());
    let mut d = TypedFacts::new();
    d.set("v", FactValue::Integer(1));
    eng.deffacts_mut().register(DeffactsBuilder::new("one").add_fact("P", d).build()).expect("deffacts");
}

fn aux_rule(i: usize) -> TypedReteUlRule {
    TypedReteUlRule {
        name: format!("aux{}", i),
        node: ReteUlNode::UlAlpha(AlphaNode { field: "F.v".to_string(), operator: ">=".to_string(), value: "0".to_string() }),
        priority: 5,
        no_loop: true,
        action: Arc::new(|_, _| {}),
    }
}

/// fact data: `id` = the handle the fact gets / has (what resolve_premise_keys looks facts up by)
fn data_id(v: i64, id: u64) -> TypedFacts {
    let mut d = TypedFacts::new();
    d.set("v", FactValue::Integer(v));
    d.set("id", FactValue::Integer(id as i64));
    d
}

struct Run {
    eng: IncrementalEngine,
    twin: TruthMaintenanceSystem,
    types: Vec<String>, // fact type of handle i+1 (this history)
    noid: Vec<u64>,     // handles whose data has no `id` field (deffacts facts)
    k: u64,
    deep: bool,
    steps: Vec<String>,
    name: Option<usize>, // the rule name the current operation's token selects
}

impl Run {
    /// the source-rule name of the current logical operation (`default`: what the harness always passed before)
    fn rule_name(&self, default: &str) -> String {
        match self.name {
            Some(i) => rule_names()[i].clone(),
            None => default.to_string(),
        }
    }
    /// post-condition of recording a logical justification for `h`: the newest justification of `h` is Logical, names exactly the
    /// rule it was given (also the empty name) and lists exactly the premises it was given
    fn name_flag(&self, h: u64, name: &str, ps: &[u64]) -> &'static str {
        let ok = |t: &TruthMaintenanceSystem| {
            t.get_justifications(FactHandle::new(h)).last().map_or(false, |j| {
                j.justification_type == rust_rule_engine::rete::tms::JustificationType::Logical
                    && j.source_rule.as_deref() == Some(name)
                    && j.premise_facts.iter().map(|p| p.id()).collect::<Vec<_>>() == ps
            })
        };
        if ok(self.eng.tms()) && ok(&self.twin) { "" } else { "!rulename" }
    }
    fn next(&self) -> u64 {
        self.types.len() as u64 + 1
    }
    fn present(&self, h: u64) -> bool {
        self.eng.working_memory().get(&FactHandle::new(h)).is_some()
    }
    fn created(&mut self, h: FactHandle, ty: &str, explicit: bool, ps: &[u64]) -> String {
        let mut flag = "";
        if h.id() != self.types.len() as u64 + 1 {
            flag = "!handle";
        }
        self.types.push(ty.to_string());
        if explicit {
            self.twin.add_explicit_justification(h);
        } else {
            let name = self.rule_name("rule");
            self.twin.add_logical_justification(h, name.clone(), hs(ps));
            if flag.is_empty() {
                flag = self.name_flag(h.id(), &name, ps);
            }
        }
        format!("h{}{}", h.id(), flag)
    }
    /// the retraction of `h` happened inside the engine (Ok swallowed): result as for `R`, from the state before
    fn retracted(&mut self, h: u64, was_present: bool) -> String {
        if was_present {
            let c = self.twin.retract_with_cascade(FactHandle::new(h));
            format!("ok:{}", join_nums(&c.iter().map(|x| x.id()).collect::<Vec<_>>()))
        } else {
            "err".to_string()
        }
    }
    fn observe(&mut self, res: String) {
        let (eng, twin, k) = (&self.eng, &self.twin, self.k);
        let mut flags = String::new();
        let present: Vec<u64> = (1..=k).filter(|i| eng.working_memory().get(&FactHandle::new(*i)).is_some()).collect();
        let mut logical: Vec<u64> = eng.tms().get_logical_facts().iter().map(|h| h.id()).collect();
        logical.sort();
        let mut explicit: Vec<u64> = eng.tms().get_explicit_facts().iter().map(|h| h.id()).collect();
        explicit.sort();
        let valid: Vec<u64> = (1..=k).filter(|i| eng.tms().has_valid_justification(FactHandle::new(*i))).collect();
        // the per-handle queries must agree with the sets, and the twin TMS with the engine's
        for i in 1..=k {
            let h = FactHandle::new(i);
            if eng.tms().is_logical(h) != logical.contains(&i) || eng.tms().is_explicit(h) != explicit.contains(&i) {
                flags.push_str("!query");
            }
            if twin.is_logical(h) != eng.tms().is_logical(h)
                || twin.is_explicit(h) != eng.tms().is_explicit(h)
                || twin.has_valid_justification(h) != eng.tms().has_valid_justification(h)
            {
                flags.push_str("!twin");
            }
        }
        // working memory's own listing agrees with get()
        let mut listed: Vec<u64> = eng.working_memory().get_all_handles().iter().map(|h| h.id()).collect();
        listed.sort();
        if listed != present {
            flags.push_str("!listing");
        }
        if self.deep {
            // further public views of the same state: get_justifications (engine vs twin), the type index, the counters
            for i in 1..=k {
                let h = FactHandle::new(i);
                let a: Vec<(u64, bool, Vec<u64>)> = eng.tms().get_justifications(h).iter()
                    .map(|j| (j.fact_handle.id(), j.source_rule.is_none(), j.premise_facts.iter().map(|p| p.id()).collect())).collect();
                let b: Vec<(u64, bool, Vec<u64>)> = twin.get_justifications(h).iter()
                    .map(|j| (j.fact_handle.id(), j.source_rule.is_none(), j.premise_facts.iter().map(|p| p.id()).collect())).collect();
                if a != b || a.iter().any(|j| j.0 != i) {
                    flags.push_str("!justs");
                }
            }
            let mut tys: Vec<&String> = self.types.iter().collect();
            tys.sort();
            tys.dedup();
            let mut by_type: Vec<u64> = tys.iter().flat_map(|t| eng.working_memory().get_by_type(t).iter().map(|f| f.handle.id()).collect::<Vec<_>>()).collect();
            by_type.sort();
            if by_type != present {
                flags.push_str("!bytype");
            }
            for i in &present {
                if eng.working_memory().get(&FactHandle::new(*i)).map(|f| f.fact_type.clone()) != self.types.get(*i as usize - 1).cloned() {
                    flags.push_str("!type");
                }
            }
            let ws = eng.working_memory().stats();
            if ws.active_facts != present.len() || ws.total_facts != self.types.len() || ws.retracted_facts != self.types.len() - present.len() {
                flags.push_str("!wmstats");
            }
        }
        let st = eng.tms().stats();
        self.steps.push(format!(
            "{}{}/{}/{}/{}/{}/{},{},{},{}",
            res,
            flags,
            join_nums(&present),
            join_nums(&logical),
            join_nums(&explicit),
            join_nums(&valid),
            st.total_justifications,
            st.logical_facts,
            st.explicit_facts,
            st.retracted_facts
        ));
    }
}

fn exec(case: &str) -> String {
    let Some((ops, names)) = parse_case_named(case) else { return "bad-case".into() };
    let k = universe(&ops);
    let ext = has_ext(&ops);
    let script: Script = Arc::new(Mutex::new((Vec::new(), 0)));
    let mut r = Run {
        eng: IncrementalEngine::new(),
        twin: TruthMaintenanceSystem::new(),
        types: Vec::new(),
        noid: Vec::new(),
        k,
        deep: ext || k <= 40,
        steps: Vec::new(),
        name: None,
    };
    if ext {
        setup_engine(&mut r.eng, &script);
    }
    let mut naux = 0usize;
    for (op, name) in ops.iter().zip(&names) {
        r.name = *name;
        let res = match op {
            Op::I => {
                let h = r.eng.insert("F".to_string(), data_id(1, r.next()));
                r.created(h, "F", true, &[])
            }
            Op::E => {
                let h = r.eng.insert_explicit("F".to_string(), data_id(2, r.next()));
                r.created(h, "F", true, &[])
            }
            Op::L(ps) => {
                let h = r.eng.insert_logical("D".to_string(), data_id(3, r.next()), r.rule_name("rule"), hs(ps));
                r.created(h, "D", false, ps)
            }
            Op::J(f, ps) => {
                let name = r.rule_name("rule2");
                r.eng.tms_mut().add_logical_justification(FactHandle::new(*f), name.clone(), hs(ps));
                r.twin.add_logical_justification(FactHandle::new(*f), name.clone(), hs(ps));
                format!("u{}", r.name_flag(*f, &name, ps))
            }
            Op::X(f) => {
                r.eng.tms_mut().add_explicit_justification(FactHandle::new(*f));
                r.twin.add_explicit_justification(FactHandle::new(*f));
                "u".to_string()
            }
            Op::R(h) => match r.eng.retract(FactHandle::new(*h)) {
                Ok(()) => r.retracted(*h, true),
                Err(_) => "err".to_string(),
            },
            Op::Q(f) => {
                // promote a derived fact to a stated one: its recorded justifications go, an explicit one is recorded
                let h = FactHandle::new(*f);
                r.eng.tms_mut().remove_justifications(h);
                r.eng.tms_mut().add_explicit_justification(h);
                r.twin.remove_justifications(h);
                r.twin.add_explicit_justification(h);
                let js = r.eng.tms().get_justifications(h);
                let ok = js.len() == 1 && js[0].justification_type == rust_rule_engine::rete::tms::JustificationType::Explicit;
                if ok { "u".to_string() } else { "u!promote".to_string() }
            }
            Op::C => {
                r.eng.working_memory_mut().clear_modification_tracking();
                let wm = r.eng.working_memory();
                if wm.get_modified_handles().is_empty() && wm.get_retracted_handles().is_empty() { "c".to_string() } else { "c!tracking".to_string() }
            }
            Op::Ext(e) => match e {
                Ext::N => {
                    let ty = format!("N{}", r.types.len() + 1);
                    let h = r.eng.insert(ty.clone(), data_id(4, r.next()));
                    r.created(h, &ty, true, &[])
                }
                Ext::P => match r.eng.insert_with_template("P", data_id(5, r.next())) {
                    Ok(h) => r.created(h, "P", true, &[]),
                    Err(_) => "err!template".to_string(),
                },
                Ext::D => match r.eng.load_deffacts_by_name("one") {
                    Ok(v) if v.len() == 1 => {
                        r.noid.push(v[0].id());
                        r.created(v[0], "P", true, &[])
                    }
                    _ => "err!deffacts".to_string(),
                },
                Ext::G => {
                    let v = r.eng.load_deffacts();
                    if v.len() == 1 {
                        r.noid.push(v[0].id());
                        r.created(v[0], "P", true, &[])
                    } else {
                        "err!deffacts".to_string()
                    }
                }
                Ext::Lk(ps) => {
                    let keys: Vec<String> = ps.iter()
                        .map(|p| format!("{}.id={}", r.types.get((*p as usize).wrapping_sub(1)).cloned().unwrap_or_else(|| "none".to_string()), p))
                        .collect();
                    let got: Vec<u64> = r.eng.resolve_premise_keys(keys).iter().map(|h| h.id()).collect();
                    let want: Vec<u64> = ps.iter().copied().filter(|p| r.present(*p) && !r.noid.contains(p)).collect();
                    let flag = if got != want { "!resolve" } else { "" };
                    let h = r.eng.insert_logical("D".to_string(), data_id(3, r.next()), r.rule_name("rule"), hs(ps));
                    format!("{}{}", r.created(h, "D", false, ps), flag)
                }
                Ext::U(h) => {
                    let was = r.present(*h);
                    let ok = r.eng.update(FactHandle::new(*h), data_id(6, *h)).is_ok();
                    if ok {
                        r.noid.retain(|x| x != h);
                    }
                    if ok == was { "c".to_string() } else { "c!update".to_string() }
                }
                Ext::A => {
                    naux += 1;
                    r.eng.add_rule(aux_rule(naux), vec!["F".to_string(), "D".to_string()]);
                    "c".to_string()
                }
                Ext::Z => {
                    r.eng.reset();
                    "c".to_string()
                }
                Ext::W => {
                    let v = r.eng.reset_with_deffacts();
                    r.types.clear();
                    r.noid = vec![1];
                    r.twin = TruthMaintenanceSystem::new();
                    if v.len() == 1 { r.created(v[0], "P", true, &[]) } else { "err!deffacts".to_string() }
                }
                Ext::K(h) => {
                    let was = r.present(*h);
                    let ty = r.types.get((*h as usize).wrapping_sub(1)).cloned().unwrap_or_default();
                    let mut d = data_id(7, *h);
                    d.set("kill", FactValue::Boolean(true));
                    let ok = r.eng.update(FactHandle::new(*h), d).is_ok();
                    if ok {
                        r.noid.retain(|x| x != h);
                    }
                    r.eng.reset();
                    let fired = r.eng.fire_all();
                    let armed = was && (ty == "F" || ty == "D");
                    let want = if armed { 1 } else { 0 };
                    let flag = if ok != was || fired.iter().filter(|n| n.starts_with("kill")).count() != want { "!fire" } else { "" };
                    format!("{}{}", r.retracted(*h, armed), flag)
                }
                Ext::FG(acts) => {
                    // step 1: the trigger fact
                    let mut d = data_id(0, r.next());
                    d.set("go", FactValue::Integer(1));
                    let h = r.eng.insert("T".to_string(), d);
                    let res = r.created(h, "T", true, &[]);
                    r.observe(res);
                    // step 2: the rule fires ONCE, its action returns all the results, in this order
                    let mut next = r.types.len() as u64 + 1;
                    let before: Vec<u64> = (1..next).filter(|x| r.present(*x)).collect();
                    let mut results = Vec::new();
                    // RetractByType names a type: resolved against the types known when the action runs
                    let mut tys: Vec<Option<String>> = Vec::new();
                    for a in acts {
                        tys.push(None);
                        results.push(match a {
                            Act::R(x) => ActionResult::Retract(FactHandle::new(*x)),
                            Act::T(x) => {
                                let ty = r.types.get((*x as usize).wrapping_sub(1)).cloned().unwrap_or_else(|| "none".to_string());
                                let ty = if ty.starts_with('N') { ty } else { "none".to_string() };
                                *tys.last_mut().unwrap() = Some(ty.clone());
                                ActionResult::RetractByType(ty)
                            }
                            Act::I => {
                                next += 1;
                                ActionResult::InsertFact { fact_type: "F".to_string(), data: data_id(8, next - 1) }
                            }
                            Act::L(ps) => {
                                next += 1;
                                ActionResult::InsertLogicalFact { fact_type: "D".to_string(), data: data_id(9, next - 1), rule_name: r.rule_name("rule"), premises: hs(ps) }
                            }
                            Act::U(x) => ActionResult::Update(FactHandle::new(*x)),
                            Act::N | Act::M => ActionResult::None,
                            Act::G => ActionResult::ActivateAgendaGroup("side".to_string()),
                            Act::C => ActionResult::CallFunction { function_name: "nofn".to_string(), args: vec!["x".to_string()] },
                            Act::S => ActionResult::ScheduleRule { rule_name: "act".to_string(), delay_ms: 5 },
                        });
                    }
                    *script.lock().unwrap() = (results, 0);
                    r.eng.reset();
                    let fired = r.eng.fire_all();
                    let mut flag = if fired.iter().filter(|n| *n == "act").count() != 1 || !script.lock().unwrap().0.is_empty() { "!fire" } else { "" };
                    // the results of the single actions, in the order emitted: the states between them cannot be observed, so the
                    // twin TMS is fed the same calls in that order (a handle counts as present when it was present before the
                    // firing or created by it, and neither retracted nor reported in a cascade by the twin since)
                    let mut made: Vec<u64> = Vec::new();
                    let mut gone: Vec<u64> = Vec::new();
                    let mut parts: Vec<String> = Vec::new();
                    for (a, ty) in acts.iter().zip(&tys) {
                        match a {
                            Act::R(x) | Act::T(x) => {
                                let was = ty.as_deref() != Some("none") && (before.contains(x) || made.contains(x)) && !gone.contains(x);
                                if was {
                                    let c = r.twin.retract_with_cascade(FactHandle::new(*x));
                                    gone.push(*x);
                                    gone.extend(c.iter().map(|y| y.id()));
                                    parts.push(format!("ok:{}", join_nums(&c.iter().map(|y| y.id()).collect::<Vec<_>>())));
                                } else {
                                    parts.push("err".to_string());
                                }
                            }
                            Act::I => {
                                let nx = r.next();
                                made.push(nx);
                                parts.push(r.created(FactHandle::new(nx), "F", true, &[]));
                            }
                            Act::L(ps) => {
                                let nx = r.next();
                                made.push(nx);
                                parts.push(r.created(FactHandle::new(nx), "D", false, ps));
                            }
                            _ => {}
                        }
                    }
                    if r.eng.working_memory().stats().total_facts != r.types.len() {
                        flag = "!handle";
                    }
                    // flags raised for a single result go behind the whole result (the driver splits the result at `+` first)
                    let mut fl = String::new();
                    for p in parts.iter_mut() {
                        if let Some(i) = p.find('!') {
                            fl.push_str(&p[i..]);
                            p.truncate(i);
                        }
                    }
                    if parts.is_empty() { format!("c{}{}", fl, flag) } else { format!("{}{}{}", parts.join("+"), fl, flag) }
                }
                Ext::F(a) => {
                    // step 1: the trigger fact
                    let mut d = data_id(0, r.next());
                    d.set("go", FactValue::Integer(1));
                    let h = r.eng.insert("T".to_string(), d);
                    let res = r.created(h, "T", true, &[]);
                    r.observe(res);
                    // step 2: the rule fires, its action returns one ActionResult
                    let next = r.types.len() as u64 + 1;
                    let (result, was): (ActionResult, bool) = match a {
                        Act::R(x) => (ActionResult::Retract(FactHandle::new(*x)), r.present(*x)),
                        Act::T(x) => {
                            let ty = r.types.get((*x as usize).wrapping_sub(1)).cloned().unwrap_or_else(|| "none".to_string());
                            // a shared type would make "the first fact of the type" a matter of HashSet order
                            let ty = if ty.starts_with('N') { ty } else { "none".to_string() };
                            (ActionResult::RetractByType(ty.clone()), ty != "none" && r.present(*x))
                        }
                        Act::I => (ActionResult::InsertFact { fact_type: "F".to_string(), data: data_id(8, next) }, false),
                        Act::L(ps) => (
                            ActionResult::InsertLogicalFact { fact_type: "D".to_string(), data: data_id(9, next), rule_name: r.rule_name("rule"), premises: hs(ps) },
                            false,
                        ),
                        Act::U(x) => (ActionResult::Update(FactHandle::new(*x)), false),
                        Act::N | Act::M => (ActionResult::None, false),
                        Act::G => (ActionResult::ActivateAgendaGroup("side".to_string()), false),
                        Act::C => (ActionResult::CallFunction { function_name: "nofn".to_string(), args: vec!["x".to_string()] }, false),
                        Act::S => (ActionResult::ScheduleRule { rule_name: "act".to_string(), delay_ms: 5 }, false),
                    };
                    *script.lock().unwrap() = (vec![result], if *a == Act::M { 100 + next as i64 } else { 0 });
                    r.eng.reset();
                    let fired = r.eng.fire_all();
                    let flag = if fired.iter().filter(|n| *n == "act").count() != 1 || !script.lock().unwrap().0.is_empty() { "!fire" } else { "" };
                    let res = match a {
                        Act::R(x) | Act::T(x) => r.retracted(*x, was),
                        Act::I => {
                            if r.present(next) { r.created(FactHandle::new(next), "F", true, &[]) } else { "hnone".to_string() }
                        }
                        Act::L(ps) => {
                            if r.present(next) { r.created(FactHandle::new(next), "D", false, ps) } else { "hnone".to_string() }
                        }
                        Act::U(_) | Act::N | Act::G | Act::C | Act::S | Act::M => "c".to_string(),
                    };
                    format!("{}{}", res, flag)
                }
            },
        };
        r.observe(res);
    }
    if r.steps.is_empty() { "-".into() } else { r.steps.join(";") }
}

// ------------------------------------------------------------------------------------------ gen

/// all non-empty premise lists over 1..=n with at most `maxp` distinct, increasing entries
fn premise_sets(n: u64, maxp: usize) -> Vec<Vec<u64>> {
    let mut out = Vec::new();
    for a in 1..=n {
        out.push(vec![a]);
        if maxp >= 2 {
            for b in a + 1..=n {
                out.push(vec![a, b]);
            }
        }
    }
    out
}

/// every history of length <= maxlen creating at most `maxf` facts, over the alphabet
/// I, L<ps>, J<f>:<p>, X<f>, R<h> with all handles among those created so far (live or not)
fn exhaustive(maxlen: usize, maxf: u64, out: &mut Vec<String>) {
    fn rec(cur: &mut Vec<Op>, n: u64, maxlen: usize, maxf: u64, out: &mut Vec<String>) {
        if !cur.is_empty() {
            out.push(show_case(cur));
        }
        if cur.len() == maxlen {
            return;
        }
        let mut nexts: Vec<(Op, u64)> = Vec::new();
        if n < maxf {
            nexts.push((Op::I, n + 1));
            for ps in premise_sets(n, 2) {
                nexts.push((Op::L(ps), n + 1));
            }
        }
        for f in 1..=n {
            for p in 1..=n {
                nexts.push((Op::J(f, vec![p]), n));
            }
            nexts.push((Op::X(f), n));
            nexts.push((Op::R(f), n));
        }
        for (op, n2) in nexts {
            cur.push(op);
            rec(cur, n2, maxlen, maxf, out);
            cur.pop();
        }
    }
    rec(&mut Vec::new(), 0, maxlen, maxf, out);
}

fn pick_live(rng: &mut Rng, live: &[u64], k: usize) -> Vec<u64> {
    let mut v = live.to_vec();
    rng.shuffle(&mut v);
    v.truncate(k.min(v.len()));
    v
}

/// random history: up to `maxops` operations over up to `maxf` facts; `wf` keeps every premise
/// (and every re-justified fact) live when recorded
fn random_history(rng: &mut Rng, maxops: usize, maxf: u64, wf: bool) -> Vec<Op> {
    let nops = rng.range(3, maxops as u64) as usize;
    let mut ops = Vec::new();
    let mut n = 0u64; // handles created
    let mut live: Vec<u64> = Vec::new();
    let shape = rng.below(5);
    // phase weights: build first, retract later
    for i in 0..nops {
        let late = i * 2 >= nops;
        let r = rng.below(100);
        let want_retract = !live.is_empty() && (if late { r < 60 } else { r < 12 });
        if want_retract {
            let h = if wf || rng.chance(9, 10) { *rng.pick(&live) } else { rng.range(1, n + 1) };
            ops.push(Op::R(h));
            // liveness after the cascade is not tracked here exactly: recompute by replay below
            live = replay_live(&ops);
            continue;
        }
        let can_insert = n < maxf;
        let c = rng.below(100);
        if live.is_empty() || (can_insert && c < 25) {
            if can_insert {
                ops.push(if rng.chance(1, 2) { Op::I } else { Op::E });
                n += 1;
                live.push(n);
            } else {
                let h = rng.range(1, n);
                ops.push(Op::R(h));
                live = replay_live(&ops);
            }
        } else if can_insert && c < 65 {
            // logical insertion; shape decides the premises
            let pool: Vec<u64> = if wf || rng.chance(9, 10) { live.clone() } else { (1..=n).collect() };
            let ps = match shape {
                0 => vec![*pool.last().unwrap()],                       // chain
                1 => pick_live(rng, &pool, 2),                          // diamond-ish joins
                2 => vec![pool[0]],                                     // shared premise
                3 => { let k = rng.range(1, 3) as usize; pick_live(rng, &pool, k) }
                _ => {
                    let mut v = pick_live(rng, &pool, 2);
                    if rng.chance(1, 3) { let d = v[0]; v.push(d); }     // duplicated premise
                    v
                }
            };
            ops.push(Op::L(ps));
            n += 1;
            live.push(n);
        } else if c < 97 {
            // another justification for an existing fact
            let f = if wf || rng.chance(9, 10) { *rng.pick(&live) } else { rng.range(1, n) };
            let pool: Vec<u64> = if wf || rng.chance(9, 10) { live.clone() } else { (1..=n).collect() };
            let k = rng.range(1, 2) as usize;
            let ps = pick_live(rng, &pool, k);
            ops.push(Op::J(f, ps));
        } else {
            let f = if wf || rng.chance(9, 10) { *rng.pick(&live) } else { rng.range(1, n) };
            ops.push(Op::X(f));
        }
    }
    ops
}

/// which handles are live after the operations applied so far — a tiny independent simulation
/// (fixpoint removal of unsupported facts), used only to steer the generator; the engine is never
/// called from `gen`
struct Sim {
    n: u64,
    live: Vec<u64>,
    justs: Vec<(u64, bool, Vec<u64>)>,
    kinds: Vec<u8>,
}
impl Sim {
    fn new() -> Sim {
        Sim { n: 0, live: Vec::new(), justs: Vec::new(), kinds: Vec::new() }
    }
    fn apply(&mut self, op: &Op) {
        if let Op::Ext(e) = op {
            // the reach ops in terms of the basic ones (what the driver's desugaring does)
            match e {
                Ext::N | Ext::P | Ext::D | Ext::G => {
                    self.apply(&Op::I);
                    *self.kinds.last_mut().unwrap() = kinds_of(op)[0];
                }
                Ext::U(_) | Ext::A | Ext::Z => {}
                Ext::Lk(ps) => self.apply(&Op::L(ps.clone())),
                Ext::W => {
                    *self = Sim::new();
                    self.apply(&Op::I);
                    *self.kinds.last_mut().unwrap() = b'P';
                }
                Ext::K(h) => {
                    if matches!(kind_at(&self.kinds, *h), b'F' | b'D') {
                        self.apply(&Op::R(*h));
                    }
                }
                Ext::FG(acts) => {
                    self.apply(&Op::I);
                    *self.kinds.last_mut().unwrap() = b'T';
                    for a in acts {
                        match a {
                            Act::R(h) => self.apply(&Op::R(*h)),
                            Act::T(h) => {
                                if kind_at(&self.kinds, *h) == b'N' {
                                    self.apply(&Op::R(*h));
                                }
                            }
                            Act::I => self.apply(&Op::I),
                            Act::L(ps) => self.apply(&Op::L(ps.clone())),
                            _ => {}
                        }
                    }
                }
                Ext::F(a) => {
                    self.apply(&Op::I);
                    *self.kinds.last_mut().unwrap() = b'T';
                    match a {
                        Act::R(h) => self.apply(&Op::R(*h)),
                        Act::T(h) => {
                            if kind_at(&self.kinds, *h) == b'N' {
                                self.apply(&Op::R(*h));
                            }
                        }
                        Act::I => self.apply(&Op::I),
                        Act::L(ps) => self.apply(&Op::L(ps.clone())),
                        Act::U(_) | Act::N | Act::G | Act::C | Act::S | Act::M => {}
                    }
                }
            }
            return;
        }
        match op {
            Op::I | Op::E => {
                self.kinds.push(b'F');
                self.n += 1;
                self.live.push(self.n);
                self.justs.push((self.n, true, vec![]));
            }
            Op::L(ps) => {
                self.kinds.push(b'D');
                self.n += 1;
                self.live.push(self.n);
                self.justs.push((self.n, false, ps.clone()));
            }
            Op::J(f, ps) => self.justs.push((*f, false, ps.clone())),
            // promotion = an explicit justification as far as presence and support go (the removed logical ones could only
            // have kept the fact, which the explicit one does anyway)
            Op::X(f) | Op::Q(f) => self.justs.push((*f, true, vec![])),
            Op::C | Op::Ext(_) => {}
            Op::R(h) => {
                if !self.live.contains(h) {
                    return;
                }
                self.live.retain(|x| x != h);
                loop {
                    let (live, justs) = (&self.live, &self.justs);
                    let gone: Vec<u64> = live
                        .iter()
                        .copied()
                        .filter(|f| {
                            justs.iter().any(|j| j.0 == *f)
                                && !justs.iter().any(|j| j.0 == *f && (j.1 || j.2.iter().all(|p| live.contains(p))))
                        })
                        .collect();
                    if gone.is_empty() {
                        break;
                    }
                    self.live.retain(|x| !gone.contains(x));
                }
            }
        }
    }
    /// handles created and gone again
    fn retracted(&self) -> u64 {
        self.n - self.live.len() as u64
    }
}

fn replay_live(ops: &[Op]) -> Vec<u64> {
    let mut s = Sim::new();
    for op in ops {
        s.apply(op);
    }
    s.live
}

/// a fixed support graph followed by every retraction order of a subset of its facts
fn shapes_all_orders(out: &mut Vec<String>) {
    let graphs: Vec<(&str, u64)> = vec![
        ("I L1 L2 L3", 4),                 // chain
        ("I L1 L1 L2,3", 4),               // diamond (join needs both)
        ("I L1 L1 L2 J4:3", 4),            // diamond (two justifications)
        ("I I L1 J3:2 L3", 4),             // two justifications, then a dependent
        ("I L1 L1 L1 L2,3,4", 5),          // shared premise, wide join
        ("I L1 L2 J2:3", 3),               // cycle 2 <-> 3 hanging on 1
        ("I I L1 L3 J3:4 J3:2", 4),        // cycle with an outside support
        ("I L1 X2 L2", 3),                 // both explicit and logical
        ("I L1,1 L2,1,2", 3),              // duplicated premises
        ("E L- L2 L1,3", 4),               // premise-less logical fact
    ];
    for (g, n) in graphs {
        // every ordered selection of up to 3 distinct handles
        let hs: Vec<u64> = (1..=n).collect();
        for a in &hs {
            out.push(format!("{} R{}", g, a));
            for b in &hs {
                if b == a { continue; }
                out.push(format!("{} R{} R{}", g, a, b));
                for c in &hs {
                    if c == a || c == b { continue; }
                    out.push(format!("{} R{} R{} R{}", g, a, b, c));
                }
            }
        }
    }
}

// ------------------------------------------------- families beyond the small bound (sizes 30–300)
//
// The theorems are about histories and graphs of any size; the families below put the real code
// into the regimes the exhaustive/short random part cannot reach: derivation chains deeper than
// 32/64 levels, sessions with more than 64/128 retractions on one engine, justifications with
// 5–16 premises listed in arbitrary handle order.  Every family is well-formed (inside the
// property's domain) and sweeps the sizes across the usual thresholds.

/// history builder that tracks the handles working memory will hand out and which are live
struct B {
    ops: Vec<Op>,
    sim: Sim,
}
impl B {
    fn new() -> B {
        B { ops: Vec::new(), sim: Sim::new() }
    }
    fn push(&mut self, op: Op) -> u64 {
        self.sim.apply(&op);
        self.ops.push(op);
        self.sim.n
    }
    fn i(&mut self) -> u64 {
        self.push(Op::I)
    }
    fn e(&mut self) -> u64 {
        self.push(Op::E)
    }
    fn l(&mut self, ps: Vec<u64>) -> u64 {
        self.push(Op::L(ps))
    }
    fn j(&mut self, f: u64, ps: Vec<u64>) {
        self.push(Op::J(f, ps));
    }
    fn r(&mut self, h: u64) {
        self.push(Op::R(h));
    }
    /// `len` logical facts, each derived from the previous one, the first from `from`; -> the last
    fn chain(&mut self, from: u64, len: usize) -> u64 {
        let mut p = from;
        for _ in 0..len {
            p = self.l(vec![p]);
        }
        p
    }
    fn n(&self) -> u64 {
        self.sim.n
    }
    /// a copy of the builder with further operations appended
    fn with_ops(&self, more: &[Op]) -> B {
        let mut b = B { ops: self.ops.clone(), sim: Sim { n: self.sim.n, live: self.sim.live.clone(), justs: self.sim.justs.clone(), kinds: self.sim.kinds.clone() } };
        for o in more {
            b.push(o.clone());
        }
        b
    }
    fn retracted(&self) -> u64 {
        self.sim.retracted()
    }
    fn case(&self) -> String {
        show_case(&self.ops)
    }
    /// the history followed by the retractions `tail` (those whose handle is still live then)
    fn with(&self, tail: &[u64]) -> String {
        let mut b = B { ops: self.ops.clone(), sim: Sim { n: self.sim.n, live: self.sim.live.clone(), justs: self.sim.justs.clone(), kinds: self.sim.kinds.clone() } };
        for h in tail {
            if b.sim.live.contains(h) {
                b.r(*h);
            }
        }
        b.case()
    }
}

/// deep derivation graphs: the cascade of one `retract` is 30–200 (thorough: 500) levels deep
fn deep_chains(rng: &mut Rng, tier: &str, out: &mut Vec<String>) {
    let thorough = tier == "thorough";
    // (a) plain chains of every length 30..=60 and a few longer ones, root retracted
    let mut lens: Vec<usize> = (30..=60).collect();
    lens.extend([63, 64, 65, 66, 80, 100, 128, 129, 130, 200]);
    if thorough {
        lens.extend([127, 150, 255, 256, 257, 300, 500]);
    }
    for d in &lens {
        let mut b = B::new();
        let root = b.i();
        b.chain(root, *d);
        out.push(b.with(&[root]));
    }
    // (b) a fact near the root retracted (alone; then the root; a leaf first); exactly 32/33/34 levels
    for _ in 0..if thorough { 40 } else { 10 } {
        let d = rng.range(33, 60) as usize;
        let mut b = B::new();
        let root = b.i();
        let last = b.chain(root, d);
        let near = rng.range(2, 5);
        out.push(b.with(&[near]));
        out.push(b.with(&[near, root]));
        out.push(b.with(&[last, near + 1, root]));
        let k = rng.range(32, 34);
        if (d as u64) > k {
            out.push(b.with(&[1 + d as u64 - k]));
        }
    }
    // (c) a deep chain hanging off a diamond (join needing both sides / two justifications)
    for _ in 0..if thorough { 24 } else { 6 } {
        let d = rng.range(31, 60) as usize;
        let mut b = B::new();
        let a = b.i();
        let l = b.l(vec![a]);
        let r = b.l(vec![a]);
        let m = b.l(vec![l, r]);
        b.chain(m, d);
        out.push(b.with(&[a]));
        out.push(b.with(&[l]));
        out.push(b.with(&[r, l]));
        let mut b = B::new();
        let a = b.i();
        let l = b.l(vec![a]);
        let r = b.l(vec![a]);
        let m = b.l(vec![l]);
        b.j(m, vec![r]);
        b.chain(m, d);
        out.push(b.with(&[a]));
        out.push(b.with(&[l, r]));
        out.push(b.with(&[r, l, a]));
        out.push(b.with(&[m]));
    }
    // (d) every link also needs / is also supported by a second explicit fact
    for _ in 0..if thorough { 20 } else { 5 } {
        let d = rng.range(33, 60) as usize;
        let mut b = B::new();
        let a = b.i();
        let s = b.e();
        let mut p = a;
        for _ in 0..d {
            p = b.l(vec![p, s]);
        }
        out.push(b.with(&[a]));
        out.push(b.with(&[s]));
        out.push(b.with(&[3, s]));
        let mut b = B::new();
        let a = b.i();
        let s = b.e();
        let mut p = a;
        for _ in 0..d {
            p = b.l(vec![p]);
            b.j(p, vec![s]);
        }
        out.push(b.with(&[a]));
        out.push(b.with(&[s]));
        out.push(b.with(&[a, s]));
        out.push(b.with(&[s, a]));
    }
    // (e) comb: every spine fact also has a leaf; two chains joined at the bottom
    for _ in 0..if thorough { 16 } else { 4 } {
        let d = rng.range(33, 50) as usize;
        let mut b = B::new();
        let a = b.i();
        let mut p = a;
        for _ in 0..d {
            p = b.l(vec![p]);
            b.l(vec![p]);
        }
        out.push(b.with(&[a]));
        out.push(b.with(&[rng.range(2, 6)]));
        let mut b = B::new();
        let a = b.i();
        let c = b.i();
        let x = b.chain(a, d);
        let y = b.chain(c, d - 2);
        let z = b.l(vec![x, y]);
        b.chain(z, 3);
        out.push(b.with(&[a]));
        out.push(b.with(&[c, a]));
    }
    // (f) random deep graphs: mostly a chain, with extra premises and extra justifications
    for _ in 0..if thorough { 200 } else { 40 } {
        let n = rng.range(34, 70);
        let mut b = B::new();
        b.i();
        if rng.chance(1, 3) {
            b.e();
        }
        while b.n() < n {
            let prev = b.n();
            let mut ps = vec![if rng.chance(5, 6) { prev } else { rng.range(1, prev) }];
            if rng.chance(1, 7) {
                ps.push(rng.range(1, prev));
            }
            let f = b.l(ps);
            if rng.chance(1, 10) {
                b.j(f, vec![rng.range(1, prev)]);
            }
        }
        let mut tail = vec![rng.range(1, 3)];
        for _ in 0..rng.below(4) {
            tail.push(rng.range(1, n));
        }
        out.push(b.with(&tail));
    }
}

/// one block of unrelated traffic retracting at most `room` (>= 1) handles
fn filler_block(rng: &mut Rng, b: &mut B, anchor: u64, room: u64) {
    let kind = if room < 2 { rng.below(3) } else if room < 3 { rng.below(6) } else { rng.below(8) };
    match kind {
        0 => {
            let h = b.i();
            b.r(h);
        }
        1 => {
            let h = b.e();
            b.r(h);
        }
        2 => {
            // an unrelated derived fact, retracted on request while its premise stays
            let h = b.l(vec![anchor]);
            b.r(h);
        }
        3 => {
            let h = b.i();
            b.l(vec![h]);
            b.r(h);
        }
        4 => {
            // fan: one premise, 1..3 dependents, all cascaded
            let k = rng.range(1, 3).min(room - 1);
            let h = b.i();
            for _ in 0..k {
                b.l(vec![h, anchor]);
            }
            b.r(h);
        }
        5 => {
            // a batch retracted in shuffled order
            let k = rng.range(2, 4).min(room);
            let mut hs: Vec<u64> = (0..k).map(|_| b.i()).collect();
            rng.shuffle(&mut hs);
            for h in hs {
                b.r(h);
            }
        }
        6 => {
            // short chain: middle retracted, retracted again (`err`), then the root
            let h = b.i();
            let m = b.l(vec![h]);
            b.l(vec![m]);
            b.r(m);
            b.ops.push(Op::R(m));
            b.r(h);
        }
        _ => {
            // a fact with two justifications of its own inside the traffic
            let p = b.i();
            let q = b.i();
            let d = b.l(vec![p]);
            b.j(d, vec![q]);
            b.r(p);
            b.r(q);
        }
    }
}

/// the facts under observation in a long session; phase 0 = build + early loss of a premise,
/// phase 1 = half-way through the traffic, phase 2 = at the end
fn core_phase(core: u64, phase: u64, b: &mut B, st: &mut Vec<u64>, anchor: u64) {
    match (core, phase) {
        // D <- [A], D <- [C]; A early, C late
        (0, 0) => {
            let a = b.i();
            let c = b.i();
            let d = b.l(vec![a]);
            b.j(d, vec![c]);
            b.r(a);
            st.push(c);
        }
        (0, 2) => b.r(st[0]),
        // the same with dependents below D; C early, A late
        (1, 0) => {
            let a = b.i();
            let c = b.i();
            let d = b.l(vec![a]);
            b.j(d, vec![c]);
            let e = b.l(vec![d]);
            b.l(vec![e, anchor]);
            b.r(c);
            st.push(a);
        }
        (1, 2) => b.r(st[0]),
        // three justifications: one premise lost early, one half-way, one late
        (2, 0) => {
            let a = b.i();
            let c = b.i();
            let e = b.i();
            let d = b.l(vec![a]);
            b.j(d, vec![c]);
            b.j(d, vec![e]);
            b.l(vec![d]);
            b.r(a);
            st.extend([c, e]);
        }
        (2, 1) => b.r(st[0]),
        (2, 2) => b.r(st[1]),
        // the early premise is itself derived and goes by cascade
        (3, 0) => {
            let r = b.i();
            let a = b.l(vec![r]);
            let c = b.i();
            let d = b.l(vec![a]);
            b.j(d, vec![c]);
            b.l(vec![d]);
            b.r(r);
            st.push(c);
        }
        (3, 2) => b.r(st[0]),
        // a join justification and a single-premise one
        (4, 0) => {
            let a = b.i();
            let a2 = b.i();
            let c = b.i();
            let d = b.l(vec![a, a2]);
            b.j(d, vec![c]);
            b.r(a2);
            st.extend([c, a]);
        }
        (4, 2) => {
            b.r(st[0]);
            b.r(st[1]);
        }
        // one justification with two premises (D goes at once), re-derived half-way from the survivor
        (5, 0) => {
            let a = b.i();
            let c = b.i();
            let d = b.l(vec![a, c]);
            b.l(vec![d]);
            b.r(a);
            st.push(c);
        }
        (5, 1) => {
            let a2 = b.i();
            let d2 = b.l(vec![a2]);
            b.j(d2, vec![st[0]]);
            b.l(vec![d2]);
            b.r(st[0]);
            st.push(a2);
        }
        (5, 2) => b.r(st[1]),
        // two facts sharing the premises crosswise, a join and a chain below
        (6, 0) => {
            let a = b.i();
            let c = b.i();
            let d = b.l(vec![a]);
            let e = b.l(vec![c]);
            b.j(d, vec![c]);
            b.j(e, vec![a]);
            let f = b.l(vec![d, e]);
            b.chain(f, 3);
            b.r(c);
            st.push(a);
        }
        (6, 2) => b.r(st[0]),
        // the doubly justified fact is created half-way; its first premise goes at once, the second late
        (7, 0) => {
            let a = b.i();
            st.push(a);
        }
        (7, 1) => {
            let fresh = b.i();
            let d = b.l(vec![st[0]]);
            b.j(d, vec![fresh]);
            b.l(vec![d]);
            b.r(st[0]);
            st.push(fresh);
        }
        (7, 2) => b.r(st[1]),
        _ => {}
    }
}

fn long_random(rng: &mut Rng, nops: usize) -> Vec<Op> {
    let mut b = B::new();
    while b.ops.len() < nops {
        let nlive = b.sim.live.len();
        let c = rng.below(100);
        if nlive < 3 || c < 30 {
            if rng.chance(1, 2) { b.i() } else { b.e() };
        } else if c < 50 {
            let k = rng.range(1, 3) as usize;
            let ps = pick_live(rng, &b.sim.live, k);
            b.l(ps);
        } else if c < 58 {
            let f = *rng.pick(&b.sim.live);
            let k = rng.range(1, 2) as usize;
            let ps = pick_live(rng, &b.sim.live, k);
            b.j(f, ps);
        } else if c < 60 {
            let f = *rng.pick(&b.sim.live);
            b.push(Op::X(f));
        } else {
            // older facts are retracted more often than fresh ones (premises go before conclusions)
            let i = (rng.below(nlive as u64).min(rng.below(nlive as u64))) as usize;
            let h = b.sim.live[i];
            b.r(h);
        }
    }
    b.ops
}

/// sessions with 48–130 (thorough: up to 260) retractions on one engine: a fact with several
/// justifications loses one premise early and the other(s) only after a lot of unrelated traffic
fn long_sessions(rng: &mut Rng, tier: &str, out: &mut Vec<String>) {
    let thorough = tier == "thorough";
    let mut targets: Vec<u64> = vec![48, 56, 60, 62, 63, 64, 65, 66, 67, 68, 70, 72, 80, 96, 110, 127, 128, 129, 130];
    if thorough {
        targets.extend([126, 160, 200, 255, 256, 257, 260]);
    }
    for core in 0..8u64 {
        for &t in &targets {
            // quick: around the thresholds every core, elsewhere every second target; thorough: all
            if !thorough && !(62..=68).contains(&t) && (t / 2 + core) % 2 == 1 {
                continue;
            }
            let mut b = B::new();
            let anchor = b.e();
            let mut st = Vec::new();
            core_phase(core, 0, &mut b, &mut st, anchor);
            let mut mid_done = false;
            // unrelated traffic until `t` handles have been retracted in the session
            while b.retracted() < t {
                if !mid_done && b.retracted() * 2 >= t {
                    core_phase(core, 1, &mut b, &mut st, anchor);
                    mid_done = true;
                    continue;
                }
                let room = t - b.retracted();
                filler_block(rng, &mut b, anchor, room);
            }
            core_phase(core, 2, &mut b, &mut st, anchor);
            // a little more traffic afterwards: the state must stay right
            filler_block(rng, &mut b, anchor, 2);
            out.push(b.case());
        }
    }
    // random long sessions: 70–180 (thorough: up to 400) operations, about 40 % retractions
    for _ in 0..if thorough { 300 } else { 40 } {
        let nops = if thorough { rng.range(70, 400) } else { rng.range(70, 180) } as usize;
        out.push(show_case(&long_random(rng, nops)));
    }
}

/// premise orders of a `k`-premise justification over the handles `hs` (ascending)
fn premise_orders(rng: &mut Rng, hs: &[u64], nshuffles: usize) -> Vec<Vec<u64>> {
    let k = hs.len();
    let mut out: Vec<Vec<u64>> = Vec::new();
    out.push(hs.to_vec()); // ascending (the order all repository tests use)
    out.push(hs.iter().rev().copied().collect()); // descending
    for rot in [1, k / 2, k - 1] {
        let mut v = hs.to_vec();
        v.rotate_left(rot);
        out.push(v);
    }
    let mut v = hs.to_vec();
    v.swap(k - 1, k - 2);
    out.push(v);
    let mut v = hs.to_vec();
    v.swap(0, 1);
    out.push(v);
    // odd positions then even positions
    let mut v: Vec<u64> = hs.iter().copied().step_by(2).collect();
    v.extend(hs.iter().copied().skip(1).step_by(2));
    out.push(v.iter().rev().copied().collect());
    out.push(v);
    for _ in 0..nshuffles {
        let mut v = hs.to_vec();
        rng.shuffle(&mut v);
        out.push(v);
    }
    out.dedup();
    out
}

/// wide justifications: 5–8 (a few 12/16) premises in every kind of handle order; every single
/// premise retracted in turn on a fresh engine
fn wide_justifications(rng: &mut Rng, tier: &str, out: &mut Vec<String>) {
    let thorough = tier == "thorough";
    let widths: Vec<u64> = if thorough { (3..=16).collect() } else { vec![4, 5, 6, 7, 8, 12, 16] };
    for &k in &widths {
        let hs: Vec<u64> = (1..=k).collect();
        let nsh = if thorough { 6 } else if k <= 8 { 2 } else { 1 };
        for perm in premise_orders(rng, &hs, nsh) {
            let mut b = B::new();
            for _ in 0..k {
                b.i();
            }
            let d = b.l(perm.clone());
            for p in 1..=k {
                if k > 8 && !thorough && !rng.chance(1, 3) {
                    continue;
                }
                out.push(b.with(&[p]));
            }
            // with a dependent below, and a second retraction afterwards
            let p = rng.range(1, k);
            let q = rng.range(1, k);
            let mut b2 = B::new();
            for _ in 0..k {
                b2.i();
            }
            let d2 = b2.l(perm.clone());
            let e2 = b2.l(vec![d2]);
            b2.l(vec![e2, 1 + p % k]);
            out.push(b2.with(&[p, q]));
            let _ = d;
        }
    }
    // variations on the same class
    for _ in 0..if thorough { 400 } else { 100 } {
        let k = rng.range(5, 9);
        let mut b = B::new();
        match rng.below(6) {
            0 => {
                // r unrelated retractions first (r around k): early/late in the session
                let r = rng.range(0, k + 2);
                let extra: Vec<u64> = (0..r).map(|_| b.i()).collect();
                let ps: Vec<u64> = (0..k).map(|_| if rng.chance(1, 2) { b.i() } else { b.e() }).collect();
                let mut perm = ps.clone();
                rng.shuffle(&mut perm);
                let d = b.l(perm);
                b.l(vec![d]);
                for h in extra {
                    b.r(h);
                }
                b.r(*rng.pick(&ps));
            }
            1 => {
                // two wide justifications over overlapping premise sets
                let ps: Vec<u64> = (0..k + 2).map(|_| b.i()).collect();
                let mut p1 = ps[..k as usize].to_vec();
                let mut p2 = ps[2..].to_vec();
                rng.shuffle(&mut p1);
                rng.shuffle(&mut p2);
                let d = b.l(p1);
                b.j(d, p2);
                b.l(vec![d]);
                let mut order = ps.clone();
                rng.shuffle(&mut order);
                for h in order.into_iter().take(rng.range(1, 3) as usize) {
                    b.r(h);
                }
            }
            2 => {
                // a narrow and a wide justification: the narrow premise goes first
                let a = b.i();
                let ps: Vec<u64> = (0..k).map(|_| b.i()).collect();
                let d = b.l(vec![a]);
                let mut perm = ps.clone();
                rng.shuffle(&mut perm);
                b.j(d, perm);
                b.l(vec![d]);
                if rng.chance(1, 2) {
                    b.r(a);
                    b.r(*rng.pick(&ps));
                } else {
                    b.r(*rng.pick(&ps));
                    b.r(a);
                }
            }
            3 => {
                // premises that are derived facts themselves; the root of some of them retracted
                let root = b.i();
                let other = b.i();
                let ps: Vec<u64> = (0..k).map(|i| if i % 2 == 0 { b.l(vec![root]) } else { b.l(vec![other]) }).collect();
                let mut perm = ps.clone();
                rng.shuffle(&mut perm);
                let d = b.l(perm);
                b.chain(d, 2);
                match rng.below(3) {
                    0 => b.r(root),
                    1 => b.r(other),
                    _ => b.r(*rng.pick(&ps)),
                }
            }
            4 => {
                // duplicated premises inside a wide list
                let ps: Vec<u64> = (0..k).map(|_| b.i()).collect();
                let mut perm = ps.clone();
                perm.push(*rng.pick(&ps));
                perm.push(*rng.pick(&ps));
                rng.shuffle(&mut perm);
                b.l(perm);
                b.r(*rng.pick(&ps));
            }
            _ => {
                // several wide joins sharing premises, stacked
                let ps: Vec<u64> = (0..k).map(|_| b.i()).collect();
                let mut p1 = ps.clone();
                rng.shuffle(&mut p1);
                let d1 = b.l(p1);
                let mut p2 = ps.clone();
                p2.push(d1);
                rng.shuffle(&mut p2);
                let d2 = b.l(p2);
                let mut p3 = ps[1..].to_vec();
                p3.push(d2);
                rng.shuffle(&mut p3);
                b.l(p3);
                b.r(*rng.pick(&ps));
            }
        }
        out.push(b.case());
    }
}

/// histories with the maintenance call `C` (clear_modification_tracking) in them: liveness, the TMS sets and every
/// later operation must not depend on whether / when the pending-change tracking sets were cleared. The named
/// shapes with `C` after every retraction (then operations on the facts that are gone: a second retraction must be an
/// error, a justification naming them supports nothing), and random histories (well-formed and not) with `C`
/// sprinkled in at random places — directly after a retraction 2 times in 3 — followed by more operations.
fn maintenance_calls(rng: &mut Rng, n: usize, out: &mut Vec<String>) {
    for shape in [
        "I L1 R1 C",                   // one cascade, then clear
        "I R1 C R1",                   // a second retraction after the clear is still an error
        "I I L1 L3,2 R1 C L2 R3 R4 R2", // the round-3 demo: chain + shared premise, operations on gone facts after
        "I L1 L2 R2 C R1 C",           // retraction of a derived fact, clear, then of its premise
        "I I L1 J3:2 R1 C R2 C",       // two justifications: survives the first retraction, not the second
        "C I C L1 C R1 C C",           // clear on an empty / unchanged memory
        "I L1 R1 C I L1,3 L4 R3 C",    // a justification recorded after the clear that names a gone fact
    ] {
        out.push(shape.to_string());
    }
    for i in 0..n / 4 {
        let wf = i % 8 != 7;
        let base = random_history(rng, 10, 7, wf);
        let mut ops = Vec::new();
        let mut any_r = false;
        for o in &base {
            let is_r = matches!(o, Op::R(_));
            ops.push(o.clone());
            if (is_r && rng.chance(2, 3)) || rng.chance(1, 10) {
                ops.push(Op::C);
                any_r |= is_r;
            }
        }
        if !any_r {
            // end with a retraction of a live fact (if there is one) and a clear
            let live = replay_live(&ops);
            if !live.is_empty() {
                ops.push(Op::R(*rng.pick(&live)));
            }
            ops.push(Op::C);
        }
        // afterwards: touch facts that are gone, and go on working
        let n_created = count_created(&ops);
        for _ in 0..rng.range(0, 3) {
            let live = replay_live(&ops);
            match rng.below(4) {
                0 if n_created > 0 => ops.push(Op::R(rng.range(1, n_created))),
                1 if !live.is_empty() => ops.push(Op::L(pick_live(rng, &live, 2))),
                2 if !live.is_empty() => ops.push(Op::R(*rng.pick(&live))),
                _ => ops.push(Op::I),
            }
        }
        out.push(show_case(&ops));
    }
}

// ------------------------------------------------------------------ reach families (rule actions, twins, resets)
//
// Every path of IncrementalEngine through which facts are inserted, updated or retracted: API calls AND the ActionResults a
// fired rule returns during fire_all (Retract — what GRL `retract($X)` produces —, RetractByType, InsertFact,
// InsertLogicalFact, Update, None), the insert twins (insert_with_template, load_deffacts[_by_name], a fact type of its own),
// update of a premise, add_rule / reset() in the middle of a history, and reset_with_deffacts() followed by normal use.

/// every history of length <= maxlen over the reach alphabet, all handles among those created so far
fn reach_exhaustive(maxlen: usize, out: &mut Vec<String>) {
    fn rec(b: &B, maxlen: usize, out: &mut Vec<String>) {
        if !b.ops.is_empty() {
            out.push(b.case());
        }
        if b.ops.len() == maxlen {
            return;
        }
        let n = b.n();
        let mut nexts: Vec<Op> = vec![Op::I, Op::Ext(Ext::N), Op::Ext(Ext::F(Act::I))];
        for h in 1..=n {
            nexts.push(Op::L(vec![h]));
            nexts.push(Op::Ext(Ext::F(Act::L(vec![h]))));
            nexts.push(Op::Ext(Ext::F(Act::R(h))));
            nexts.push(Op::Ext(Ext::K(h)));
            if kind_at(&b.sim.kinds, h) == b'N' {
                nexts.push(Op::Ext(Ext::F(Act::T(h))));
            }
        }
        for op in nexts {
            let mut b2 = b.with_ops(&[]);
            b2.push(op);
            rec(&b2, maxlen, out);
        }
    }
    rec(&B::new(), maxlen, out);
}

/// the fixed support graphs, each fact retracted by a rule action (`Fr`), by the GRL rule after an update (`K`), and pairs
/// of retractions mixing the three ways in both orders
fn reach_shapes(out: &mut Vec<String>) {
    let graphs: Vec<(&str, u64)> = vec![
        ("I L1 L2 L3", 4),
        ("I L1 L1 L2,3", 4),
        ("I L1 L1 L2 J4:3", 4),
        ("I I L1 J3:2 L3", 4),
        ("I L1 L1 L1 L2,3,4", 5),
        ("I L1 L2 J2:3", 3),
        ("I L1 X2 L2", 3),
        ("I L1,1 L2,1,2", 3),
        ("N L1 L2 N L4 J3:4", 5),
        ("P L1 D L1,3 G L5 J2:5", 6),
    ];
    for (g, n) in graphs {
        let kinds: Vec<u8> = parse_case(g).unwrap().iter().flat_map(|o| kinds_of(o)).collect();
        for a in 1..=n {
            let mut ways = vec![format!("Fr{}", a), format!("K{}", a), format!("R{}", a)];
            if kind_at(&kinds, a) == b'N' {
                ways.push(format!("Ft{}", a));
            }
            for (i, w) in ways.iter().enumerate() {
                if i != 2 {
                    out.push(format!("{} {}", g, w));
                    out.push(format!("{} A {} Z", g, w));
                    out.push(format!("{} U{} {}", g, a, w));
                    out.push(format!("{} Fm {}", g, w));
                }
                for b in 1..=n {
                    if b == a {
                        continue;
                    }
                    // second retraction by the other ways (handles of trigger facts created by an `F` do not shift 1..=n)
                    for w2 in [format!("Fr{}", b), format!("K{}", b), format!("R{}", b)] {
                        if i == 2 && w2.starts_with('R') {
                            continue;
                        }
                        out.push(format!("{} {} {}", g, w, w2));
                    }
                }
            }
        }
    }
}

/// random history over the whole alphabet (basic + reach ops), steered by the liveness simulation; `wf` keeps every
/// premise / re-justified fact live; `resets` = number of reset_with_deffacts() calls somewhere in the middle
fn reach_random(rng: &mut Rng, maxops: usize, maxf: u64, wf: bool, resets: usize) -> Vec<Op> {
    let nops = rng.range(4, maxops as u64) as usize;
    let mut b = B::new();
    let mut reset_at: Vec<usize> = (0..resets).map(|_| rng.range(2, nops as u64 - 1) as usize).collect();
    reset_at.sort();
    for i in 0..nops {
        if reset_at.contains(&i) {
            b.push(Op::Ext(Ext::W));
            continue;
        }
        let live = b.sim.live.clone();
        let n = b.n();
        let late = i * 2 >= nops;
        let r = rng.below(100);
        let pick = |rng: &mut Rng| -> u64 {
            if live.is_empty() || (!wf && rng.chance(1, 10)) { rng.range(1, n.max(1) + 1) } else { *rng.pick(&live) }
        };
        if !live.is_empty() && (if late { r < 50 } else { r < 12 }) {
            // a retraction, one of the four ways
            let h = pick(rng);
            let op = match rng.below(8) {
                0 | 1 => Op::R(h),
                2 | 3 | 4 => Op::Ext(Ext::F(Act::R(h))),
                5 => Op::Ext(Ext::F(Act::T(h))),
                _ => Op::Ext(Ext::K(h)),
            };
            b.push(op);
            continue;
        }
        let c = rng.below(100);
        if live.is_empty() || (n < maxf && c < 22) {
            let op = match rng.below(9) {
                0 | 1 => Op::I,
                2 => Op::E,
                3 | 4 => Op::Ext(Ext::N),
                5 => Op::Ext(Ext::P),
                6 => if rng.chance(1, 2) { Op::Ext(Ext::D) } else { Op::Ext(Ext::G) },
                _ => Op::Ext(Ext::F(Act::I)),
            };
            b.push(op);
        } else if n < maxf && c < 60 {
            let pool: Vec<u64> = if wf || rng.chance(9, 10) { live.clone() } else { (1..=n).collect() };
            let k = rng.range(1, 3) as usize;
            let ps = pick_live(rng, &pool, k);
            b.push(match rng.below(5) {
                0 | 1 => Op::L(ps),
                2 => Op::Ext(Ext::Lk(ps)),
                _ => Op::Ext(Ext::F(Act::L(ps))),
            });
        } else if c < 75 {
            let f = pick(rng);
            let pool: Vec<u64> = if wf || rng.chance(9, 10) { live.clone() } else { (1..=n).collect() };
            let ps = pick_live(rng, &pool, 1);
            b.push(Op::J(f, ps));
        } else if c < 80 {
            let f = pick(rng);
            b.push(Op::X(f));
        } else {
            // operations that insert and retract nothing
            let h = if rng.chance(4, 5) { pick(rng) } else { rng.range(1, n + 2) };
            let op = match rng.below(12) {
                0 | 1 => Op::Ext(Ext::U(h)),
                2 => Op::Ext(Ext::A),
                3 => Op::Ext(Ext::Z),
                4 => Op::Ext(Ext::F(Act::U(h))),
                5 => Op::Ext(Ext::F(Act::N)),
                6 | 7 | 8 => Op::Ext(Ext::F(Act::M)),
                9 => Op::Ext(Ext::F(Act::G)),
                10 => Op::Ext(Ext::F(if rng.chance(1, 2) { Act::C } else { Act::S })),
                _ => Op::C,
            };
            b.push(op);
        }
    }
    b.ops
}

fn reach_families(rng: &mut Rng, n: usize, tier: &str, out: &mut Vec<String>) {
    let thorough = tier == "thorough";
    reach_exhaustive(if thorough { 4 } else { 3 }, out);
    reach_shapes(out);
    // named shapes: the seeded demo (rule retracts a premise of a chain), an update of a premise before the retraction,
    // a rule inserting a logical fact that a later rule retraction cascades away, resets followed by normal use
    for shape in [
        "I I L1 L3 L2 Fr1",
        "I L1 L2 U1 U2 K1",
        "I Fl1 Fl3 Fr1",
        "I Fi Fl1,3 Fr3 Fr1",
        "N L1 Fl2 Ft1",
        "I L1 R1 W",
        "I R1 W I L1 J3:2 R2",
        "I L1 W L1 L2 Fr1",
        "I L1 L2 R1 W W I L2 K2",
        "P D G L1,2,3 K1 Fr2 R3",
        "A I A L1 Z Fr1 Z",
        "I L1 L2 Fm R1",
        "I I L1,2 Fm Fm K2",
        "I Lk1 Lk1,2 R1",
        "I N P Lk1,2,3 Lk4 D Lk4,5 Ft2",
        "I L1 Fg Fr1 Fc Fs",
        "I L1 R1 C Fm C",
    ] {
        out.push(shape.to_string());
    }
    let m = n / 3;
    for i in 0..m {
        let wf = i % 8 != 7;
        let resets = if i % 5 == 0 { 1 + (i % 10) / 5 } else { 0 };
        out.push(show_case(&reach_random(rng, 12, 9, wf, resets)));
    }
    // beyond the small bound: deep chains whose root is retracted by a rule action / after an update; long mixed sessions
    for d in [33usize, 64, 65, 100] {
        for way in 0..2 {
            let mut b = B::new();
            let root = b.i();
            b.chain(root, d);
            b.push(if way == 0 { Op::Ext(Ext::F(Act::R(root))) } else { Op::Ext(Ext::K(root)) });
            out.push(b.case());
        }
    }
    for _ in 0..if thorough { 60 } else { 12 } {
        let resets = if rng.chance(1, 3) { 1 } else { 0 };
        out.push(show_case(&reach_random(rng, 90, 60, true, resets)));
    }
}

/// FAMILY "the source-rule name as an input": histories of every other family with the rule name of each logical insertion /
/// justification drawn from `RULE_NAMES` (empty, blank, very long, non-ASCII, equal for different justifications, equal to a
/// fact type / another rule / the words the code uses for justification kinds). The name is a label: model and oracle ignore it.
fn rule_name_family(rng: &mut Rng, n: usize, tier: &str, out: &mut Vec<String>) {
    let nn = rule_names().len();
    let decorate = |ops: &[Op], pick: &mut dyn FnMut(usize) -> Option<usize>| -> Option<String> {
        let mut k = 0usize;
        let names: Vec<Option<usize>> = ops
            .iter()
            .map(|o| {
                if is_logical_tok(o) {
                    k += 1;
                    pick(k - 1)
                } else {
                    None
                }
            })
            .collect();
        if names.iter().all(|x| x.is_none()) { None } else { Some(show_case_named(ops, &names)) }
    };
    // (a) every short history with a logical insertion and a retraction: the same name everywhere (each name in turn), the
    //     first / the last logical token alone named, and a different name per token
    let mut base: Vec<String> = Vec::new();
    exhaustive(4, 3, &mut base);
    shapes_all_orders(&mut base);
    reach_shapes(&mut base);
    let mut turn = 0usize;
    for c in &base {
        let Some(ops) = parse_case(c) else { continue };
        let nl = ops.iter().filter(|o| is_logical_tok(o)).count();
        if nl == 0 || !ops.iter().any(|o| matches!(o, Op::R(_) | Op::Ext(Ext::K(_)) | Op::Ext(Ext::F(Act::R(_))) | Op::Ext(Ext::F(Act::T(_))))) {
            continue;
        }
        turn += 1;
        let a = turn % nn;
        out.extend(decorate(&ops, &mut |_| Some(a)));
        // the empty name and its nearest relatives get every shape
        let e = [0usize, 1, 2][turn % 3];
        out.extend(decorate(&ops, &mut |i| if i == 0 { Some(e) } else { None }));
        if nl > 1 {
            out.extend(decorate(&ops, &mut |i| if i + 1 == nl { Some(e) } else { None }));
            out.extend(decorate(&ops, &mut |i| Some((a + i * 7) % nn)));
            out.extend(decorate(&ops, &mut |i| if i % 2 == 0 { Some(0) } else { Some(3) }));
        }
    }
    // (b) random histories (small bound and reach ops), names drawn per logical insertion
    let m = if tier == "thorough" { n } else { n / 2 };
    for i in 0..m {
        let ops = if i % 4 == 3 { reach_random(rng, 14, 8, true, 0) } else { random_history(rng, 10, 7, i % 8 != 7) };
        let small = rng.chance(1, 2);
        let s = decorate(&ops, &mut |_| {
            if rng.chance(1, 5) {
                None
            } else if small {
                Some(rng.below(4) as usize)
            } else {
                Some(rng.below(nn as u64) as usize)
            }
        });
        out.extend(s);
    }
}

/// MULTI-RESULT FIRINGS: one firing whose action returns 2..3 ActionResults (`F<a>+<a>[+<a>]`). `process_action_results` applies
/// them in the order emitted, each through the engine's own entry point, so the firing is the history of its results in that
/// order (theorem actions_are_history). Over 12 small support graphs with a chosen premise `p` and another fact `q`: EVERY
/// ordered selection of 2 and of 3 distinct results from {logical insert from p, logical insert from p and q, explicit insert,
/// retract p, retract q, update p} (derive-then-consume, consume-then-derive [outside the domain: premise dead when recorded],
/// insert between two retractions, ...), the 2-result firings also followed by a later retraction of every fact involved; plus
/// random histories with one or two such firings whose results are drawn against the liveness simulation (premises live when
/// recorded, also premises created earlier in the same firing).
fn multi_result_firings(rng: &mut Rng, n: usize, tier: &str, out: &mut Vec<String>) {
    let ctxs: Vec<(&str, u64, u64)> = vec![
        ("I", 1, 0),
        ("I I", 1, 2),
        ("I L1", 1, 2),
        ("I L1", 2, 1),
        ("I L1 L2", 2, 1),
        ("I L1 L2", 2, 3),
        ("I L1 L2", 1, 3),
        ("I I L1,2", 1, 2),
        ("I I L1,2", 3, 1),
        ("I L1 L1 L2,3", 2, 4),
        ("N L1", 1, 2),
        ("I L1 X2", 2, 1),
        ("I I L1 J3:2", 1, 3),
    ];
    for (g, p, q) in ctxs {
        let base = parse_case(g).unwrap();
        let n0 = base.iter().map(|o| kinds_of(o).len() as u64).sum::<u64>();
        let mut pool: Vec<Act> = vec![Act::L(vec![p]), Act::I, Act::R(p), Act::U(p)];
        if q > 0 {
            pool.push(Act::R(q));
            pool.push(Act::L(vec![p, q]));
        }
        let m = pool.len();
        for a in 0..m {
            for b in 0..m {
                if b == a {
                    continue;
                }
                let two = vec![pool[a].clone(), pool[b].clone()];
                let c2 = format!("{} {}", g, show_op(&Op::Ext(Ext::FG(two.clone()))));
                out.push(c2.clone());
                // a later retraction of every fact involved (the trigger is n0+1, the firing's own facts come after it)
                let made = two.iter().filter(|x| matches!(x, Act::I | Act::L(_))).count() as u64;
                for h in 1..=n0 + 1 + made {
                    if h != n0 + 1 {
                        out.push(format!("{} R{}", c2, h));
                    }
                }
                if q > 0 {
                    out.push(format!("{} Fr{}", c2, q));
                }
                for c in 0..m {
                    if c == a || c == b {
                        continue;
                    }
                    let three = vec![pool[a].clone(), pool[b].clone(), pool[c].clone()];
                    out.push(format!("{} {}", g, show_op(&Op::Ext(Ext::FG(three)))));
                }
            }
        }
        // a result naming a fact made earlier in the same firing: insert, derive from it (and from p), then consume
        let t = n0 + 1;
        for acts in [
            vec![Act::I, Act::L(vec![t + 1])],
            vec![Act::I, Act::L(vec![t + 1, p]), Act::R(p)],
            vec![Act::I, Act::L(vec![t + 1]), Act::R(t + 1)],
            vec![Act::L(vec![p]), Act::L(vec![t + 1]), Act::R(p)],
            vec![Act::L(vec![p]), Act::R(t + 1), Act::R(p)],
            vec![Act::L(vec![p]), Act::R(p), Act::L(vec![p])],
            vec![Act::R(p), Act::L(vec![p]), Act::R(p)],
            vec![Act::L(vec![t]), Act::R(p)],
        ] {
            out.push(format!("{} {}", g, show_op(&Op::Ext(Ext::FG(acts)))));
        }
    }
    let nr = if tier == "thorough" { n / 10 } else { n / 8 };
    for i in 0..nr {
        let mut b = B::new();
        b.i();
        let pre = rng.range(1, 4);
        for _ in 0..pre {
            let live = b.sim.live.clone();
            match rng.below(4) {
                0 => {
                    b.i();
                }
                1 if live.len() >= 2 => {
                    let f = *rng.pick(&live);
                    let ps = pick_live(rng, &live, 1);
                    b.j(f, ps);
                }
                _ => {
                    let k = 1 + rng.below(2) as usize;
                    let ps = pick_live(rng, &live, k);
                    b.l(ps);
                }
            }
        }
        let groups = 1 + rng.below(2);
        for _ in 0..groups {
            let len = 2 + rng.below(2) as usize;
            // the results are drawn against a copy of the simulation that is advanced result by result
            let mut s2 = b.with_ops(&[]);
            s2.push(Op::I); // the trigger fact
            let mut acts: Vec<Act> = Vec::new();
            for _ in 0..len {
                let live = s2.sim.live.clone();
                let wild = i % 8 == 7 && rng.chance(1, 3);
                let a = match rng.below(8) {
                    0 => Act::I,
                    1 | 2 | 3 if !live.is_empty() => {
                        let k = 1 + rng.below(2) as usize;
                        if wild { Act::L(vec![rng.range(1, s2.n())]) } else { Act::L(pick_live(rng, &live, k)) }
                    }
                    4 | 5 | 6 if !live.is_empty() => Act::R(if wild { rng.range(1, s2.n()) } else { *rng.pick(&live) }),
                    _ => Act::U(rng.range(1, s2.n())),
                };
                match &a {
                    Act::I => {
                        s2.push(Op::I);
                    }
                    Act::L(ps) => {
                        s2.push(Op::L(ps.clone()));
                    }
                    Act::R(h) => {
                        s2.push(Op::R(*h));
                    }
                    _ => {}
                }
                acts.push(a);
            }
            b.push(Op::Ext(Ext::FG(acts)));
            // something afterwards: a retraction or a further derivation
            let live = b.sim.live.clone();
            if !live.is_empty() && rng.chance(2, 3) {
                let h = *rng.pick(&live);
                match rng.below(3) {
                    0 => b.r(h),
                    1 => {
                        b.push(Op::Ext(Ext::F(Act::R(h))));
                    }
                    _ => {
                        b.l(vec![h]);
                    }
                }
            }
        }
        out.push(b.case());
    }
}

/// PROMOTION of a derived fact to a stated one (`Q<x>` = tms_mut().remove_justifications(x) + tms_mut().add_explicit_justification(x)):
/// afterwards x is an explicitly supported fact (it leaves only when retracted on request) and the facts derived from x before
/// or after the call still depend on it. Every fixed support graph x every fact promoted (once, twice, after / before a further
/// derivation or justification, after a sibling's promotion) x every ordered selection of up to 2 retractions; plus random
/// well-formed histories with promotions of live facts at random places.
fn promotions(rng: &mut Rng, n: usize, tier: &str, out: &mut Vec<String>) {
    let graphs: Vec<(&str, u64)> = vec![
        ("I L1 L2 L3", 4),
        ("I L1 L1 L2,3", 4),
        ("I L1 L1 L2 J4:3", 4),
        ("I I L1 J3:2 L3", 4),
        ("I L1 L1 L1 L2,3,4", 5),
        ("I L1 L2 J2:3", 3),
        ("I I L1 L3 J3:4 J3:2", 4),
        ("I L1 X2 L2", 3),
        ("I L1,1 L2,1,2", 3),
        ("E L- L2 L1,3", 4),
    ];
    for (g, k) in graphs {
        for x in 1..=k {
            let mut mids = vec![format!("Q{}", x), format!("Q{} Q{}", x, x), format!("Q{} L{}", x, x), format!("L{} Q{}", x, x), format!("Q{} J{}:1", x, x)];
            if x < k {
                mids.push(format!("Q{} Q{}", x + 1, x));
            }
            for (mi, mid) in mids.iter().enumerate() {
                let top = if mid.contains('L') { k + 1 } else { k };
                out.push(format!("{} {}", g, mid));
                for a in 1..=top {
                    out.push(format!("{} {} R{}", g, mid, a));
                    if mi >= 2 && tier != "thorough" {
                        continue;
                    }
                    for b in 1..=top {
                        if b != a {
                            out.push(format!("{} {} R{} R{}", g, mid, a, b));
                        }
                    }
                }
                // the promotion between two retractions
                for a in 1..=k {
                    if a != x {
                        out.push(format!("{} R{} {} R{}", g, a, mid, x));
                    }
                }
            }
        }
    }
    for i in 0..n / 8 {
        let wf = i % 8 != 7;
        let ops = random_history(rng, 10, 7, wf);
        // promotions of live facts (any handle in 1 of 8) put in at one or two places behind the first operation
        let mut v = ops.clone();
        let times = 1 + rng.below(2);
        for _ in 0..times {
            let at = rng.range(1, v.len() as u64) as usize;
            let live = replay_live(&v[..at]);
            let created = count_created(&v[..at]);
            let f = if wf && !live.is_empty() { *rng.pick(&live) } else if created > 0 { rng.range(1, created) } else { 1 };
            if wf && live.is_empty() {
                continue;
            }
            v.insert(at, Op::Q(f));
        }
        out.push(show_case(&v));
    }
}

fn gen(rng: &mut Rng, n: usize, tier: &str) -> Vec<String> {
    let mut out = Vec::new();
    let (maxlen, maxf) = if tier == "thorough" { (6usize, 4u64) } else { (5usize, 4u64) };
    exhaustive(maxlen, maxf, &mut out);
    shapes_all_orders(&mut out);
    for i in 0..n {
        let wf = i % 8 != 7;
        let ops = random_history(rng, 10, 7, wf);
        out.push(show_case(&ops));
    }
    maintenance_calls(rng, n, &mut out);
    // beyond the small bound (after the random part, so the cases above do not depend on these)
    deep_chains(rng, tier, &mut out);
    long_sessions(rng, tier, &mut out);
    wide_justifications(rng, tier, &mut out);
    reach_families(rng, n, tier, &mut out);
    rule_name_family(rng, n, tier, &mut out);
    // after everything else, so the cases above do not depend on it
    multi_result_firings(rng, n, tier, &mut out);
    promotions(rng, n, tier, &mut out);
    out
}

/// the history without the facts in `gone` (handles, old numbering): their creating operations
/// and every `R`/`X`/`J` about them disappear, they are dropped from premise lists (an operation
/// whose non-empty premise list would become empty disappears with the fact it creates), and the
/// remaining handles are renumbered the way working memory will number them
fn remove_facts(ops: &[Op], gone: &[u64]) -> Vec<Op> {
    // pass 1: which handles disappear (closure over "premise list became empty")
    let mut gone: Vec<u64> = gone.to_vec();
    loop {
        let mut n = 0u64;
        let mut more = Vec::new();
        for o in ops {
            match o {
                Op::I | Op::E => n += 1,
                Op::L(ps) => {
                    n += 1;
                    if !ps.is_empty() && ps.iter().all(|p| gone.contains(p)) && !gone.contains(&n) {
                        more.push(n);
                    }
                }
                _ => {}
            }
        }
        if more.is_empty() {
            break;
        }
        gone.extend(more);
    }
    let created = ops.iter().filter(|o| matches!(o, Op::I | Op::E | Op::L(_))).count() as u64;
    let map = |h: u64| -> u64 {
        if h == 0 { 0 } else { h - gone.iter().filter(|g| **g < h && **g <= created).count() as u64 }
    };
    let keep = |ps: &Vec<u64>| -> Vec<u64> { ps.iter().filter(|p| !gone.contains(p)).map(|p| map(*p)).collect() };
    let mut out = Vec::new();
    let mut n = 0u64;
    for o in ops {
        match o {
            Op::I | Op::E => {
                n += 1;
                if !gone.contains(&n) {
                    out.push(o.clone());
                }
            }
            Op::L(ps) => {
                n += 1;
                if !gone.contains(&n) {
                    out.push(Op::L(keep(ps)));
                }
            }
            Op::J(f, ps) => {
                let ps2 = keep(ps);
                if !gone.contains(f) && (ps.is_empty() || !ps2.is_empty()) {
                    out.push(Op::J(map(*f), ps2));
                }
            }
            Op::X(f) => {
                if !gone.contains(f) {
                    out.push(Op::X(map(*f)));
                }
            }
            Op::Q(f) => {
                if !gone.contains(f) {
                    out.push(Op::Q(map(*f)));
                }
            }
            Op::R(h) => {
                if !gone.contains(h) {
                    out.push(Op::R(map(*h)));
                }
            }
            Op::C => out.push(Op::C),
            Op::Ext(_) => out.push(o.clone()),
        }
    }
    out
}

/// `f` spliced out of the support graph: whoever listed `f` as a premise lists the premises of
/// `f`'s own first justification instead (shortens chains without cutting them)
fn contract_fact(ops: &[Op], f: u64) -> Option<Vec<Op>> {
    let mut n = 0u64;
    let mut own: Option<Vec<u64>> = None;
    for o in ops {
        match o {
            Op::I | Op::E => n += 1,
            Op::L(ps) => {
                n += 1;
                if n == f {
                    own = Some(ps.clone());
                }
            }
            _ => {}
        }
    }
    let own = own?;
    if own.is_empty() || own.contains(&f) {
        return None;
    }
    let subst = |ps: &Vec<u64>| -> Vec<u64> {
        let mut v = Vec::new();
        for p in ps {
            if *p == f {
                for q in &own {
                    if !v.contains(q) {
                        v.push(*q);
                    }
                }
            } else {
                v.push(*p);
            }
        }
        v
    };
    let ops2: Vec<Op> = ops
        .iter()
        .map(|o| match o {
            Op::L(ps) => Op::L(subst(ps)),
            Op::J(g, ps) => Op::J(*g, subst(ps)),
            o => o.clone(),
        })
        .collect();
    Some(remove_facts(&ops2, &[f]))
}

// --------------------------------------------------------------------------- in-harness minimiser
//
// check.py tries at most 64 candidates per round and ~6 rounds; for histories of 100+ operations
// that is not enough to get near a minimal witness.  `c08 minimise` (run by `shrink` as a child
// process, so that a crash of the real code cannot take the candidate list with it) does the
// delta debugging here, with a cheap stand-in for the oracle: the real code's observations are
// compared with what the independent simulation `Sim` expects for a well-formed history.  Its
// result is only a *candidate*: check.py accepts it only if the Lean oracle fails on it with the
// same signature.

/// first clause (in the oracle's order) on which the real code's observations differ from the
/// expectation, for a well-formed history; `None` = nothing differs or the history is not well-formed
fn verdict(ops: &[Op]) -> Option<&'static str> {
    let obs = exec(&show_case(ops));
    let steps: Vec<&str> = obs.split(';').collect();
    if steps.len() != ops.len() {
        return None;
    }
    let k = universe(ops);
    let mut sim = Sim::new();
    for (op, st) in ops.iter().zip(steps) {
        let f: Vec<&str> = st.split('/').collect();
        if f.len() != 6 {
            return Some("shape");
        }
        let wf = match op {
            Op::L(ps) => ps.iter().all(|p| sim.live.contains(p)),
            Op::J(g, ps) => sim.live.contains(g) && ps.iter().all(|p| sim.live.contains(p)),
            Op::X(g) | Op::Q(g) => sim.live.contains(g),
            _ => true,
        };
        if !wf {
            return None;
        }
        let before = sim.live.clone();
        sim.apply(op);
        if let Op::R(h) = op {
            if before.contains(h) {
                // the oracle's cascade clause: what is listed was present, is listed once, had lost its
                // support, and exactly `h` + the list left working memory (a fact that is *missing*
                // from the list and still present is the support clause's business)
                let want: Vec<u64> = before.iter().copied().filter(|x| x != h && !sim.live.contains(x)).collect();
                let Some(got) = f[0].strip_prefix("ok:").and_then(parse_nums::<u64>) else { return Some("cascade") };
                let mut uniq = got.clone();
                uniq.sort();
                uniq.dedup();
                let mut left: Vec<u64> = before.iter().copied().filter(|x| x != h && !got.contains(x)).collect();
                left.sort();
                if uniq.len() != got.len() || got.iter().any(|x| !want.contains(x)) || parse_nums::<u64>(f[1]) != Some(left) {
                    return Some("cascade");
                }
            }
        }
        let mut live = sim.live.clone();
        live.sort();
        if parse_nums::<u64>(f[1]) != Some(live.clone()) {
            return Some("support");
        }
        let has = |g: u64, explicit: bool| sim.justs.iter().any(|j| j.0 == g && j.1 == explicit);
        let logical: Vec<u64> = live.iter().copied().filter(|g| has(*g, false)).collect();
        let explicit: Vec<u64> = live.iter().copied().filter(|g| has(*g, true)).collect();
        let valid: Vec<u64> = (1..=k)
            .filter(|g| sim.justs.iter().any(|j| j.0 == *g && (j.1 || j.2.iter().all(|p| live.contains(p)))))
            .collect();
        if parse_nums::<u64>(f[2]) != Some(logical) || parse_nums::<u64>(f[3]) != Some(explicit) || parse_nums::<u64>(f[4]) != Some(valid) {
            return Some("query");
        }
    }
    None
}

fn count_created(ops: &[Op]) -> u64 {
    ops.iter().filter(|o| matches!(o, Op::I | Op::E | Op::L(_))).count() as u64
}

/// greedy passes (blocks of facts, single facts removed / spliced out, single non-creating
/// operations, single premises) until nothing changes; every step keeps `verdict` the same
fn minimise(ops: &[Op]) -> Vec<Op> {
    let Some(target) = verdict(ops) else { return ops.to_vec() };
    let mut cur = ops.to_vec();
    let mut budget = 30_000usize;
    let try_take = |cur: &mut Vec<Op>, cand: Vec<Op>, budget: &mut usize| -> bool {
        if *budget == 0 || cand.is_empty() || show_case(&cand).len() >= show_case(cur).len() {
            return false;
        }
        *budget -= 1;
        if verdict(&cand) == Some(target) {
            *cur = cand;
            true
        } else {
            false
        }
    };
    for _ in 0..6 {
        let before = show_case(&cur);
        // blocks of facts, halving sizes, from the end of the history backwards
        let mut size = (count_created(&cur) / 2).max(1);
        loop {
            let mut hi = count_created(&cur);
            while hi >= size && hi > 0 {
                let block: Vec<u64> = (hi - size + 1..=hi).collect();
                let cand = remove_facts(&cur, &block);
                try_take(&mut cur, cand, &mut budget);
                hi -= size;
            }
            if size == 1 {
                break;
            }
            size /= 2;
        }
        // facts spliced out of the support graph
        let mut f = count_created(&cur);
        while f >= 1 {
            if let Some(cand) = contract_fact(&cur, f) {
                try_take(&mut cur, cand, &mut budget);
            }
            f -= 1;
        }
        // single non-creating operations, single premises
        let mut i = cur.len();
        while i > 0 {
            i -= 1;
            if i >= cur.len() {
                continue;
            }
            match cur[i].clone() {
                Op::J(..) | Op::X(_) | Op::R(_) => {
                    let mut cand = cur.clone();
                    cand.remove(i);
                    if try_take(&mut cur, cand, &mut budget) {
                        continue;
                    }
                }
                _ => {}
            }
            let premises = match &cur[i] {
                Op::L(ps) | Op::J(_, ps) if ps.len() > 1 => ps.len(),
                _ => 0,
            };
            for q in (0..premises).rev() {
                let mut cand = cur.clone();
                match &mut cand[i] {
                    Op::L(ps) | Op::J(_, ps) if ps.len() > 1 && q < ps.len() => {
                        ps.remove(q);
                    }
                    _ => continue,
                }
                try_take(&mut cur, cand, &mut budget);
            }
        }
        if show_case(&cur) == before {
            break;
        }
    }
    cur
}

/// `minimise` in a child process (a crash or a hang of the real code there costs only this candidate)
fn minimise_in_child(case: &str) -> Option<String> {
    use std::io::{Read, Write};
    use std::process::{Command, Stdio};
    let exe = std::env::current_exe().ok()?;
    let mut child = Command::new(exe).arg("minimise").stdin(Stdio::piped()).stdout(Stdio::piped()).stderr(Stdio::null()).spawn().ok()?;
    child.stdin.take()?.write_all(format!("{}\n", case).as_bytes()).ok()?;
    let mut out = child.stdout.take()?;
    let (tx, rx) = std::sync::mpsc::channel();
    std::thread::spawn(move || {
        let mut s = String::new();
        let _ = out.read_to_string(&mut s);
        let _ = tx.send(s);
    });
    match rx.recv_timeout(std::time::Duration::from_secs(60)) {
        Ok(s) => {
            let ok = child.wait().map(|st| st.success()).unwrap_or(false);
            let s = s.trim().to_string();
            if ok && !s.is_empty() && s != case { Some(s) } else { None }
        }
        Err(_) => {
            let _ = child.kill();
            let _ = child.wait();
            None
        }
    }
}

/// candidates for a history with rule names: the names go (all at once, then one at a time) or become the empty name, then
/// operations are removed / premises dropped with the names kept on the tokens that stay
fn shrink_named(ops: &[Op], names: &[Option<usize>], case: &str) -> Vec<String> {
    let mut out: Vec<String> = Vec::new();
    out.push(show_case(ops));
    for i in 0..ops.len() {
        if names[i].is_some() {
            let mut n2 = names.to_vec();
            n2[i] = None;
            out.push(show_case_named(ops, &n2));
        }
    }
    let creating = |o: &Op| !kinds_of(o).is_empty();
    for pass in 0..2 {
        for i in (0..ops.len()).rev() {
            if creating(&ops[i]) == (pass == 1) {
                let (mut v, mut n2) = (ops.to_vec(), names.to_vec());
                v.remove(i);
                n2.remove(i);
                out.push(show_case_named(&v, &n2));
                if pass == 1 && !has_ext(ops) {
                    // the fact goes with renumbering (names follow their tokens: a creating token that stays keeps its place
                    // among the creating tokens only when nothing else disappears with it, so only that case is offered)
                    let created_before = ops[..i].iter().filter(|o| creating(o)).count() as u64;
                    let w = remove_facts(ops, &[created_before + 1]);
                    if w.len() + 1 == ops.len() {
                        out.push(show_case_named(&w, &n2));
                    }
                }
            }
        }
    }
    for i in 0..ops.len() {
        let simpler: Vec<Op> = match &ops[i] {
            Op::L(ps) if ps.len() > 1 => shrink_list(ps).into_iter().filter(|v| !v.is_empty()).map(Op::L).collect(),
            Op::J(f, ps) if ps.len() > 1 => shrink_list(ps).into_iter().filter(|v| !v.is_empty()).map(|v| Op::J(*f, v)).collect(),
            Op::Ext(Ext::Lk(ps)) => vec![Op::L(ps.clone())],
            Op::Ext(Ext::F(Act::L(ps))) if ps.len() > 1 => {
                shrink_list(ps).into_iter().filter(|v| !v.is_empty()).map(|v| Op::Ext(Ext::F(Act::L(v)))).collect()
            }
            Op::Ext(Ext::N) | Op::Ext(Ext::P) | Op::Ext(Ext::D) | Op::Ext(Ext::G) => vec![Op::I],
            _ => vec![],
        };
        for v in simpler {
            let mut o2 = ops.to_vec();
            o2[i] = v;
            out.push(show_case_named(&o2, names));
        }
    }
    for i in 0..ops.len() {
        if names[i].map_or(false, |x| x != 0) {
            let mut n2 = names.to_vec();
            n2[i] = Some(0);
            out.push(show_case_named(ops, &n2));
        }
    }
    let mut seen = std::collections::HashSet::new();
    out.retain(|c| !c.is_empty() && c != case && seen.insert(c.clone()));
    out
}

/// a firing with several results: one result dropped (a single one left = the plain `F<a>`), one premise dropped
fn group_simpler(acts: &[Act]) -> Vec<Op> {
    let mut out = Vec::new();
    for i in 0..acts.len() {
        let mut v = acts.to_vec();
        v.remove(i);
        out.push(if v.len() == 1 { Op::Ext(Ext::F(v[0].clone())) } else { Op::Ext(Ext::FG(v)) });
    }
    for i in 0..acts.len() {
        if let Act::L(ps) = &acts[i] {
            if ps.len() > 1 {
                for q in shrink_list(ps).into_iter().filter(|v| !v.is_empty()) {
                    let mut v = acts.to_vec();
                    v[i] = Act::L(q);
                    out.push(Op::Ext(Ext::FG(v)));
                }
            }
        }
    }
    out
}

fn shrink(case: &str) -> Vec<String> {
    let Some((ops, names)) = parse_case_named(case) else { return vec![] };
    if names.iter().any(|n| n.is_some()) {
        return shrink_named(&ops, &names, case);
    }
    if has_ext(&ops) {
        // histories with reach ops: operations removed (handles keep their numbers only when no creating operation goes,
        // so those candidates come first), a reach op replaced by the basic one it stands for, premises dropped
        let mut out: Vec<String> = Vec::new();
        let creating = |o: &Op| !kinds_of(o).is_empty();
        for pass in 0..2 {
            for i in (0..ops.len()).rev() {
                if creating(&ops[i]) == (pass == 1) {
                    let mut v = ops.clone();
                    v.remove(i);
                    out.push(show_case(&v));
                }
            }
        }
        for i in 0..ops.len() {
            let simpler: Vec<Op> = match &ops[i] {
                Op::Ext(Ext::N) | Op::Ext(Ext::P) | Op::Ext(Ext::D) | Op::Ext(Ext::G) => vec![Op::I],
                Op::L(ps) if ps.len() > 1 => shrink_list(ps).into_iter().filter(|v| !v.is_empty()).map(Op::L).collect(),
                Op::Ext(Ext::F(Act::L(ps))) if ps.len() > 1 => {
                    shrink_list(ps).into_iter().filter(|v| !v.is_empty()).map(|v| Op::Ext(Ext::F(Act::L(v)))).collect()
                }
                Op::Ext(Ext::FG(acts)) => group_simpler(acts),
                _ => vec![],
            };
            for v in simpler {
                let mut o2 = ops.clone();
                o2[i] = v;
                out.push(show_case(&o2));
            }
        }
        let mut seen = std::collections::HashSet::new();
        out.retain(|c| !c.is_empty() && c != case && seen.insert(c.clone()));
        return out;
    }
    let created = ops.iter().filter(|o| matches!(o, Op::I | Op::E | Op::L(_))).count() as u64;
    let mut generic: Vec<String> = shrink_list(&ops).into_iter().filter(|v| !v.is_empty()).map(|v| show_case(&v)).collect();
    // drop one premise somewhere
    for i in 0..ops.len() {
        let variants: Vec<Op> = match &ops[i] {
            Op::L(ps) if ps.len() > 1 => shrink_list(ps).into_iter().filter(|v| !v.is_empty()).map(Op::L).collect(),
            Op::J(f, ps) if ps.len() > 1 => shrink_list(ps).into_iter().filter(|v| !v.is_empty()).map(|v| Op::J(*f, v)).collect(),
            _ => vec![],
        };
        for v in variants {
            let mut o2 = ops.clone();
            o2[i] = v;
            generic.push(show_case(&o2));
        }
    }
    // whole facts removed with renumbering: blocks of created/2, /4, … handles (from the end of the
    // history backwards), then single facts removed or spliced out, then single non-creating operations
    let mut facts: Vec<String> = Vec::new();
    let mut size = created / 2;
    while size >= 2 {
        let mut hi = created;
        while hi >= size {
            let block: Vec<u64> = (hi - size + 1..=hi).collect();
            facts.push(show_case(&remove_facts(&ops, &block)));
            hi -= size;
        }
        size /= 2;
    }
    let mut singles: Vec<String> = Vec::new();
    for f in (1..=created).rev() {
        singles.push(show_case(&remove_facts(&ops, &[f])));
        if let Some(v) = contract_fact(&ops, f) {
            singles.push(show_case(&v));
        }
    }
    let mut noncreating: Vec<String> = Vec::new();
    for i in (0..ops.len()).rev() {
        if matches!(ops[i], Op::J(..) | Op::X(_) | Op::R(_) | Op::Q(_)) {
            let mut v = ops.clone();
            v.remove(i);
            noncreating.push(show_case(&v));
        }
    }
    // check.py tries the first 64 candidates of a round: short histories keep the generic order
    // first; long ones start with the renumbering candidates, interleaving the three kinds
    let mut out: Vec<String> = Vec::new();
    if ops.len() <= 12 {
        out.extend(generic);
        out.extend(facts);
        out.extend(singles);
    } else {
        out.extend(facts.iter().take(30).cloned());
        let (mut a, mut b) = (singles.into_iter(), noncreating.into_iter());
        loop {
            let (x, y, z) = (a.next(), a.next(), b.next());
            if x.is_none() && z.is_none() {
                break;
            }
            out.extend(x);
            out.extend(y);
            out.extend(z);
        }
        out.extend(facts.into_iter().skip(30));
        out.extend(generic);
    }
    // long histories: the in-harness minimiser's result goes first
    if ops.len() > 12 {
        if let Some(m) = minimise_in_child(case) {
            out.insert(0, m);
        }
    }
    let mut seen = std::collections::HashSet::new();
    out.retain(|c| !c.is_empty() && c != case && seen.insert(c.clone()));
    out
}

fn main() {
    let args: Vec<String> = std::env::args().collect();
    if args.get(1).map(|s| s.as_str()) == Some("count") {
        // report the size of the exhaustive part: count <maxlen> <maxf>
        let l: usize = args.get(2).and_then(|s| s.parse().ok()).unwrap_or(4);
        let f: u64 = args.get(3).and_then(|s| s.parse().ok()).unwrap_or(3);
        let mut v = Vec::new();
        exhaustive(l, f, &mut v);
        println!("{}", v.len());
        return;
    }
    if args.get(1).map(|s| s.as_str()) == Some("verdict") {
        // diagnosis: the stand-in verdict for each case line on stdin
        let mut line = String::new();
        while std::io::stdin().read_line(&mut line).unwrap_or(0) > 0 {
            if let Some(ops) = parse_case(line.trim_end()) {
                println!("{}", verdict(&ops).unwrap_or("none"));
            }
            line.clear();
        }
        return;
    }
    if args.get(1).map(|s| s.as_str()) == Some("minimise") {
        // one case line on stdin -> a smaller history with the same `verdict` (see `minimise`)
        std::panic::set_hook(Box::new(|_| {}));
        let mut line = String::new();
        std::io::stdin().read_line(&mut line).unwrap();
        let out = match parse_case(line.trim_end()) {
            Some(ops) => std::panic::catch_unwind(|| show_case(&minimise(&ops))).unwrap_or_default(),
            None => String::new(),
        };
        println!("{}", out);
        return;
    }
    if args.get(1).map(|s| s.as_str()) == Some("exec") {
        exec_main();
        return;
    }
    main_with(Prop { gen, exec, shrink });
}

// the same exec loop as `rre_harness::main_with`, with fd 1 pointed at /dev/null while the cases run (the GRL loader's action
// closures and `process_action_results` print to stdout); observations go to a duplicate of the original fd 1
extern "C" {
    fn dup(fd: i32) -> i32;
    fn dup2(a: i32, b: i32) -> i32;
}
fn exec_main() {
    use std::io::{BufRead, Write};
    use std::os::fd::{AsRawFd, FromRawFd};
    let saved = unsafe { dup(1) };
    let null = std::fs::OpenOptions::new().write(true).open("/dev/null").unwrap();
    unsafe { dup2(null.as_raw_fd(), 1) };
    let mut out = std::io::BufWriter::new(unsafe { std::fs::File::from_raw_fd(saved) });
    std::panic::set_hook(Box::new(|_| {}));
    let stdin = std::io::stdin();
    for line in stdin.lock().lines() {
        let line = line.unwrap();
        let line = line.trim_end();
        if line.is_empty() {
            continue;
        }
        writeln!(out, "{}", exec_guarded(exec, line)).unwrap();
        out.flush().unwrap(); // per case: if the process dies or hangs, check.py knows which case did it
    }
    out.flush().unwrap();
}
