//! C08 — truth maintenance: IncrementalEngine {insert, insert_explicit, insert_logical, retract,
//! tms_mut().add_*_justification} + a stand-alone TruthMaintenanceSystem fed the same calls (to
//! observe the return value of retract_with_cascade, which the engine swallows).
//!
//! case := op op …      I | E | L<ps> | J<f>:<ps> | X<f> | R<h>      <ps> := - | p,p,…
//!         I = engine.insert, E = engine.insert_explicit, L = engine.insert_logical(premises),
//!         J = tms_mut().add_logical_justification(f, premises), X = tms_mut().add_explicit_justification(f),
//!         R = engine.retract(h).  Handles are the numbers working memory hands out (1, 2, …).
//! obs  := step;step;…  step := res/present/logical/explicit/valid/stats
//!         res = h<k> | u | ok:<cascade> | err ; the four sets are over the universe 1..=K
//!         (K = max(#inserting ops + 1, largest handle mentioned)), sorted; stats = TmsStats fields.
use rre_harness::*;
use rust_rule_engine::rete::tms::TruthMaintenanceSystem;
use rust_rule_engine::rete::{FactHandle, IncrementalEngine, TypedFacts};

#[derive(Clone, Debug, PartialEq)]
enum Op {
    I,
    E,
    L(Vec<u64>),
    J(u64, Vec<u64>),
    X(u64),
    R(u64),
}

fn parse_op(t: &str) -> Option<Op> {
    let (k, rest) = t.split_at(1);
    Some(match k {
        "I" if rest.is_empty() => Op::I,
        "E" if rest.is_empty() => Op::E,
        "L" => Op::L(parse_nums(rest)?),
        "J" => {
            let (f, ps) = rest.split_once(':')?;
            Op::J(f.parse().ok()?, parse_nums(ps)?)
        }
        "X" => Op::X(rest.parse().ok()?),
        "R" => Op::R(rest.parse().ok()?),
        _ => return None,
    })
}

fn show_op(o: &Op) -> String {
    match o {
        Op::I => "I".into(),
        Op::E => "E".into(),
        Op::L(ps) => format!("L{}", join_nums(ps)),
        Op::J(f, ps) => format!("J{}:{}", f, join_nums(ps)),
        Op::X(f) => format!("X{}", f),
        Op::R(h) => format!("R{}", h),
    }
}

fn parse_case(case: &str) -> Option<Vec<Op>> {
    case.split_whitespace().map(parse_op).collect()
}

fn show_case(ops: &[Op]) -> String {
    ops.iter().map(show_op).collect::<Vec<_>>().join(" ")
}

fn universe(ops: &[Op]) -> u64 {
    let mut ins = 0u64;
    let mut mx = 0u64;
    for o in ops {
        match o {
            Op::I | Op::E => ins += 1,
            Op::L(ps) => {
                ins += 1;
                mx = mx.max(ps.iter().copied().max().unwrap_or(0));
            }
            Op::J(f, ps) => mx = mx.max(*f).max(ps.iter().copied().max().unwrap_or(0)),
            Op::X(f) | Op::R(f) => mx = mx.max(*f),
        }
    }
    (ins + 1).max(mx)
}

fn hs(v: &[u64]) -> Vec<FactHandle> {
    v.iter().map(|x| FactHandle::new(*x)).collect()
}

fn exec(case: &str) -> String {
    let Some(ops) = parse_case(case) else { return "bad-case".into() };
    let k = universe(&ops);
    let mut eng = IncrementalEngine::new();
    let mut twin = TruthMaintenanceSystem::new();
    let mut steps = Vec::new();
    for op in &ops {
        let res = match op {
            Op::I => {
                let h = eng.insert("F".to_string(), TypedFacts::new());
                twin.add_explicit_justification(h);
                format!("h{}", h.id())
            }
            Op::E => {
                let h = eng.insert_explicit("F".to_string(), TypedFacts::new());
                twin.add_explicit_justification(h);
                format!("h{}", h.id())
            }
            Op::L(ps) => {
                let h = eng.insert_logical("D".to_string(), TypedFacts::new(), "rule".to_string(), hs(ps));
                twin.add_logical_justification(h, "rule".to_string(), hs(ps));
                format!("h{}", h.id())
            }
            Op::J(f, ps) => {
                eng.tms_mut().add_logical_justification(FactHandle::new(*f), "rule2".to_string(), hs(ps));
                twin.add_logical_justification(FactHandle::new(*f), "rule2".to_string(), hs(ps));
                "u".to_string()
            }
            Op::X(f) => {
                eng.tms_mut().add_explicit_justification(FactHandle::new(*f));
                twin.add_explicit_justification(FactHandle::new(*f));
                "u".to_string()
            }
            Op::R(h) => match eng.retract(FactHandle::new(*h)) {
                Ok(()) => {
                    let c = twin.retract_with_cascade(FactHandle::new(*h));
                    format!("ok:{}", join_nums(&c.iter().map(|x| x.id()).collect::<Vec<_>>()))
                }
                Err(_) => "err".to_string(),
            },
        };
        let mut flags = String::new();
        let present: Vec<u64> = (1..=k).filter(|i| eng.working_memory().get(&FactHandle::new(*i)).is_some()).collect();
        let mut logical: Vec<u64> = eng.tms().get_logical_facts().iter().map(|h| h.id()).collect();
        logical.sort();
        let mut explicit: Vec<u64> = eng.tms().get_explicit_facts().iter().map(|h| h.id()).collect();
        explicit.sort();
        let valid: Vec<u64> = (1..=k).filter(|i| eng.tms().has_valid_justification(FactHandle::new(*i))).collect();
        // the per-handle queries must agree with the sets, and the twin TMS with the engine's
        for i in 1..=k {
            let h = FactHandle::new(i);
            if eng.tms().is_logical(h) != logical.contains(&i) || eng.tms().is_explicit(h) != explicit.contains(&i) {
                flags.push_str("!query");
            }
            if twin.is_logical(h) != eng.tms().is_logical(h)
                || twin.is_explicit(h) != eng.tms().is_explicit(h)
                || twin.has_valid_justification(h) != eng.tms().has_valid_justification(h)
            {
                flags.push_str("!twin");
            }
        }
        // working memory's own listing agrees with get()
        let mut listed: Vec<u64> = eng.working_memory().get_all_handles().iter().map(|h| h.id()).collect();
        listed.sort();
        if listed != present {
            flags.push_str("!listing");
        }
        let st = eng.tms().stats();
        steps.push(format!(
            "{}{}/{}/{}/{}/{}/{},{},{},{}",
            res,
            flags,
            join_nums(&present),
            join_nums(&logical),
            join_nums(&explicit),
            join_nums(&valid),
            st.total_justifications,
            st.logical_facts,
            st.explicit_facts,
            st.retracted_facts
        ));
    }
    if steps.is_empty() { "-".into() } else { steps.join(";") }
}

// ------------------------------------------------------------------------------------------ gen

/// all non-empty premise lists over 1..=n with at most `maxp` distinct, increasing entries
fn premise_sets(n: u64, maxp: usize) -> Vec<Vec<u64>> {
    let mut out = Vec::new();
    for a in 1..=n {
        out.push(vec![a]);
        if maxp >= 2 {
            for b in a + 1..=n {
                out.push(vec![a, b]);
            }
        }
    }
    out
}

/// every history of length <= maxlen creating at most `maxf` facts, over the alphabet
/// I, L<ps>, J<f>:<p>, X<f>, R<h> with all handles among those created so far (live or not)
fn exhaustive(maxlen: usize, maxf: u64, out: &mut Vec<String>) {
    fn rec(cur: &mut Vec<Op>, n: u64, maxlen: usize, maxf: u64, out: &mut Vec<String>) {
        if !cur.is_empty() {
            out.push(show_case(cur));
        }
        if cur.len() == maxlen {
            return;
        }
        let mut nexts: Vec<(Op, u64)> = Vec::new();
        if n < maxf {
            nexts.push((Op::I, n + 1));
            for ps in premise_sets(n, 2) {
                nexts.push((Op::L(ps), n + 1));
            }
        }
        for f in 1..=n {
            for p in 1..=n {
                nexts.push((Op::J(f, vec![p]), n));
            }
            nexts.push((Op::X(f), n));
            nexts.push((Op::R(f), n));
        }
        for (op, n2) in nexts {
            cur.push(op);
            rec(cur, n2, maxlen, maxf, out);
            cur.pop();
        }
    }
    rec(&mut Vec::new(), 0, maxlen, maxf, out);
}

fn pick_live(rng: &mut Rng, live: &[u64], k: usize) -> Vec<u64> {
    let mut v = live.to_vec();
    rng.shuffle(&mut v);
    v.truncate(k.min(v.len()));
    v
}

/// random history: up to `maxops` operations over up to `maxf` facts; `wf` keeps every premise
/// (and every re-justified fact) live when recorded
fn random_history(rng: &mut Rng, maxops: usize, maxf: u64, wf: bool) -> Vec<Op> {
    let nops = rng.range(3, maxops as u64) as usize;
    let mut ops = Vec::new();
    let mut n = 0u64; // handles created
    let mut live: Vec<u64> = Vec::new();
    let shape = rng.below(5);
    // phase weights: build first, retract later
    for i in 0..nops {
        let late = i * 2 >= nops;
        let r = rng.below(100);
        let want_retract = !live.is_empty() && (if late { r < 60 } else { r < 12 });
        if want_retract {
            let h = if wf || rng.chance(9, 10) { *rng.pick(&live) } else { rng.range(1, n + 1) };
            ops.push(Op::R(h));
            // liveness after the cascade is not tracked here exactly: recompute by replay below
            live = replay_live(&ops);
            continue;
        }
        let can_insert = n < maxf;
        let c = rng.below(100);
        if live.is_empty() || (can_insert && c < 25) {
            if can_insert {
                ops.push(if rng.chance(1, 2) { Op::I } else { Op::E });
                n += 1;
                live.push(n);
            } else {
                let h = rng.range(1, n);
                ops.push(Op::R(h));
                live = replay_live(&ops);
            }
        } else if can_insert && c < 65 {
            // logical insertion; shape decides the premises
            let pool: Vec<u64> = if wf || rng.chance(9, 10) { live.clone() } else { (1..=n).collect() };
            let ps = match shape {
                0 => vec![*pool.last().unwrap()],                       // chain
                1 => pick_live(rng, &pool, 2),                          // diamond-ish joins
                2 => vec![pool[0]],                                     // shared premise
                3 => { let k = rng.range(1, 3) as usize; pick_live(rng, &pool, k) }
                _ => {
                    let mut v = pick_live(rng, &pool, 2);
                    if rng.chance(1, 3) { let d = v[0]; v.push(d); }     // duplicated premise
                    v
                }
            };
            ops.push(Op::L(ps));
            n += 1;
            live.push(n);
        } else if c < 97 {
            // another justification for an existing fact
            let f = if wf || rng.chance(9, 10) { *rng.pick(&live) } else { rng.range(1, n) };
            let pool: Vec<u64> = if wf || rng.chance(9, 10) { live.clone() } else { (1..=n).collect() };
            let k = rng.range(1, 2) as usize;
            let ps = pick_live(rng, &pool, k);
            ops.push(Op::J(f, ps));
        } else {
            let f = if wf || rng.chance(9, 10) { *rng.pick(&live) } else { rng.range(1, n) };
            ops.push(Op::X(f));
        }
    }
    ops
}

/// which handles are live after `ops` — a tiny independent simulation (fixpoint removal of
/// unsupported facts), used only to steer the generator; the engine is never called from `gen`
fn replay_live(ops: &[Op]) -> Vec<u64> {
    let mut n = 0u64;
    let mut live: Vec<u64> = Vec::new();
    let mut justs: Vec<(u64, bool, Vec<u64>)> = Vec::new();
    for op in ops {
        match op {
            Op::I | Op::E => {
                n += 1;
                live.push(n);
                justs.push((n, true, vec![]));
            }
            Op::L(ps) => {
                n += 1;
                live.push(n);
                justs.push((n, false, ps.clone()));
            }
            Op::J(f, ps) => justs.push((*f, false, ps.clone())),
            Op::X(f) => justs.push((*f, true, vec![])),
            Op::R(h) => {
                if !live.contains(h) {
                    continue;
                }
                live.retain(|x| x != h);
                loop {
                    let gone: Vec<u64> = live
                        .iter()
                        .copied()
                        .filter(|f| {
                            justs.iter().any(|j| j.0 == *f)
                                && !justs.iter().any(|j| j.0 == *f && (j.1 || j.2.iter().all(|p| live.contains(p))))
                        })
                        .collect();
                    if gone.is_empty() {
                        break;
                    }
                    live.retain(|x| !gone.contains(x));
                }
            }
        }
    }
    live
}

/// a fixed support graph followed by every retraction order of a subset of its facts
fn shapes_all_orders(out: &mut Vec<String>) {
    let graphs: Vec<(&str, u64)> = vec![
        ("I L1 L2 L3", 4),                 // chain
        ("I L1 L1 L2,3", 4),               // diamond (join needs both)
        ("I L1 L1 L2 J4:3", 4),            // diamond (two justifications)
        ("I I L1 J3:2 L3", 4),             // two justifications, then a dependent
        ("I L1 L1 L1 L2,3,4", 5),          // shared premise, wide join
        ("I L1 L2 J2:3", 3),               // cycle 2 <-> 3 hanging on 1
        ("I I L1 L3 J3:4 J3:2", 4),        // cycle with an outside support
        ("I L1 X2 L2", 3),                 // both explicit and logical
        ("I L1,1 L2,1,2", 3),              // duplicated premises
        ("E L- L2 L1,3", 4),               // premise-less logical fact
    ];
    for (g, n) in graphs {
        // every ordered selection of up to 3 distinct handles
        let hs: Vec<u64> = (1..=n).collect();
        for a in &hs {
            out.push(format!("{} R{}", g, a));
            for b in &hs {
                if b == a { continue; }
                out.push(format!("{} R{} R{}", g, a, b));
                for c in &hs {
                    if c == a || c == b { continue; }
                    out.push(format!("{} R{} R{} R{}", g, a, b, c));
                }
            }
        }
    }
}

fn gen(rng: &mut Rng, n: usize, tier: &str) -> Vec<String> {
    let mut out = Vec::new();
    let (maxlen, maxf) = if tier == "thorough" { (6usize, 4u64) } else { (5usize, 4u64) };
    exhaustive(maxlen, maxf, &mut out);
    shapes_all_orders(&mut out);
    for i in 0..n {
        let wf = i % 8 != 7;
        let ops = random_history(rng, 10, 7, wf);
        out.push(show_case(&ops));
    }
    out
}

fn shrink(case: &str) -> Vec<String> {
    let Some(ops) = parse_case(case) else { return vec![] };
    let mut out: Vec<String> = shrink_list(&ops).into_iter().filter(|v| !v.is_empty()).map(|v| show_case(&v)).collect();
    // drop one premise somewhere
    for i in 0..ops.len() {
        let variants: Vec<Op> = match &ops[i] {
            Op::L(ps) if ps.len() > 1 => shrink_list(ps).into_iter().filter(|v| !v.is_empty()).map(Op::L).collect(),
            Op::J(f, ps) if ps.len() > 1 => shrink_list(ps).into_iter().filter(|v| !v.is_empty()).map(|v| Op::J(*f, v)).collect(),
            _ => vec![],
        };
        for v in variants {
            let mut o2 = ops.clone();
            o2[i] = v;
            out.push(show_case(&o2));
        }
    }
    out
}

fn main() {
    let args: Vec<String> = std::env::args().collect();
    if args.get(1).map(|s| s.as_str()) == Some("count") {
        // report the size of the exhaustive part: count <maxlen> <maxf>
        let l: usize = args.get(2).and_then(|s| s.parse().ok()).unwrap_or(4);
        let f: u64 = args.get(3).and_then(|s| s.parse().ok()).unwrap_or(3);
        let mut v = Vec::new();
        exhaustive(l, f, &mut v);
        println!("{}", v.len());
        return;
    }
    main_with(Prop { gen, exec, shrink });
}
