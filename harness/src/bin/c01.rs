//! C01 — forward chaining fires iff the condition holds; assignments store the RHS value.
//!
//! case := `G<0|1> F<n> {<keyhex> VALUE}*n U<m> RULE*m [M<c>] [V<bits>] [P<k> PHASE*k]`
//!   M<c>  := EngineConfig::max_cycles (default 1)
//!   V<bits> := twin ways of building the same engine / rules / facts (sum of): 1 engine from `RustRuleEngine::new` (default
//!            configuration: max_cycles 100, M ignored), 2 rules added after construction through `knowledge_base()` /
//!            `knowledge_base_mut()` (GRL stream: `add_rules_from_grl`), 4 analytics enabled, 8 facts stored through
//!            `Facts::add` (serde) wherever the value survives the JSON round trip, 16 an undo frame is open around every
//!            execute call (begin / commit), 32 the GRL stream parses the whole text with `parse_rules`, 64 rules built with
//!            `Operator::from_str` (both spellings), `Value::from`, inert `with_*` builders
//!   PHASE := <p|w|m|s|x><n> CALLEROP*n   one more execute call on the SAME engine object, after the caller edited the facts
//!            (`p`: in the same Facts object; otherwise first moved into a new Facts object holding the same content: `w` by
//!            add_value, `m` by merge, `s` by snapshot + restore, `x` by to_context + from_context)
//!   CALLEROP := <keyhex> VALUE (add_value) | =<keyhex> VALUE (Facts::set) | @<pathhex> VALUE (Facts::set_nested, an Err is
//!            ignored) | -<keyhex> (Facts::remove) | ! (Facts::clear)
//!   VALUE := S<hex> | I<int> | N<f64 bits, 16 hex> | B0 | B1 | Z | X<hex> | A<n> VALUE*n | O<n> {<keyhex> VALUE}*n
//!   RULE  := R<k> COND ACTION*k          ACTION := = <fieldhex> SRHS | ^ <fieldhex> SRHS
//!   COND  := and COND COND | or COND COND | not COND | f <namehex> <op> SRHS | a SUM <cmp> ARHS
//!   SRHS  := L VALUE | E SUM             ARHS := n<tokhex> | E SUM
//!   SUM   := e<n> TERM {OP TERM}*n       TERM := t<n> ATOM {OP ATOM}*n
//!   OP    := <p|m|t|d|r><padL>,<padR>    ATOM := k<hex> (field / numeral token) | q<hex> ("string literal")
//! Rules are built programmatically exactly as the parser builds them (Condition::new,
//! Condition::with_test(text), Value::Expression(text)); with G1 the same rule set is also printed
//! as GRL text and loaded through GRLParser (second stream: covers the parser/engine glue).
//! obs  := `{C RUN}*(1+k) {X RUN}*(1+k) [{G RUN}*(1+k)]` ; RUN := <ok|err|panic> <evaluated> <fired> <k> {<rule> <facts>}*k <final facts>
//!   (C = execute_with_callback, X = execute_at_time (no firings: k=0), G = callback run on the GRL-parsed rules;
//!    one engine object per stream, one RUN per execute call: the first call and one per PHASE)
//!   facts := VALUE tokens of the whole store as one object, joined by ',', keys sorted.
use rre_harness::*;
use rust_rule_engine::engine::engine::{EngineConfig, RustRuleEngine};
use rust_rule_engine::engine::facts::Facts;
use rust_rule_engine::engine::knowledge_base::KnowledgeBase;
use rust_rule_engine::engine::rule::{Condition, ConditionGroup, Rule};
use rust_rule_engine::parser::grl::GRLParser;
use rust_rule_engine::types::{ActionType, Operator, Value};
use std::cell::RefCell;
use std::collections::HashMap;
use std::panic::AssertUnwindSafe;

// ------------------------------------------------------------------ structures
#[derive(Clone, Debug)]
enum Atom {
    Tok(String),
    Lit(String),
}
#[derive(Clone, Debug)]
struct Term {
    first: Atom,
    rest: Vec<(char, usize, usize, Atom)>,
}
#[derive(Clone, Debug)]
struct Sum {
    first: Term,
    rest: Vec<(char, usize, usize, Term)>,
}
#[derive(Clone, Debug)]
enum SRhs {
    Lit(Value),
    Expr(Sum),
}
#[derive(Clone, Debug)]
enum ARhs {
    Num(String),
    Expr(Sum),
}
#[derive(Clone, Debug)]
enum Cond {
    And(Box<Cond>, Box<Cond>),
    Or(Box<Cond>, Box<Cond>),
    Not(Box<Cond>),
    Field(String, String, SRhs),
    Arith(Sum, String, ARhs),
}
#[derive(Clone, Debug)]
enum Act {
    Set(String, SRhs),
    Append(String, SRhs),
}
#[derive(Clone, Debug)]
struct SRule {
    cond: Cond,
    acts: Vec<Act>,
}
#[derive(Clone, Debug)]
enum POp {
    Add(String, Value),
    Set(String, Value),
    SetNested(String, Value),
    Remove(String),
    Clear,
}
#[derive(Clone, Debug)]
struct Phase {
    kind: char,
    ops: Vec<POp>,
}
const V_NEW: u32 = 1;
const V_LATE: u32 = 2;
const V_ANALYTICS: u32 = 4;
const V_SERDE: u32 = 8;
const V_UNDO: u32 = 16;
const V_WHOLE: u32 = 32;
const V_BUILDERS: u32 = 64;
#[derive(Clone, Debug)]
struct Case {
    grl: bool,
    facts: Vec<(String, Value)>,
    rules: Vec<SRule>,
    max_cycles: usize,
    variant: u32,
    phases: Vec<Phase>,
}

// ------------------------------------------------------------------ rendering (text the parser would see)
fn op_char(c: char) -> char {
    match c {
        'p' => '+',
        'm' => '-',
        't' => '*',
        'd' => '/',
        _ => '%',
    }
}
fn render_atom(a: &Atom) -> String {
    match a {
        Atom::Tok(s) => s.clone(),
        Atom::Lit(b) => format!("\"{}\"", b),
    }
}
fn render_term(t: &Term) -> String {
    let mut s = render_atom(&t.first);
    for (c, pl, pr, a) in &t.rest {
        s.push_str(&" ".repeat(*pl));
        s.push(op_char(*c));
        s.push_str(&" ".repeat(*pr));
        s.push_str(&render_atom(a));
    }
    s
}
fn render_sum(e: &Sum) -> String {
    let mut s = render_term(&e.first);
    for (c, pl, pr, t) in &e.rest {
        s.push_str(&" ".repeat(*pl));
        s.push(op_char(*c));
        s.push_str(&" ".repeat(*pr));
        s.push_str(&render_term(t));
    }
    s
}
fn cmp_text(op: &str) -> &'static str {
    match op {
        "ge" => ">=",
        "le" => "<=",
        "eq" => "==",
        "ne" => "!=",
        "gt" => ">",
        "lt" => "<",
        "co" => "contains",
        "sw" => "startsWith",
        "ew" => "endsWith",
        "ma" => "matches",
        "in" => "in",
        _ => "not_contains",
    }
}
fn operator(op: &str) -> Operator {
    match op {
        "ge" => Operator::GreaterThanOrEqual,
        "le" => Operator::LessThanOrEqual,
        "eq" => Operator::Equal,
        "ne" => Operator::NotEqual,
        "gt" => Operator::GreaterThan,
        "lt" => Operator::LessThan,
        "co" => Operator::Contains,
        "nc" => Operator::NotContains,
        "sw" => Operator::StartsWith,
        "ew" => Operator::EndsWith,
        "ma" => Operator::Matches,
        _ => Operator::In,
    }
}

// ------------------------------------------------------------------ serialisation
fn ser_value(v: &Value, out: &mut Vec<String>) {
    match v {
        Value::String(s) => out.push(format!("S{}", hex(s))),
        Value::Integer(i) => out.push(format!("I{}", i)),
        Value::Number(x) => out.push(format!("N{:016x}", if x.is_nan() { 0x7ff8000000000000u64 } else { x.to_bits() })),
        Value::Boolean(b) => out.push(if *b { "B1".into() } else { "B0".into() }),
        Value::Null => out.push("Z".into()),
        Value::Expression(e) => out.push(format!("X{}", hex(e))),
        Value::Array(xs) => {
            out.push(format!("A{}", xs.len()));
            for x in xs {
                ser_value(x, out);
            }
        }
        Value::Object(m) => {
            let mut ks: Vec<&String> = m.keys().collect();
            ks.sort();
            out.push(format!("O{}", ks.len()));
            for k in ks {
                out.push(hex(k));
                ser_value(&m[k], out);
            }
        }
    }
}
fn ser_facts_map(m: &HashMap<String, Value>) -> String {
    let mut out = Vec::new();
    ser_value(&Value::Object(m.clone()), &mut out);
    out.join(",")
}
fn ser_atom(a: &Atom, out: &mut Vec<String>) {
    match a {
        Atom::Tok(s) => out.push(format!("k{}", hex(s))),
        Atom::Lit(s) => out.push(format!("q{}", hex(s))),
    }
}
fn ser_term(t: &Term, out: &mut Vec<String>) {
    out.push(format!("t{}", t.rest.len()));
    ser_atom(&t.first, out);
    for (c, pl, pr, a) in &t.rest {
        out.push(format!("{}{},{}", c, pl, pr));
        ser_atom(a, out);
    }
}
fn ser_sum(e: &Sum, out: &mut Vec<String>) {
    out.push(format!("e{}", e.rest.len()));
    ser_term(&e.first, out);
    for (c, pl, pr, t) in &e.rest {
        out.push(format!("{}{},{}", c, pl, pr));
        ser_term(t, out);
    }
}
fn ser_srhs(r: &SRhs, out: &mut Vec<String>) {
    match r {
        SRhs::Lit(v) => {
            out.push("L".into());
            ser_value(v, out)
        }
        SRhs::Expr(e) => {
            out.push("E".into());
            ser_sum(e, out)
        }
    }
}
fn ser_cond(c: &Cond, out: &mut Vec<String>) {
    match c {
        Cond::And(a, b) => {
            out.push("and".into());
            ser_cond(a, out);
            ser_cond(b, out)
        }
        Cond::Or(a, b) => {
            out.push("or".into());
            ser_cond(a, out);
            ser_cond(b, out)
        }
        Cond::Not(a) => {
            out.push("not".into());
            ser_cond(a, out)
        }
        Cond::Field(n, op, r) => {
            out.push("f".into());
            out.push(hex(n));
            out.push(op.clone());
            ser_srhs(r, out)
        }
        Cond::Arith(l, op, r) => {
            out.push("a".into());
            ser_sum(l, out);
            out.push(op.clone());
            match r {
                ARhs::Num(t) => out.push(format!("n{}", hex(t))),
                ARhs::Expr(e) => {
                    out.push("E".into());
                    ser_sum(e, out)
                }
            }
        }
    }
}
fn ser_case(c: &Case) -> String {
    let mut out = vec![format!("G{}", if c.grl { 1 } else { 0 }), format!("F{}", c.facts.len())];
    for (k, v) in &c.facts {
        out.push(hex(k));
        ser_value(v, &mut out);
    }
    out.push(format!("U{}", c.rules.len()));
    for r in &c.rules {
        out.push(format!("R{}", r.acts.len()));
        ser_cond(&r.cond, &mut out);
        for a in &r.acts {
            match a {
                Act::Set(f, r) => {
                    out.push("=".into());
                    out.push(hex(f));
                    ser_srhs(r, &mut out)
                }
                Act::Append(f, r) => {
                    out.push("^".into());
                    out.push(hex(f));
                    ser_srhs(r, &mut out)
                }
            }
        }
    }
    if c.max_cycles != 1 {
        out.push(format!("M{}", c.max_cycles));
    }
    if c.variant != 0 {
        out.push(format!("V{}", c.variant));
    }
    if !c.phases.is_empty() {
        out.push(format!("P{}", c.phases.len()));
        for ph in &c.phases {
            out.push(format!("{}{}", ph.kind, ph.ops.len()));
            for op in &ph.ops {
                match op {
                    POp::Add(k, v) => {
                        out.push(hex(k));
                        ser_value(v, &mut out);
                    }
                    POp::Set(k, v) => {
                        out.push(format!("={}", hex(k)));
                        ser_value(v, &mut out);
                    }
                    POp::SetNested(k, v) => {
                        out.push(format!("@{}", hex(k)));
                        ser_value(v, &mut out);
                    }
                    POp::Remove(k) => out.push(format!("-{}", hex(k))),
                    POp::Clear => out.push("!".into()),
                }
            }
        }
    }
    out.join(" ")
}

// ------------------------------------------------------------------ parsing
struct P<'a> {
    t: Vec<&'a str>,
    i: usize,
}
impl<'a> P<'a> {
    fn next(&mut self) -> Option<&'a str> {
        let x = self.t.get(self.i).copied();
        self.i += 1;
        x
    }
    fn count(&mut self, pre: char) -> Option<usize> {
        let t = self.next()?;
        if !t.starts_with(pre) {
            return None;
        }
        t[1..].parse().ok()
    }
    fn value(&mut self) -> Option<Value> {
        let t = self.next()?;
        let (h, r) = t.split_at(1);
        Some(match h {
            "S" => Value::String(unhex(r)?),
            "I" => Value::Integer(r.parse().ok()?),
            "N" => Value::Number(f64::from_bits(u64::from_str_radix(r, 16).ok()?)),
            "B" => Value::Boolean(r == "1"),
            "Z" => Value::Null,
            "X" => Value::Expression(unhex(r)?),
            "A" => {
                let n: usize = r.parse().ok()?;
                let mut v = Vec::new();
                for _ in 0..n {
                    v.push(self.value()?);
                }
                Value::Array(v)
            }
            "O" => {
                let n: usize = r.parse().ok()?;
                let mut m = HashMap::new();
                for _ in 0..n {
                    let k = unhex(self.next()?)?;
                    let v = self.value()?;
                    m.insert(k, v);
                }
                Value::Object(m)
            }
            _ => return None,
        })
    }
    fn atom(&mut self) -> Option<Atom> {
        let t = self.next()?;
        let (h, r) = t.split_at(1);
        match h {
            "k" => Some(Atom::Tok(unhex(r)?)),
            "q" => Some(Atom::Lit(unhex(r)?)),
            _ => None,
        }
    }
    fn op(&mut self) -> Option<(char, usize, usize)> {
        let t = self.next()?;
        let c = t.chars().next()?;
        let mut it = t[1..].split(',');
        Some((c, it.next()?.parse().ok()?, it.next()?.parse().ok()?))
    }
    fn term(&mut self) -> Option<Term> {
        let n = self.count('t')?;
        let first = self.atom()?;
        let mut rest = Vec::new();
        for _ in 0..n {
            let (c, pl, pr) = self.op()?;
            rest.push((c, pl, pr, self.atom()?));
        }
        Some(Term { first, rest })
    }
    fn sum(&mut self) -> Option<Sum> {
        let n = self.count('e')?;
        let first = self.term()?;
        let mut rest = Vec::new();
        for _ in 0..n {
            let (c, pl, pr) = self.op()?;
            rest.push((c, pl, pr, self.term()?));
        }
        Some(Sum { first, rest })
    }
    fn srhs(&mut self) -> Option<SRhs> {
        match self.next()? {
            "L" => Some(SRhs::Lit(self.value()?)),
            "E" => Some(SRhs::Expr(self.sum()?)),
            _ => None,
        }
    }
    fn cond(&mut self) -> Option<Cond> {
        match self.next()? {
            "and" => Some(Cond::And(Box::new(self.cond()?), Box::new(self.cond()?))),
            "or" => Some(Cond::Or(Box::new(self.cond()?), Box::new(self.cond()?))),
            "not" => Some(Cond::Not(Box::new(self.cond()?))),
            "f" => {
                let n = unhex(self.next()?)?;
                let op = self.next()?.to_string();
                Some(Cond::Field(n, op, self.srhs()?))
            }
            "a" => {
                let l = self.sum()?;
                let op = self.next()?.to_string();
                let t = self.next()?;
                let r = if t == "E" { ARhs::Expr(self.sum()?) } else { ARhs::Num(unhex(t.strip_prefix('n')?)?) };
                Some(Cond::Arith(l, op, r))
            }
            _ => None,
        }
    }
}
fn parse_case(line: &str) -> Option<Case> {
    let mut p = P { t: line.split_whitespace().collect(), i: 0 };
    let grl = p.next()? == "G1";
    let n = p.count('F')?;
    let mut facts = Vec::new();
    for _ in 0..n {
        let k = unhex(p.next()?)?;
        facts.push((k, p.value()?));
    }
    let m = p.count('U')?;
    let mut rules = Vec::new();
    for _ in 0..m {
        let k = p.count('R')?;
        let cond = p.cond()?;
        let mut acts = Vec::new();
        for _ in 0..k {
            let kind = p.next()?;
            let f = unhex(p.next()?)?;
            let r = p.srhs()?;
            acts.push(if kind == "=" { Act::Set(f, r) } else { Act::Append(f, r) });
        }
        rules.push(SRule { cond, acts });
    }
    let mut max_cycles = 1;
    if p.t.get(p.i).map_or(false, |t| t.starts_with('M')) {
        max_cycles = p.count('M')?;
    }
    let mut variant = 0u32;
    if p.t.get(p.i).map_or(false, |t| t.starts_with('V')) {
        variant = p.count('V')? as u32;
    }
    let mut phases = Vec::new();
    if p.t.get(p.i).map_or(false, |t| t.starts_with('P')) {
        let k = p.count('P')?;
        for _ in 0..k {
            let t = p.next()?;
            let kind = t.chars().next()?;
            if !"pwmsx".contains(kind) {
                return None;
            }
            let n: usize = t[1..].parse().ok()?;
            let mut ops = Vec::new();
            for _ in 0..n {
                let t = p.next()?;
                ops.push(match t.chars().next()? {
                    '-' => POp::Remove(unhex(&t[1..])?),
                    '!' => POp::Clear,
                    '@' => POp::SetNested(unhex(&t[1..])?, p.value()?),
                    '=' => POp::Set(unhex(&t[1..])?, p.value()?),
                    _ => POp::Add(unhex(t)?, p.value()?),
                });
            }
            phases.push(Phase { kind, ops });
        }
    }
    if p.i != p.t.len() {
        return None;
    }
    Some(Case { grl, facts, rules, max_cycles, variant, phases })
}

// ------------------------------------------------------------------ building rules as the parser does
/// the same literal through the `From` conversions (`Value::from(5)`, `"abc".into()`)
fn lit_from(v: &Value) -> Value {
    match v {
        Value::Integer(i) => Value::from(*i),
        Value::Number(x) => Value::from(*x),
        Value::Boolean(b) => Value::from(*b),
        Value::String(s) if s.len() % 2 == 0 => Value::from(s.as_str()),
        Value::String(s) => Value::from(s.clone()),
        other => other.clone(),
    }
}
fn compile_rhs(r: &SRhs, builders: bool) -> Value {
    match r {
        SRhs::Lit(v) if builders => lit_from(v),
        SRhs::Lit(v) => v.clone(),
        SRhs::Expr(e) => Value::Expression(render_sum(e)),
    }
}
/// `Operator::from_str` on one of the spellings it documents (`alt` picks the second one where there are two)
fn operator_from_str(op: &str, alt: bool) -> Operator {
    let text = match (op, alt) {
        ("ge", false) => ">=",
        ("ge", true) => "gte",
        ("le", false) => "<=",
        ("le", true) => "lte",
        ("eq", false) => "==",
        ("eq", true) => "eq",
        ("ne", false) => "!=",
        ("ne", true) => "ne",
        ("gt", false) => ">",
        ("gt", true) => "gt",
        ("lt", false) => "<",
        ("lt", true) => "lt",
        ("co", _) => "contains",
        ("nc", _) => "not_contains",
        ("sw", false) => "startsWith",
        ("sw", true) => "starts_with",
        ("ew", false) => "endsWith",
        ("ew", true) => "ends_with",
        ("ma", _) => "matches",
        _ => "in",
    };
    Operator::from_str(text).unwrap_or_else(|| panic!("Operator::from_str({:?}) is None", text))
}
fn compile_cond(c: &Cond, builders: bool) -> ConditionGroup {
    match c {
        Cond::And(a, b) => ConditionGroup::and(compile_cond(a, builders), compile_cond(b, builders)),
        Cond::Or(a, b) => ConditionGroup::or(compile_cond(a, builders), compile_cond(b, builders)),
        Cond::Not(a) => ConditionGroup::not(compile_cond(a, builders)),
        Cond::Field(n, op, r) => {
            let o = if builders { operator_from_str(op, n.len() % 2 == 1) } else { operator(op) };
            ConditionGroup::single(Condition::new(n.clone(), o, compile_rhs(r, builders)))
        }
        Cond::Arith(l, op, r) => {
            let rt = match r {
                ARhs::Num(t) => t.clone(),
                ARhs::Expr(e) => render_sum(e),
            };
            ConditionGroup::single(Condition::with_test(format!("{} {} {}", render_sum(l), cmp_text(op), rt), vec![]))
        }
    }
}
fn compile_rule(i: usize, r: &SRule, builders: bool) -> Rule {
    let acts = r
        .acts
        .iter()
        .map(|a| match a {
            Act::Set(f, r) => ActionType::Set { field: f.clone(), value: compile_rhs(r, builders) },
            Act::Append(f, r) => ActionType::Append { field: f.clone(), value: compile_rhs(r, builders) },
        })
        .collect();
    let rule = Rule::new(format!("R{}", i), compile_cond(&r.cond, builders), acts);
    if builders {
        // builders with the values a fresh rule already has: the same rule
        rule.with_description(format!("rule {}", i)).with_priority(0).with_salience(0).with_no_loop(false).with_lock_on_active(false)
    } else {
        rule
    }
}

// GRL text of the same rule (only produced for cases flagged G1 by the generator)
fn grl_value(v: &Value) -> String {
    match v {
        Value::String(s) => format!("\"{}\"", s),
        Value::Integer(i) => i.to_string(),
        Value::Number(x) => format!("{:?}", x),
        Value::Boolean(b) => b.to_string(),
        Value::Null => "null".into(),
        Value::Array(xs) => format!("[{}]", xs.iter().map(grl_value).collect::<Vec<_>>().join(", ")),
        _ => "null".into(),
    }
}
fn grl_rhs(r: &SRhs) -> String {
    match r {
        SRhs::Lit(v) => grl_value(v),
        SRhs::Expr(e) => render_sum(e),
    }
}
fn grl_cond(c: &Cond) -> String {
    match c {
        Cond::And(a, b) => format!("({}) && ({})", grl_cond(a), grl_cond(b)),
        Cond::Or(a, b) => format!("({}) || ({})", grl_cond(a), grl_cond(b)),
        Cond::Not(a) => format!("!({})", grl_cond(a)),
        Cond::Field(n, op, r) => format!("{} {} {}", n, cmp_text(op), grl_rhs(r)),
        Cond::Arith(l, op, r) => {
            let rt = match r {
                ARhs::Num(t) => t.clone(),
                ARhs::Expr(e) => render_sum(e),
            };
            format!("{} {} {}", render_sum(l), cmp_text(op), rt)
        }
    }
}
fn grl_rule(i: usize, r: &SRule) -> String {
    let mut acts = String::new();
    for a in &r.acts {
        match a {
            Act::Set(f, r) => acts.push_str(&format!("{} = {};\n", f, grl_rhs(r))),
            Act::Append(f, r) => acts.push_str(&format!("{} += {};\n", f, grl_rhs(r))),
        }
    }
    format!("rule \"R{}\" {{\nwhen\n{}\nthen\n{}}}\n", i, grl_cond(&r.cond), acts)
}

// ------------------------------------------------------------------ exec
fn to_json(v: &Value) -> Option<serde_json::Value> {
    Some(match v {
        Value::String(s) => serde_json::Value::String(s.clone()),
        Value::Integer(i) => serde_json::Value::from(*i),
        Value::Number(x) => serde_json::Value::Number(serde_json::Number::from_f64(*x)?),
        Value::Boolean(b) => serde_json::Value::Bool(*b),
        Value::Null => serde_json::Value::Null,
        Value::Expression(_) => return None,
        Value::Array(xs) => serde_json::Value::Array(xs.iter().map(to_json).collect::<Option<Vec<_>>>()?),
        Value::Object(m) => {
            let mut o = serde_json::Map::new();
            for (k, x) in m {
                o.insert(k.clone(), to_json(x)?);
            }
            serde_json::Value::Object(o)
        }
    })
}
/// `Facts::add_value`, or — variant 8 — `Facts::add` of the JSON form of the value when it has one (no NaN / infinity /
/// Expression inside; JSON keeps integer and float numerals apart, so the stored value must be the same)
fn put(f: &Facts, k: &str, v: &Value, serde: bool) {
    if serde {
        if let Some(j) = to_json(v) {
            f.add(k, j).unwrap();
            return;
        }
    }
    f.add_value(k, v.clone()).unwrap();
}
fn mk_facts(c: &Case) -> Facts {
    let f = Facts::new();
    for (k, v) in &c.facts {
        put(&f, k, v, c.variant & V_SERDE != 0);
    }
    f
}
enum Prog {
    Rules(Vec<Rule>),
    Text(String),
}
fn mk_engine(prog: Prog, c: &Case) -> Option<RustRuleEngine> {
    let kb = KnowledgeBase::new("c01");
    let late = c.variant & V_LATE != 0;
    let mut pending: Vec<Rule> = Vec::new();
    let mut pending_text: Option<String> = None;
    match prog {
        Prog::Rules(rules) => {
            let n = rules.len();
            for (i, r) in rules.into_iter().enumerate() {
                if late && i >= n / 2 {
                    pending.push(r);
                } else {
                    kb.add_rule(r).ok()?;
                }
            }
        }
        Prog::Text(t) => {
            if late {
                pending_text = Some(t);
            } else {
                kb.add_rules_from_grl(&t).ok()?;
            }
        }
    }
    let mut eng = if c.variant & V_NEW != 0 {
        RustRuleEngine::new(kb)
    } else {
        let cfg = EngineConfig { max_cycles: c.max_cycles, timeout: None, enable_stats: false, debug_mode: false };
        RustRuleEngine::with_config(kb, cfg)
    };
    for (i, r) in pending.into_iter().enumerate() {
        if i % 2 == 0 {
            eng.knowledge_base().add_rule(r).ok()?;
        } else {
            eng.knowledge_base_mut().add_rule(r).ok()?;
        }
    }
    if let Some(t) = pending_text {
        eng.knowledge_base().add_rules_from_grl(&t).ok()?;
    }
    if c.variant & V_ANALYTICS != 0 {
        eng.enable_analytics(rust_rule_engine::engine::analytics::RuleAnalytics::new(Default::default()));
    }
    Some(eng)
}
fn rule_idx(name: &str) -> String {
    name.trim_start_matches('R').to_string()
}
/// one engine object, one execute call per phase (the caller changes facts in between); `tag RUN` per call
fn run(tag: &str, prog: Prog, c: &Case, callback: bool) -> String {
    let Some(mut eng) = mk_engine(prog, c) else { return format!("{} badkb", tag) };
    let serde = c.variant & V_SERDE != 0;
    let mut facts = mk_facts(c);
    let mut out: Vec<String> = Vec::new();
    for call in 0..=c.phases.len() {
        if call > 0 {
            let ph = &c.phases[call - 1];
            match ph.kind {
                'w' => {
                    let f2 = Facts::new();
                    let all = facts.get_all_facts();
                    let mut ks: Vec<&String> = all.keys().collect();
                    ks.sort();
                    for k in ks {
                        f2.add_value(k, all[k].clone()).unwrap();
                    }
                    facts = f2;
                }
                'm' => {
                    let f2 = Facts::new();
                    f2.merge(&facts);
                    facts = f2;
                }
                's' => {
                    let f2 = Facts::new();
                    f2.add_value("stale", Value::Boolean(true)).unwrap(); // restore replaces the content
                    f2.restore(facts.snapshot());
                    facts = f2;
                }
                'x' => facts = Facts::from_context(facts.to_context()),
                _ => {}
            }
            for op in &ph.ops {
                match op {
                    POp::Add(k, v) => put(&facts, k, v, serde),
                    POp::Set(k, v) => facts.set(k, v.clone()),
                    POp::SetNested(k, v) => {
                        let _ = facts.set_nested(k, v.clone());
                    }
                    POp::Remove(k) => {
                        facts.remove(k);
                    }
                    POp::Clear => facts.clear(),
                }
            }
        }
        let firings: RefCell<Vec<String>> = RefCell::new(Vec::new());
        if c.variant & V_UNDO != 0 {
            facts.begin_undo_frame();
        }
        let res = std::panic::catch_unwind(AssertUnwindSafe(|| {
            if callback {
                eng.execute_with_callback(&facts, |name, f| {
                    firings.borrow_mut().push(format!("{} {}", rule_idx(name), ser_facts_map(&f.get_all_facts())));
                })
            } else {
                eng.execute(&facts) // = execute_at_time(facts, Utc::now())
            }
        }));
        if c.variant & V_UNDO != 0 {
            facts.commit_undo_frame();
        }
        let (st, ev, fi) = match res {
            Ok(Ok(r)) => ("ok", r.rules_evaluated, r.rules_fired),
            Ok(Err(_)) => ("err", 0, 0),
            Err(_) => ("panic", 0, 0),
        };
        let fs = firings.borrow();
        let mut s = format!("{} {} {} {} {}", tag, st, ev, fi, fs.len());
        for f in fs.iter() {
            s.push(' ');
            s.push_str(f);
        }
        s.push(' ');
        s.push_str(&ser_facts_map(&facts.get_all_facts()));
        out.push(s);
        if st == "panic" {
            break; // the engine / fact store may be poisoned: no further calls
        }
    }
    out.join(" ")
}
fn exec(case: &str) -> String {
    let Some(c) = parse_case(case) else { return "bad-case".into() };
    let builders = c.variant & V_BUILDERS != 0;
    let prog = || Prog::Rules(c.rules.iter().enumerate().map(|(i, r)| compile_rule(i, r, builders)).collect::<Vec<_>>());
    let mut s = format!("{} {}", run("C", prog(), &c, true), run("X", prog(), &c, false));
    if c.grl {
        let texts: Vec<String> = c.rules.iter().enumerate().map(|(i, r)| grl_rule(i, r)).collect();
        let g = if c.variant & V_WHOLE != 0 && c.variant & V_LATE != 0 {
            // the whole text handed to KnowledgeBase::add_rules_from_grl after the engine was built
            Prog::Text(texts.join("\n"))
        } else if c.variant & V_WHOLE != 0 {
            match GRLParser::parse_rules(&texts.join("\n")) {
                Ok(rs) => Prog::Rules(rs),
                Err(_) => return format!("{} G parse-error", s),
            }
        } else {
            let mut rules = Vec::new();
            for t in &texts {
                match GRLParser::parse_rule(t) {
                    Ok(r) => rules.push(r),
                    Err(_) => return format!("{} G parse-error", s),
                }
            }
            Prog::Rules(rules)
        };
        s.push_str(&format!(" {}", run("G", g, &c, true)));
    }
    s
}

// ------------------------------------------------------------------ generator
const FLOATS: &[(&str, f64)] = &[
    ("0.0", 0.0),
    ("0.5", 0.5),
    ("1.0", 1.0),
    ("1.5", 1.5),
    ("2.0", 2.0),
    ("2.5", 2.5),
    ("3.0", 3.0),
    ("10.0", 10.0),
    ("100.25", 100.25),
    ("0.25", 0.25),
];
const STRS: &[&str] = &["abc", "ab", "bc", "", "null", "5", "2.5", "x y", "7", "hello", "he", "lo", "10", "abcabc"];
const FLAT: &[&str] = &["a", "b", "c", "d", "s", "t", "flag", "lst", "n1", "n2"];
const NESTED: &[&str] = &["o.x", "o.y", "o.s", "o.p.q", "o.p.r", "o.p.w.k", "u.v", "m.z"];

/// numerals the generator writes into rule text: any i64, or a short plain decimal (exactly representable in practice;
/// the model's decimal reader is simple)
fn short_numeral(t: &str) -> bool {
    t.parse::<i64>().is_ok() || (t.len() <= 12 && !t.contains('e') && !t.contains("inf") && !t.contains("NaN"))
}

struct G<'a> {
    rng: &'a mut Rng,
    facts: Vec<(String, Value)>,
    grl: bool,
}

fn gen_scalar(rng: &mut Rng, special_floats: bool) -> Value {
    match rng.below(10) {
        0 | 1 | 2 => {
            if special_floats && rng.chance(1, 12) {
                Value::Integer(*rng.pick(X_INTS))
            } else {
                Value::Integer(*rng.pick(&[0i64, 1, 2, 3, 5, 7, 10, 12, -1, -3, 100]))
            }
        }
        3 | 4 => {
            if special_floats && rng.chance(1, 6) {
                Value::Number(*rng.pick(&[f64::NAN, f64::INFINITY, f64::NEG_INFINITY, -0.0, -1.5]))
            } else if special_floats && rng.chance(1, 8) {
                // extreme magnitudes (see gen_extreme): tiny non-zero, huge, around 2^53 / 2^63
                {
                    let pool = *rng.pick(&[X_TINY, X_HUGE, X_MID]);
                    Value::Number(*rng.pick(pool))
                }
            } else {
                Value::Number(rng.pick(FLOATS).1)
            }
        }
        5 | 6 | 7 => Value::String(rng.pick(STRS).to_string()),
        8 => Value::Boolean(rng.chance(1, 2)),
        _ => Value::Null,
    }
}
fn gen_array(rng: &mut Rng, special: bool) -> Value {
    let n = rng.below(4) as usize;
    Value::Array((0..n).map(|_| gen_scalar(rng, special)).collect())
}
fn gen_value(rng: &mut Rng, special: bool) -> Value {
    if rng.chance(1, 8) {
        gen_array(rng, special)
    } else {
        gen_scalar(rng, special)
    }
}
fn lookup_nf(facts: &[(String, Value)], name: &str) -> Option<Value> {
    let f = Facts::new();
    for (k, v) in facts {
        f.add_value(k, v.clone()).unwrap();
    }
    f.get_nested(name).or_else(|| f.get(name))
}

impl<'a> G<'a> {
    fn gen_facts(&mut self) {
        let special = !self.grl;
        let mut m: Vec<(String, Value)> = Vec::new();
        for k in FLAT {
            if *k == "n1" || *k == "n2" {
                // arithmetic material: almost always a number
                if self.rng.chance(9, 10) {
                    let v = if self.rng.chance(1, 12) {
                        // arithmetic material of extreme magnitude / special class (every operand position of the main stream)
                        let theme = self.rng.below(6);
                        x_value(self.rng, theme, false)
                    } else if self.rng.chance(2, 3) {
                        Value::Integer(*self.rng.pick(&[0i64, 1, 2, 3, 4, 6, 9, 20, -2]))
                    } else {
                        Value::Number(self.rng.pick(FLOATS).1)
                    };
                    m.push((k.to_string(), v));
                }
            } else if self.rng.chance(3, 5) {
                let v = if *k == "lst" { gen_array(self.rng, special) } else { gen_value(self.rng, special) };
                m.push((k.to_string(), v));
            }
        }
        // nested object o (depth up to 3)
        match self.rng.below(6) {
            0 => {}
            1 => m.push(("o".into(), gen_scalar(self.rng, special))), // root is not an object
            _ => {
                let mut o = HashMap::new();
                for k in ["x", "y", "s"] {
                    if self.rng.chance(2, 3) {
                        o.insert(k.to_string(), gen_value(self.rng, special));
                    }
                }
                match self.rng.below(4) {
                    0 => {}
                    1 => {
                        o.insert("p".into(), gen_scalar(self.rng, special));
                    }
                    _ => {
                        let mut p = HashMap::new();
                        for k in ["q", "r"] {
                            if self.rng.chance(2, 3) {
                                p.insert(k.to_string(), gen_value(self.rng, special));
                            }
                        }
                        if self.rng.chance(1, 2) {
                            let mut w = HashMap::new();
                            if self.rng.chance(2, 3) {
                                w.insert("k".to_string(), gen_scalar(self.rng, special));
                            }
                            p.insert("w".into(), Value::Object(w));
                        }
                        o.insert("p".into(), Value::Object(p));
                    }
                }
                m.push(("o".into(), Value::Object(o)));
            }
        }
        // flat dotted keys (what the Set fallback creates), rarely shadowing a nested path
        if self.rng.chance(1, 3) {
            m.push(("u.v".into(), gen_scalar(self.rng, special)));
        }
        if self.rng.chance(1, 15) {
            m.push(("o.x".into(), gen_scalar(self.rng, special)));
        }
        if self.rng.chance(1, 40) {
            m.push(("_retracted_o".into(), Value::Boolean(self.rng.chance(2, 3))));
        }
        if self.rng.chance(1, 30) {
            // a fact whose name is also used as a string literal
            m.push(("abc".into(), gen_scalar(self.rng, special)));
        }
        self.facts = m;
    }
    /// mostly a field that is present, sometimes any name of the pool (possibly absent)
    fn lhs_name(&mut self) -> String {
        if self.rng.chance(3, 4) {
            if let Some((n, _)) = self.name_with(|_| true) {
                return n;
            }
        }
        self.any_name()
    }
    fn any_name(&mut self) -> String {
        if self.rng.chance(1, 12) {
            // never present, of every lexical shape (digits, underscore, upper case; flat and dotted): reads as null
            return self.rng.pick(&["n9", "v2", "o.x2", "k_1", "a1.b", "o.p.q2", "Zed", "o.p.w.k7", "m_2.z"]).to_string();
        }
        if self.rng.chance(1, 12) {
            // paths the actions write to (gen_act): under a missing link they land on a flat dotted key beside the root object
            return self.rng.pick(&["o.new", "o.p.new", "o.nolink.f", "o.x.deep", "o.p.q.r", "miss.f", "a.sub", "z", "res", "out"]).to_string();
        }
        if self.rng.chance(1, 2) {
            self.rng.pick(FLAT).to_string()
        } else {
            self.rng.pick(NESTED).to_string()
        }
    }
    /// a field whose current value satisfies `pred`, if any
    fn name_with(&mut self, pred: fn(&Value) -> bool) -> Option<(String, Value)> {
        let mut c = Vec::new();
        for n in FLAT.iter().chain(NESTED.iter()) {
            if let Some(v) = lookup_nf(&self.facts, n) {
                if pred(&v) {
                    c.push((n.to_string(), v));
                }
            }
        }
        if c.is_empty() {
            None
        } else {
            Some(c[self.rng.below(c.len() as u64) as usize].clone())
        }
    }
    fn pad(&mut self, min: usize) -> usize {
        if self.grl {
            1.max(min)
        } else {
            min + self.rng.below(3) as usize
        }
    }
    fn num_atom(&mut self, first_in_grl_lhs: bool) -> Atom {
        let is_num = |v: &Value| matches!(v, Value::Integer(_) | Value::Number(_));
        if !first_in_grl_lhs && self.rng.chance(2, 5) {
            let t = if self.rng.chance(3, 4) {
                self.rng.pick(&["0", "1", "2", "3", "4", "5", "10", "7"]).to_string()
            } else {
                self.rng.pick(FLOATS).0.to_string()
            };
            return Atom::Tok(t);
        }
        if self.rng.chance(14, 15) {
            if let Some((n, _)) = self.name_with(is_num) {
                return Atom::Tok(n);
            }
            if !first_in_grl_lhs {
                return Atom::Tok(self.rng.pick(&["1", "2", "3", "6"]).to_string());
            }
        }
        Atom::Tok(self.any_name())
    }
    fn gen_sum(&mut self, min_ops: usize, grl_lhs: bool) -> Sum {
        // string concatenation now and then (not printable as a GRL arithmetic LHS)
        if !grl_lhs && self.rng.chance(1, 10) {
            let is_str = |v: &Value| matches!(v, Value::String(_));
            let a = match self.name_with(is_str) {
                Some((n, _)) if self.rng.chance(2, 3) => Atom::Tok(n),
                _ => Atom::Lit(self.rng.pick(&["ab", "x", "he", " z", ""]).to_string()),
            };
            let b = Atom::Lit(self.rng.pick(&["c", "llo", "", "k k", "bc"]).to_string());
            let (pl, pr) = (self.pad(0), self.pad(0));
            return Sum {
                first: Term { first: a, rest: vec![] },
                rest: vec![('p', pl, pr, Term { first: b, rest: vec![] })],
            };
        }
        let nops = min_ops + [0usize, 0, 1, 1, 2, 3][self.rng.below(6) as usize];
        let mut terms: Vec<Term> = vec![Term { first: self.num_atom(grl_lhs), rest: vec![] }];
        let mut joins: Vec<(char, usize, usize)> = Vec::new();
        for _ in 0..nops {
            let a = self.num_atom(false);
            let (pl, pr) = (self.pad(0), self.pad(0));
            if self.rng.chance(1, 2) {
                let c = *self.rng.pick(&['p', 'm', 'p', 'm', 'p']);
                joins.push((c, pl, pr));
                terms.push(Term { first: a, rest: vec![] });
            } else {
                let c = *self.rng.pick(&['t', 't', 'd', 'r']);
                terms.last_mut().unwrap().rest.push((c, pl, pr, a));
            }
        }
        let first = terms.remove(0);
        Sum { first, rest: joins.into_iter().zip(terms).map(|((c, a, b), t)| (c, a, b, t)).collect() }
    }
    fn eval_sum(&self, e: &Sum) -> Option<Value> {
        let f = Facts::new();
        for (k, v) in &self.facts {
            f.add_value(k, v.clone()).unwrap();
        }
        let s = render_sum(e);
        std::panic::catch_unwind(|| rust_rule_engine::expression::evaluate_expression(&s, &f).ok()).ok().flatten()
    }
    fn lit_near(&mut self, v: &Value) -> Value {
        match v {
            Value::Integer(i) => Value::Integer(i.saturating_add([-1i64, 0, 0, 0, 1][self.rng.below(5) as usize])),
            Value::Number(x) if x.is_finite() => {
                if self.rng.chance(1, 2) {
                    Value::Number(*x)
                } else {
                    Value::Number(x + [-0.5, 0.5][self.rng.below(2) as usize])
                }
            }
            Value::String(s) => {
                if self.rng.chance(3, 5) {
                    Value::String(s.clone())
                } else {
                    Value::String(self.rng.pick(STRS).to_string())
                }
            }
            Value::Boolean(b) => Value::Boolean(*b == self.rng.chance(2, 3)),
            other => {
                if self.rng.chance(1, 2) && !matches!(other, Value::Object(_)) {
                    other.clone()
                } else {
                    gen_scalar(self.rng, false)
                }
            }
        }
    }
    fn grl_ok_value(v: &Value) -> bool {
        match v {
            Value::String(s) => s.chars().all(|c| c.is_ascii_alphanumeric() || c == ' ') && !s.is_empty() && s.trim() == s,
            Value::Number(x) => x.is_finite() && short_numeral(&format!("{:?}", x)),
            Value::Array(xs) => xs.iter().all(|x| Self::grl_ok_value(x) && !matches!(x, Value::Array(_))),
            Value::Object(_) | Value::Expression(_) => false,
            _ => true,
        }
    }
    fn fix_lit(&mut self, v: Value) -> Value {
        if self.grl && !Self::grl_ok_value(&v) {
            Value::Integer(self.rng.below(6) as i64)
        } else if matches!(v, Value::Object(_)) {
            Value::Null
        } else {
            v
        }
    }
    fn gen_field_leaf(&mut self) -> Cond {
        let name = self.lhs_name();
        let cur = lookup_nf(&self.facts, &name);
        let k = self.rng.below(20);
        let op = match k {
            0..=2 => "eq",
            3 | 4 => "ne",
            5 => "gt",
            6 => "ge",
            7 => "lt",
            8 => "le",
            9 | 10 => "co",
            11 => "sw",
            12 => "ew",
            13 | 14 => "in",
            15 => if self.grl { "co" } else { "nc" },
            16 => "ma",
            _ => *self.rng.pick(&["eq", "ne", "ge", "lt"]),
        };
        // right-hand side: field reference / arithmetic / literal aimed near the current value
        let r = self.rng.below(10);
        let rhs = if r < 2 {
            // reference to another (possibly missing) field
            let n = self.any_name();
            SRhs::Expr(Sum { first: Term { first: Atom::Tok(n), rest: vec![] }, rest: vec![] })
        } else if r < 3 {
            let e = self.gen_sum(1, false);
            let e = if self.grl { self.respace(e) } else { e };
            SRhs::Expr(e)
        } else {
            let lit = match (op, &cur) {
                ("in", Some(v)) if !matches!(v, Value::Array(_) | Value::Object(_)) => {
                    let mut xs: Vec<Value> = (0..self.rng.below(3)).map(|_| gen_scalar(self.rng, false)).collect();
                    if self.rng.chance(3, 5) {
                        xs.push(v.clone());
                    }
                    Value::Array(xs)
                }
                ("in", _) => gen_array(self.rng, false),
                ("co" | "nc" | "sw" | "ew" | "ma", Some(Value::String(s))) if !s.is_empty() && self.rng.chance(3, 4) => {
                    let cs: Vec<char> = s.chars().collect();
                    let i = self.rng.below(cs.len() as u64) as usize;
                    let j = i + 1 + self.rng.below((cs.len() - i) as u64) as usize;
                    let sub: String = match op {
                        "sw" => cs[..j].iter().collect(),
                        "ew" => cs[i..].iter().collect(),
                        _ => cs[i..j].iter().collect(),
                    };
                    Value::String(sub)
                }
                ("co" | "nc" | "sw" | "ew" | "ma", _) => Value::String(self.rng.pick(STRS).to_string()),
                (_, Some(v)) if self.rng.chance(4, 5) => self.lit_near(&v.clone()),
                (_, None) if self.rng.chance(1, 3) => Value::Null,
                _ => gen_value(self.rng, false),
            };
            SRhs::Lit(self.fix_lit(lit))
        };
        Cond::Field(name, op.to_string(), rhs)
    }
    /// in GRL text an arithmetic value must contain a blank or a dot to be recognised as an expression
    fn respace(&mut self, mut e: Sum) -> Sum {
        for r in e.rest.iter_mut() {
            r.1 = r.1.max(1);
            r.2 = r.2.max(1);
        }
        for t in std::iter::once(&mut e.first).chain(e.rest.iter_mut().map(|r| &mut r.3)) {
            for r in t.rest.iter_mut() {
                r.1 = r.1.max(1);
                r.2 = r.2.max(1);
            }
        }
        e
    }
    fn gen_arith_leaf(&mut self) -> Cond {
        let lhs = self.gen_sum(1, self.grl);
        let op = *self.rng.pick(&["ge", "le", "eq", "ne", "gt", "lt", "eq", "gt", "lt"]);
        let val = self.eval_sum(&lhs);
        let r = self.rng.below(10);
        let rhs = if r < 6 {
            let t = match &val {
                Some(Value::Integer(i)) if self.rng.chance(4, 5) => i.saturating_add([-1i64, 0, 0, 1][self.rng.below(4) as usize]).to_string(),
                Some(Value::Number(x)) if x.is_finite() && self.rng.chance(4, 5) => {
                    let y = x + [-0.5, 0.0, 0.5][self.rng.below(3) as usize];
                    format!("{:?}", y)
                }
                _ => {
                    if self.rng.chance(1, 2) {
                        self.rng.pick(&["0", "1", "2", "5", "10", "-1", "-3"]).to_string()
                    } else {
                        self.rng.pick(FLOATS).0.to_string()
                    }
                }
            };
            // keep numerals short and exactly representable (the model's decimal reader is simple)
            let ok = short_numeral(&t);
            ARhs::Num(if ok { t } else { "1".into() })
        } else if r < 8 {
            let n = match self.name_with(|v| matches!(v, Value::Integer(_) | Value::Number(_))) {
                Some((n, _)) if self.rng.chance(4, 5) => n,
                _ => self.any_name(),
            };
            ARhs::Expr(Sum { first: Term { first: Atom::Tok(n), rest: vec![] }, rest: vec![] })
        } else {
            let e = self.gen_sum(0, false);
            ARhs::Expr(e)
        };
        Cond::Arith(lhs, op.to_string(), rhs)
    }
    fn gen_cond(&mut self, depth: usize) -> Cond {
        let split = match depth {
            0 => 0,
            1..=2 => 3,
            3..=4 => 5,
            _ => 7,
        };
        if depth > 0 && self.rng.below(10) < split {
            match self.rng.below(5) {
                0 | 1 => Cond::And(Box::new(self.gen_cond(depth - 1)), Box::new(self.gen_cond(depth - 1))),
                2 | 3 => Cond::Or(Box::new(self.gen_cond(depth - 1)), Box::new(self.gen_cond(depth - 1))),
                _ => Cond::Not(Box::new(self.gen_cond(depth - 1))),
            }
        } else if self.rng.chance(1, 4) {
            self.gen_arith_leaf()
        } else {
            self.gen_field_leaf()
        }
    }
    fn gen_act(&mut self) -> Act {
        // targets: existing flat, new flat, nested under an object, under a missing / non-object root, deeper missing link
        let field = match self.rng.below(10) {
            0..=2 => self.rng.pick(FLAT).to_string(),
            3 => self.rng.pick(&["z", "res", "out"]).to_string(),
            4..=6 => self.rng.pick(NESTED).to_string(),
            7 => self.rng.pick(&["o.new", "o.p.new", "o.p.w.new"]).to_string(),
            8 => self.rng.pick(&["miss.f", "miss.g.h", "a.sub", "s.x.y"]).to_string(),
            _ => self.rng.pick(&["o.nolink.f", "o.x.deep", "o.p.q.r"]).to_string(),
        };
        let r = self.rng.below(10);
        let rhs = if r < 3 {
            let v = gen_value(self.rng, false);
            SRhs::Lit(self.fix_lit(v))
        } else if r < 5 {
            let n = match self.name_with(|_| true) {
                Some((n, _)) if self.rng.chance(5, 6) => n,
                _ => self.any_name(),
            };
            SRhs::Expr(Sum { first: Term { first: Atom::Tok(n), rest: vec![] }, rest: vec![] })
        } else {
            let e = self.gen_sum(1, false);
            let e = if self.grl { self.respace(e) } else { e };
            SRhs::Expr(e)
        };
        if self.rng.chance(1, 8) {
            Act::Append(field, rhs)
        } else {
            Act::Set(field, rhs)
        }
    }
}

fn gen_case(rng: &mut Rng) -> Case {
    let grl = rng.chance(1, 3);
    let mut g = G { rng, facts: vec![], grl };
    g.gen_facts();
    let nrules = 1 + g.rng.below(4) as usize;
    let mut rules = Vec::new();
    for _ in 0..nrules {
        let depth = *g.rng.pick(&[0usize, 1, 1, 2, 2, 3, 3, 4, 5, 6]);
        let cond = g.gen_cond(depth);
        let nacts = (*g.rng.pick(&[0usize, 1, 1, 1, 2, 2, 3])).max(if grl { 1 } else { 0 }); // GRL needs a non-empty then-part
        let acts = (0..nacts).map(|_| g.gen_act()).collect();
        rules.push(SRule { cond, acts });
    }
    Case { grl, facts: g.facts.clone(), rules, max_cycles: 1, variant: 0, phases: vec![] }
}

// ------------------------------------------------------------------ generator: dedicated families
fn tok(s: &str) -> Atom {
    Atom::Tok(s.to_string())
}
fn single(a: Atom) -> Sum {
    Sum { first: Term { first: a, rest: vec![] }, rest: vec![] }
}
/// `first op a op a …` grouped by precedence (`* / %` extend the current term, `+ -` start a new one)
fn flat_sum(first: Atom, ops: Vec<(char, usize, usize, Atom)>) -> Sum {
    let mut terms = vec![Term { first, rest: vec![] }];
    let mut joins = Vec::new();
    for (c, pl, pr, a) in ops {
        if c == 'p' || c == 'm' {
            joins.push((c, pl, pr));
            terms.push(Term { first: a, rest: vec![] });
        } else {
            terms.last_mut().unwrap().rest.push((c, pl, pr, a));
        }
    }
    let first = terms.remove(0);
    Sum { first, rest: joins.into_iter().zip(terms).map(|((c, a, b), t)| (c, a, b, t)).collect() }
}
fn obj(kvs: Vec<(&str, Value)>) -> Value {
    Value::Object(kvs.into_iter().map(|(k, v)| (k.to_string(), v)).collect())
}
fn eval_on(facts: &[(String, Value)], e: &Sum) -> Option<Value> {
    let f = Facts::new();
    for (k, v) in facts {
        f.add_value(k, v.clone()).unwrap();
    }
    let s = render_sum(e);
    std::panic::catch_unwind(|| rust_rule_engine::expression::evaluate_expression(&s, &f).ok()).ok().flatten()
}
fn wrap(rng: &mut Rng, c: Cond, other: Cond) -> Cond {
    match rng.below(8) {
        0 | 1 => Cond::Not(Box::new(c)),
        2 => Cond::And(Box::new(c), Box::new(other)),
        3 => Cond::Or(Box::new(other), Box::new(c)),
        _ => c,
    }
}

/// values of another `Value` variant whose TEXT is that of `v` (Integer 7 / Number 7.0 / String "7", true / "true", null / "null")
fn type_alikes(v: &Value) -> Vec<Value> {
    match v {
        Value::Integer(i) => vec![Value::Number(*i as f64), Value::String(i.to_string())],
        Value::Number(x) => {
            let mut r = vec![Value::String(format!("{}", x))];
            if x.fract() == 0.0 && x.abs() < 1e9 {
                r.push(Value::Integer(*x as i64));
            }
            r
        }
        Value::String(s) => {
            let mut r = Vec::new();
            if let Ok(i) = s.parse::<i64>() {
                r.push(Value::Integer(i));
                r.push(Value::Number(i as f64));
            } else if let Ok(x) = s.parse::<f64>() {
                r.push(Value::Number(x));
            }
            match s.as_str() {
                "true" => r.push(Value::Boolean(true)),
                "false" => r.push(Value::Boolean(false)),
                "null" => r.push(Value::Null),
                _ => {}
            }
            r
        }
        Value::Boolean(b) => vec![Value::String(b.to_string())],
        Value::Null => vec![Value::String("null".into())],
        _ => vec![],
    }
}

/// FAMILY long membership lists: `in` against arrays of 33..80 elements (a few at/below 32 as controls) of one type or
/// mixed, written as a literal or held in a fact (flat / nested), probed with members, plain non-members and — mostly —
/// non-members of another type with the same text; plain, negated and inside && / ||.
fn gen_long_in(rng: &mut Rng) -> Case {
    // the list: literal in the rule, or a fact the right-hand side names
    let by_ref = rng.chance(2, 5);
    // GRL text with a long list literal is rare and kept short: GRLParser needs time superlinear in the length of a
    // `when` clause (80 quoted strings: ~4 s in a debug build) — the parser is not this property's subject
    let mut grl = if by_ref { rng.chance(1, 3) } else { rng.chance(1, 10) };
    let short_text = grl && !by_ref;
    let n = match rng.below(12) {
        _ if short_text => rng.range(33, 35),
        0 => 31,
        1 => 32,
        2 | 3 => 33,
        4 => 34,
        5 => 64,
        6 => 65,
        7 => 80,
        _ => rng.range(33, 80),
    } as i64;
    let base = rng.below(30) as i64;
    let kind = if short_text { *rng.pick(&[0u64, 0, 2, 3, 5]) } else { rng.below(6) };
    let mut list: Vec<Value> = (0..n)
        .map(|k| {
            let i = base + k;
            match kind {
                0 => Value::Integer(i),
                1 => Value::String(i.to_string()),
                2 => Value::Number(i as f64),
                3 => Value::Number(i as f64 + 0.5),
                4 => Value::String(format!("w{}", i)),
                // mixed: disjoint numeric ranges per type, so that a type-alike probe is not a member by accident
                _ => match k % 4 {
                    0 => Value::Integer(i),
                    1 => Value::String((i + 1000).to_string()),
                    2 => Value::Number((i + 2000) as f64),
                    _ => Value::Number(i as f64 + 3000.5),
                },
            }
        })
        .collect();
    if kind >= 4 || rng.chance(1, 4) {
        // words that are also the text of a boolean / of null — or the boolean / null themselves
        let extra = match rng.below(4) {
            0 => vec![Value::String("true".into()), Value::String("null".into())],
            1 => vec![Value::Boolean(true), Value::Null],
            2 => vec![Value::String("false".into())],
            _ => vec![Value::Boolean(false), Value::String("null".into())],
        };
        for e in extra {
            let at = rng.below(list.len() as u64) as usize;
            list[at] = e;
        }
    }
    let nprobes = if short_text { 1 } else { 1 + rng.below(3) as usize };
    let mut facts: Vec<(String, Value)> = Vec::new();
    let mut o: HashMap<String, Value> = HashMap::new();
    let mut probe_names = Vec::new();
    for i in 0..nprobes {
        let e = list[rng.below(list.len() as u64) as usize].clone();
        let alikes = type_alikes(&e);
        let v = match rng.below(8) {
            0 | 1 => e,                                            // a member
            2 => Value::Integer(base + n + 7),                     // plain non-members
            3 => Value::String("zz".into()),
            _ if !alikes.is_empty() => alikes[rng.below(alikes.len() as u64) as usize].clone(),
            _ => Value::Boolean(true),
        };
        if rng.chance(1, 3) {
            o.insert(format!("c{}", i), v);
            probe_names.push(format!("o.c{}", i));
        } else {
            facts.push((format!("c{}", i), v));
            probe_names.push(format!("c{}", i));
        }
    }
    let list_name = if rng.chance(1, 2) { "lst" } else { "o.codes" };
    if by_ref {
        if list_name == "lst" {
            facts.push(("lst".into(), Value::Array(list.clone())));
        } else {
            o.insert("codes".into(), Value::Array(list.clone()));
        }
    } else if !G::grl_ok_value(&Value::Array(list.clone())) {
        grl = false;
    }
    facts.push(("o".into(), Value::Object(o)));
    facts.push(("a".into(), Value::Integer(1)));
    let mut rules = Vec::new();
    for (i, pn) in probe_names.iter().enumerate() {
        let rhs = if by_ref { SRhs::Expr(single(tok(list_name))) } else { SRhs::Lit(Value::Array(list.clone())) };
        let leaf = Cond::Field(pn.clone(), "in".into(), rhs);
        let other = Cond::Field("a".into(), "eq".into(), SRhs::Lit(Value::Integer(rng.below(2) as i64)));
        let cond = wrap(rng, leaf, other);
        rules.push(SRule { cond, acts: vec![Act::Set(format!("hit{}", i), SRhs::Lit(Value::Boolean(true)))] });
    }
    Case { grl, facts, rules, max_cycles: 1, variant: 0, phases: vec![] }
}

/// FAMILY arithmetic text WITHOUT blanks around operators (`o.price-5`, `rate*2+e-1`): names ending in e/E (and others
/// as controls) directly followed by an operator and a digit-initial operand; exponent numerals (`1e2`, `2E1`, and on
/// the right of a comparison `2.5e-3`) as controls; as assignment right-hand side, right-hand side of a field
/// comparison, and both sides of an arithmetic comparison.
fn gen_tight(rng: &mut Rng) -> Case {
    let grl = rng.chance(1, 3);
    let numv = |rng: &mut Rng| {
        if rng.chance(2, 3) {
            Value::Integer(*rng.pick(&[1i64, 2, 3, 5, 8, 10, 20, 95, 100]))
        } else {
            Value::Number(*rng.pick(&[0.5, 1.5, 2.5, 10.0, 100.25, 0.25]))
        }
    };
    let mut facts: Vec<(String, Value)> = Vec::new();
    for k in ["price", "e", "sizE", "rate", "qty", "n1"] {
        facts.push((k.to_string(), numv(rng)));
    }
    let mut o = Vec::new();
    for k in ["e", "price", "scale", "sizE", "qty"] {
        o.push((k, numv(rng)));
    }
    facts.push(("o".into(), obj(o)));
    const E_FLAT: &[&str] = &["price", "e", "sizE", "rate"];
    const E_NESTED: &[&str] = &["o.e", "o.price", "o.scale", "o.sizE"];
    let name = |rng: &mut Rng, dotted: bool| -> Atom {
        if rng.chance(4, 5) {
            if dotted || rng.chance(1, 2) { tok(*rng.pick(E_NESTED)) } else { tok(*rng.pick(E_FLAT)) }
        } else if dotted || rng.chance(1, 2) {
            tok("o.qty")
        } else {
            tok(*rng.pick(&["qty", "n1"]))
        }
    };
    let tight = |rng: &mut Rng| -> Sum {
        // in GRL text an arithmetic value without blanks is an expression only if it contains a dot
        let first = name(rng, grl);
        let all_tight = rng.chance(3, 4);
        let nops = 1 + rng.below(3);
        let mut ops = Vec::new();
        for _ in 0..nops {
            let c = *rng.pick(&['m', 'm', 'm', 'p', 'p', 't', 'd', 'r']);
            let a = if rng.chance(3, 4) {
                tok(*rng.pick(&["5", "1", "10", "2", "3", "2.5", "0.5", "7", "100", "1e2", "2E1"]))
            } else {
                name(rng, false)
            };
            let (pl, pr) = if all_tight { (0, 0) } else { (rng.below(2) as usize, rng.below(2) as usize) };
            ops.push((c, pl, pr, a));
        }
        flat_sum(first, ops)
    };
    let near_text = |rng: &mut Rng, v: &Option<Value>| -> String {
        let t = match v {
            Some(Value::Integer(i)) => (i + [-1i64, 0, 0, 1][rng.below(4) as usize]).to_string(),
            Some(Value::Number(x)) if x.is_finite() => format!("{:?}", x + [-0.5, 0.0, 0.5][rng.below(3) as usize]),
            _ => "5".to_string(),
        };
        if t.len() <= 12 && !t.contains('e') && !t.contains("inf") && !t.contains("NaN") { t } else { "1".into() }
    };
    let nrules = 1 + rng.below(3) as usize;
    let mut rules = Vec::new();
    for i in 0..nrules {
        let e = tight(rng);
        let val = eval_on(&facts, &e);
        let other = Cond::Field("qty".into(), "gt".into(), SRhs::Lit(Value::Integer(*rng.pick(&[0i64, 1000]))));
        let leaf = match rng.below(8) {
            // the assignment carries the expression; the condition is a plain comparison
            0 | 1 => other.clone(),
            // field <cmp> tight expression, the field aimed near the expression's value
            2 | 3 | 4 => {
                let b = match &val {
                    Some(Value::Integer(v)) => Value::Integer(v + [-1i64, 0, 0, 1][rng.below(4) as usize]),
                    Some(Value::Number(x)) if x.is_finite() => Value::Number(x + [-0.5, 0.0, 0.5][rng.below(3) as usize]),
                    _ => Value::Integer(5),
                };
                facts.push((format!("b{}", i), b));
                Cond::Field(format!("b{}", i), (*rng.pick(&["ge", "le", "gt", "lt", "eq", "ne"])).into(), SRhs::Expr(e.clone()))
            }
            // tight expression <cmp> numeral (now and then an exponent numeral) / another tight expression
            5 | 6 => {
                let t = if rng.chance(1, 8) { (*rng.pick(&["2.5e-3", "1e2", "1E-1", "1.5e+1"])).to_string() } else { near_text(rng, &val) };
                Cond::Arith(e.clone(), (*rng.pick(&["ge", "le", "gt", "lt", "eq", "ne"])).into(), ARhs::Num(t))
            }
            _ => Cond::Arith(e.clone(), (*rng.pick(&["ge", "lt", "eq", "ne"])).into(), ARhs::Expr(tight(rng))),
        };
        let cond = wrap(rng, leaf, other);
        let act = if rng.chance(1, 2) {
            Act::Set(format!("out{}", i), SRhs::Expr(e))
        } else {
            Act::Set(format!("out{}", i), SRhs::Expr(tight(rng)))
        };
        rules.push(SRule { cond, acts: vec![act] });
    }
    Case { grl, facts, rules, max_cycles: 1, variant: 0, phases: vec![] }
}

/// FAMILY one engine object, several cycles and several execute calls, thresholds that MOVE: conditions compare a
/// field with arithmetic over other facts (dot-less names or nested ones; `floor + step`, `base * 2`, a plain
/// reference, arithmetic on the left) while actions (in earlier cycles) and the caller (between calls, same or new
/// Facts object) change those facts so that the condition's truth value flips.
fn gen_moving(rng: &mut Rng) -> Case {
    let grl = rng.chance(1, 4);
    let dotted = rng.chance(1, 3);
    let nm = |k: &str| if dotted { format!("cfg.{}", k) } else { k.to_string() };
    let small = |rng: &mut Rng| Value::Integer(*rng.pick(&[0i64, 1, 2, 3, 5, 10]));
    let big = |rng: &mut Rng| Value::Integer(*rng.pick(&[4i64, 9, 15, 23, 40]));
    let mut facts: Vec<(String, Value)> = Vec::new();
    let cfg_vals: Vec<(&str, Value)> = vec![
        ("floor", small(rng)),
        ("step", Value::Integer(*rng.pick(&[1i64, 2, 5, 10]))),
        ("base", small(rng)),
    ];
    if dotted {
        facts.push(("cfg".into(), obj(cfg_vals.clone())));
    } else {
        for (k, v) in &cfg_vals {
            facts.push((k.to_string(), v.clone()));
        }
    }
    facts.push(("q".into(), big(rng)));
    facts.push(("o".into(), obj(vec![("qty", big(rng)), ("tier", Value::Integer(0)), ("flag", Value::Boolean(false))])));
    let pad = |rng: &mut Rng| if grl { 1 } else { rng.below(3) as usize };
    let lhs = |rng: &mut Rng| if rng.chance(1, 2) { "q".to_string() } else { "o.qty".to_string() };
    // the moving threshold
    let thr = |rng: &mut Rng| -> Sum {
        let (p1, p2, p3, p4) = (pad(rng), pad(rng), pad(rng), pad(rng));
        match rng.below(6) {
            0 | 1 => flat_sum(tok(&nm("floor")), vec![('p', p1, p2, tok(&nm("step")))]),
            2 => flat_sum(tok(&nm("base")), vec![('t', p1, p2, tok("2"))]),
            3 => flat_sum(tok(&nm("base")), vec![('t', p1, p2, tok("2")), ('p', p3, p4, tok(&nm("step")))]),
            4 => flat_sum(tok(&nm("floor")), vec![('p', p1, p2, tok("10"))]),
            _ => single(tok(&nm("floor"))),
        }
    };
    let nrules = 1 + rng.below(2) as usize;
    let mut rules = Vec::new();
    for _ in 0..nrules {
        let l = lhs(rng);
        let t = thr(rng);
        let other = Cond::Field("o.tier".into(), "lt".into(), SRhs::Lit(Value::Integer(*rng.pick(&[0i64, 3, 100]))));
        let leaf = match rng.below(5) {
            0 | 1 | 2 => Cond::Field(l.clone(), (*rng.pick(&["ge", "gt", "ge", "gt", "le", "lt", "eq", "ne"])).into(), SRhs::Expr(t.clone())),
            3 if t.rest.len() + t.first.rest.len() > 0 => {
                Cond::Arith(t.clone(), (*rng.pick(&["le", "lt", "ge", "ne"])).into(), ARhs::Expr(single(tok(&l))))
            }
            _ => Cond::Arith(
                flat_sum(tok(&l), vec![('m', pad(rng), pad(rng), tok(&nm("step")))]),
                (*rng.pick(&["ge", "gt", "lt"])).into(),
                ARhs::Expr(t.clone()),
            ),
        };
        let cond = wrap(rng, leaf, other);
        // self-modification: raise a name of the threshold, lower the compared field, or only count
        let mut acts = Vec::new();
        let (p1, p2) = (pad(rng).max(if grl { 1 } else { 0 }), pad(rng));
        match rng.below(6) {
            0 | 1 => acts.push(Act::Set(nm("floor"), SRhs::Expr(flat_sum(tok(&nm("floor")), vec![('p', p1, p2, tok(&nm("step")))])))),
            2 => acts.push(Act::Set(nm("base"), SRhs::Expr(flat_sum(tok(&nm("base")), vec![('p', p1, p2, tok("3"))])))),
            3 => acts.push(Act::Set(l.clone(), SRhs::Expr(flat_sum(tok(&l), vec![('m', p1, p2, tok(&nm("step")))])))),
            4 => acts.push(Act::Set(nm("step"), SRhs::Expr(flat_sum(tok(&nm("step")), vec![('t', p1, p2, tok("2"))])))),
            _ => acts.push(Act::Set("o.flag".into(), SRhs::Lit(Value::Boolean(true)))),
        }
        if rng.chance(1, 2) {
            acts.push(Act::Set("o.tier".into(), SRhs::Expr(flat_sum(tok("o.tier"), vec![('p', 1, 1, tok("1"))]))));
        }
        rules.push(SRule { cond, acts });
    }
    let max_cycles = *rng.pick(&[1usize, 2, 3, 3, 4, 5, 8]);
    let nphases = *rng.pick(&[0usize, 1, 1, 2, 2, 3]);
    let mut phases = Vec::new();
    for _ in 0..nphases {
        let mut sets = Vec::new();
        for _ in 0..1 + rng.below(2) {
            match rng.below(4) {
                0 | 1 => {
                    if dotted {
                        sets.push(("cfg".to_string(), obj(vec![("floor", small(rng)), ("step", Value::Integer(*rng.pick(&[1i64, 2, 5, 10]))), ("base", small(rng))])));
                    } else {
                        let k = *rng.pick(&["floor", "base", "step", "floor", "base"]);
                        let v = if k == "step" { Value::Integer(*rng.pick(&[1i64, 2, 5, 10])) } else if rng.chance(1, 3) { big(rng) } else { small(rng) };
                        sets.push((k.to_string(), v));
                    }
                }
                2 => sets.push(("q".to_string(), if rng.chance(1, 2) { big(rng) } else { small(rng) })),
                _ => sets.push(("o".to_string(), obj(vec![("qty", if rng.chance(1, 2) { big(rng) } else { small(rng) }), ("tier", Value::Integer(0)), ("flag", Value::Boolean(false))]))),
            }
        }
        phases.push(Phase { kind: if rng.chance(1, 3) { 'w' } else { 'p' }, ops: sets.into_iter().map(|(k, v)| POp::Add(k, v)).collect() });
    }
    Case { grl, facts, rules, max_cycles, variant: 0, phases }
}

/// FAMILY ordinary generated case, run for several cycles and called again after the caller replaced some facts
fn gen_again(rng: &mut Rng) -> Case {
    let mut c = gen_case(rng);
    c.max_cycles = *rng.pick(&[1usize, 2, 2, 3]);
    let nphases = *rng.pick(&[1usize, 1, 2]);
    let special = !c.grl;
    for _ in 0..nphases {
        let mut sets = Vec::new();
        for _ in 0..1 + rng.below(3) {
            if c.facts.is_empty() || rng.chance(1, 6) {
                sets.push((rng.pick(FLAT).to_string(), gen_value(rng, special)));
            } else {
                let (k, old) = c.facts[rng.below(c.facts.len() as u64) as usize].clone();
                let v = match old {
                    Value::Object(mut m) if rng.chance(2, 3) => {
                        // same object, one member replaced
                        let k2 = *rng.pick(&["x", "y", "s"]);
                        m.insert(k2.to_string(), gen_value(rng, special));
                        Value::Object(m)
                    }
                    Value::Array(_) => gen_array(rng, special),
                    _ => gen_value(rng, special),
                };
                sets.push((k, v));
            }
        }
        c.phases.push(Phase { kind: if rng.chance(1, 3) { 'w' } else { 'p' }, ops: sets.into_iter().map(|(k, v)| POp::Add(k, v)).collect() });
    }
    c
}

/// FAMILY reach: the same engine / rules / facts obtained through the API's OTHER doors, and a caller who edits the
/// store between the calls. A base case of the ordinary, again or moving-threshold generator is decorated with
/// (a) variant bits (engine from `RustRuleEngine::new` — default configuration, 100 cycles —, rules added after construction
/// through `knowledge_base()` / `knowledge_base_mut()` / `add_rules_from_grl`, analytics on, facts through `Facts::add`
/// (serde), an undo frame open around each call, whole-text `parse_rules`, `Operator::from_str` / `Value::from` / inert
/// `with_*` builders) and (b) one to three more execute calls before which the caller removes facts (present, absent, the
/// object a nested condition reads), clears the store and rebuilds part of it, writes through `Facts::set` /
/// `Facts::set_nested` (existing path, missing root, non-object on the way) or hands the content over in a new Facts
/// object (add_value, merge, snapshot/restore, to_context/from_context).
fn gen_reach(rng: &mut Rng) -> Case {
    let mut c = match rng.below(5) {
        0 | 1 => gen_case(rng),
        2 => gen_again(rng),
        _ => gen_moving(rng),
    };
    let special = !c.grl;
    let mut v = 0u32;
    for b in [V_LATE, V_ANALYTICS, V_SERDE, V_UNDO, V_WHOLE, V_BUILDERS] {
        if rng.chance(1, 3) {
            v |= b;
        }
    }
    // default configuration = up to 100 cycles: only for small rule sets whose store does not grow
    let grows = c.rules.iter().any(|r| r.acts.iter().any(|a| matches!(a, Act::Append(..))));
    if c.rules.len() <= 2 && !grows && rng.chance(1, 4) {
        v |= V_NEW;
        c.max_cycles = 1;
    } else if c.max_cycles == 1 && rng.chance(1, 2) {
        c.max_cycles = *rng.pick(&[2usize, 3]);
    }
    if v == 0 {
        v = *rng.pick(&[V_LATE, V_SERDE, V_BUILDERS, V_UNDO]);
    }
    c.variant = v;
    // the caller's edits
    let extra = if c.phases.is_empty() { 1 + rng.below(3) as usize } else { rng.below(2) as usize };
    let tops: Vec<String> = c.facts.iter().map(|(k, _)| k.clone()).collect();
    for _ in 0..extra {
        let mut ops = Vec::new();
        for _ in 0..1 + rng.below(3) {
            match rng.below(10) {
                0 | 1 | 2 if !tops.is_empty() => ops.push(POp::Remove(rng.pick(&tops).clone())),
                3 => ops.push(POp::Remove(rng.pick(&["zz", "o", "cfg", "o.x", "u.v"]).to_string())),
                4 => {
                    // reset and rebuild part of the store
                    ops.push(POp::Clear);
                    for (k, val) in &c.facts {
                        if rng.chance(1, 2) {
                            ops.push(POp::Add(k.clone(), val.clone()));
                        }
                    }
                }
                5 | 6 => {
                    let path = match rng.below(4) {
                        0 => rng.pick(NESTED).to_string(),
                        1 => rng.pick(&["o.qty", "o.tier", "cfg.floor", "cfg.step", "cfg.base"]).to_string(),
                        2 => rng.pick(&["miss.f", "a.sub", "o.nolink.f", "o.x.deep", "q.r"]).to_string(),
                        _ => rng.pick(&["q", "floor", "step", "base", "a", "n1"]).to_string(),
                    };
                    ops.push(POp::SetNested(path, gen_scalar(rng, special)));
                }
                7 => {
                    let k = if tops.is_empty() || rng.chance(1, 3) { rng.pick(FLAT).to_string() } else { rng.pick(&tops).clone() };
                    ops.push(POp::Set(k, gen_value(rng, special)));
                }
                _ => {
                    let k = if tops.is_empty() || rng.chance(1, 3) { rng.pick(FLAT).to_string() } else { rng.pick(&tops).clone() };
                    let val = match c.facts.iter().find(|(k2, _)| *k2 == k) {
                        Some((_, Value::Integer(i))) => Value::Integer(i.saturating_add(*rng.pick(&[-20i64, -5, -1, 1, 5, 20]))),
                        Some((_, old @ Value::Object(_))) if rng.chance(1, 2) => old.clone(),
                        _ => gen_value(rng, special),
                    };
                    ops.push(POp::Add(k, val));
                }
            }
        }
        c.phases.push(Phase { kind: *rng.pick(&['p', 'p', 'w', 'm', 's', 'x']), ops });
    }
    c
}

// ------------------------------------------------------------------ FAMILY extreme numbers
/// tiny non-zero (subnormal, min normal, around f64::EPSILON = 2^-52 on both sides, both signs)
const X_TINY: &[f64] = &[
    1e-300, 5e-324, 2.2250738585072014e-308, f64::EPSILON, f64::EPSILON / 2.0, 1.5e-18, 3.0e-18, 1e-17, 2.0e-17, -1.5e-18, -5e-324,
    -2.0e-17, -1e-300, 1e-16, 2.5e-16, -2.5e-16, 1e-10, 1e-200, 4.5e-18,
];
/// huge (products / sums overflow to ±inf, quotients underflow to 0)
const X_HUGE: &[f64] = &[1e300, f64::MAX, -1e300, f64::MIN, 1e308, 1e154, 1.5e154, 1e200, -1e200, 8.98846567431158e307];
/// around 2^53 and 2^63, where i64 <-> f64 conversions stop being exact
const X_MID: &[f64] = &[
    9007199254740992.0, 9007199254740991.0, 9007199254740994.0, -9007199254740992.0, 9223372036854775808.0, 9223372036854774784.0,
    -9223372036854775808.0, 18446744073709551616.0, 4503599627370496.5, 4294967296.0, 1e15, 1e19,
];
const X_SPECIAL: &[f64] = &[-0.0, 0.0, f64::NAN, f64::INFINITY, f64::NEG_INFINITY, -0.0, 0.0];
const X_PLAIN: &[f64] = &[1.0, 2.0, 3.0, 0.5, -1.0, 1.5, 10.0];
const X_INTS: &[i64] = &[
    i64::MAX, i64::MIN, i64::MAX - 1, i64::MIN + 1, 1 << 53, (1 << 53) + 1, (1 << 53) - 1, -((1 << 53) + 1), 1 << 62, 3037000500, 3037000499,
    1 << 32, -(1 << 62), 4611686018427387905,
];
const X_SMALL_INTS: &[i64] = &[0, 1, -1, 2, 3, 10, 7, -2];
/// numeric TEXT (a string fact coerces through `str::parse::<f64>`)
const X_NUM_STRS: &[&str] = &["1e-300", "1.5e-18", "-0.0", "NaN", "inf", "-inf", "1e400", "9007199254740993", "5e-324", "1e300", "0", "-0", "2", "0.0", "-1e-320"];

/// a number of the theme's class (0 tiny, 1 huge, 2 around 2^53/2^63, 3 special, 4 integer limits, 5 any), with ordinary
/// numbers and — when `strs` — numeric strings mixed in
fn x_value(rng: &mut Rng, theme: u64, strs: bool) -> Value {
    let pool = |rng: &mut Rng, t: u64| -> Value {
        match t {
            0 => Value::Number(*rng.pick(X_TINY)),
            1 => Value::Number(*rng.pick(X_HUGE)),
            2 => Value::Number(*rng.pick(X_MID)),
            3 => Value::Number(*rng.pick(X_SPECIAL)),
            _ => Value::Integer(*rng.pick(X_INTS)),
        }
    };
    match rng.below(20) {
        0..=10 => {
            let t = if theme >= 5 { rng.below(5) } else { theme };
            pool(rng, t)
        }
        11 | 12 => Value::Number(*rng.pick(X_PLAIN)),
        13 | 14 | 15 => Value::Integer(*rng.pick(X_SMALL_INTS)),
        16 if strs => Value::String(rng.pick(X_NUM_STRS).to_string()),
        _ => {
            let t = rng.below(5);
            pool(rng, t)
        }
    }
}
/// the neighbouring double (one unit in the last place up / down)
fn nudge(x: f64, up: bool) -> f64 {
    if !x.is_finite() {
        return x;
    }
    if x == 0.0 {
        return if up { 5e-324 } else { -5e-324 };
    }
    let b = x.to_bits();
    f64::from_bits(if (x > 0.0) == up { b + 1 } else { b - 1 })
}
/// a value to compare `v` with: itself, a neighbour, its negation, the same number in the other numeric class, a pool value
fn x_near(rng: &mut Rng, v: &Option<Value>, theme: u64) -> Value {
    match v {
        Some(Value::Number(x)) => match rng.below(8) {
            0 | 1 => Value::Number(*x),
            2 => Value::Number(nudge(*x, true)),
            3 => Value::Number(nudge(*x, false)),
            4 => Value::Number(-*x),
            5 if x.fract() == 0.0 && x.abs() < 9.3e18 => Value::Integer(*x as i64),
            6 => Value::Number(0.0),
            _ => x_value(rng, theme, false),
        },
        Some(Value::Integer(i)) => match rng.below(7) {
            0 | 1 => Value::Integer(*i),
            2 => Value::Integer(i.saturating_add(1)),
            3 => Value::Integer(i.saturating_sub(1)),
            4 => Value::Number(*i as f64),
            5 => Value::Number(nudge(*i as f64, rng.chance(1, 2))),
            _ => x_value(rng, theme, false),
        },
        _ => x_value(rng, theme, false),
    }
}

/// FAMILY extreme numbers: facts (flat `x y z w`, nested `p.mass p.volume p.k`) hold numbers that do not survive a careless
/// change of representation — tiny non-zero floats (subnormal, min normal, both sides of f64::EPSILON, both signs), huge ones
/// (results overflow to ±inf / underflow to 0), floats and integers around 2^53 and 2^63 (i64 <-> f64 no longer exact),
/// -0.0, NaN, ±inf, i64::MIN / i64::MAX and neighbours, numeric strings of the same classes — mixed with ordinary numbers.
/// They stand in EVERY operand position of `+ - * / %` (1..3 operators, uniform) in arithmetic conditions (left side; right
/// side a numeral, a field aimed at the exact value / a neighbouring double / the negation / the same number as the other
/// numeric class, or more arithmetic), on the right of field comparisons, in assignments (first action: judged by read-back;
/// self-modifying `x = x * y` over several cycles: repeated operations), and on both sides of all six comparisons and `in`
/// as field / literal / field reference. Decorated now and then with the API's other doors (variant bits) and later calls
/// after the caller replaced an operand by another extreme number.
fn gen_extreme(rng: &mut Rng) -> Case {
    let grl = rng.chance(1, 4);
    let theme = rng.below(6);
    const FLATN: &[&str] = &["x", "y", "z", "w"];
    const NESTN: &[&str] = &["p.mass", "p.volume", "p.k"];
    let mut facts: Vec<(String, Value)> = Vec::new();
    for k in FLATN {
        if rng.chance(11, 12) {
            facts.push((k.to_string(), x_value(rng, theme, true)));
        }
    }
    let mut pv = Vec::new();
    for k in ["mass", "volume", "k"] {
        if rng.chance(11, 12) {
            pv.push((k, x_value(rng, theme, true)));
        }
    }
    facts.push(("p".into(), obj(pv)));
    let pad = |rng: &mut Rng| if grl { 1 } else { rng.below(2) as usize };
    let name = |rng: &mut Rng| if rng.chance(3, 5) { tok(*rng.pick(FLATN)) } else { tok(*rng.pick(NESTN)) };
    let operand = |rng: &mut Rng| -> Atom {
        if rng.chance(4, 5) {
            name(rng)
        } else if grl {
            tok(*rng.pick(&["2", "3", "10", "0", "0.5", "1"]))
        } else {
            // numerals: small, exponent form, the words parse::<f64> accepts, integers at and beyond the i64 range
            tok(*rng.pick(&[
                "2", "3", "10", "0", "0.5", "1", "1e300", "1E300", "inf", "NaN", "infinity", "9223372036854775807", "9223372036854775808",
                "9007199254740993", "0.0", "1e400", "4611686018427387904",
            ]))
        }
    };
    // 1..3 operators (`fixed` = 0), or exactly `fixed - 1`
    let expr = |rng: &mut Rng, fixed: u64| -> Sum {
        let nops = if fixed > 0 { fixed - 1 } else { *rng.pick(&[1u64, 1, 1, 2, 2, 3]) };
        let first = name(rng);
        let mut ops = Vec::new();
        for _ in 0..nops {
            let c = *rng.pick(&['p', 'm', 't', 'd', 'd', 'r']);
            let (pl, pr) = (pad(rng), pad(rng));
            ops.push((c, pl, pr, operand(rng)));
        }
        flat_sum(first, ops)
    };
    let cmp = |rng: &mut Rng| (*rng.pick(&["ge", "le", "gt", "lt", "eq", "ne"])).to_string();
    let lit_ok = |v: &Value| !grl || G::grl_ok_value(v);
    let nrules = 1 + rng.below(3) as usize;
    let mut rules = Vec::new();
    for i in 0..nrules {
        let e = expr(rng, 0);
        let val = eval_on(&facts, &e);
        let leaf = match rng.below(8) {
            0 | 1 | 2 => {
                let rhs = match rng.below(6) {
                    0 => {
                        let t = if grl {
                            (*rng.pick(&["0", "1", "2", "0.5", "-1", "10"])).to_string()
                        } else {
                            (*rng.pick(&[
                                "0", "1", "2", "0.5", "-1", "1e-300", "1e300", "5e-324", "-0.0", "NaN", "inf", "-inf", "1.5e-18", "2.5e-16",
                                "9223372036854775807", "-9223372036854775808", "9007199254740993", "9007199254740992.0",
                            ]))
                            .to_string()
                        };
                        ARhs::Num(t)
                    }
                    1 => {
                        let k = 1 + rng.below(3);
                        ARhs::Expr(expr(rng, k))
                    }
                    _ => {
                        let b = x_near(rng, &val, theme);
                        facts.push((format!("b{}", i), b));
                        ARhs::Expr(single(tok(&format!("b{}", i))))
                    }
                };
                Cond::Arith(e.clone(), cmp(rng), rhs)
            }
            3 | 4 => {
                let b = x_near(rng, &val, theme);
                facts.push((format!("b{}", i), b));
                Cond::Field(format!("b{}", i), cmp(rng), SRhs::Expr(e.clone()))
            }
            5 | 6 => {
                // a field against a literal: both sides of every comparison, and membership
                let n = match name(rng) {
                    Atom::Tok(n) => n,
                    Atom::Lit(n) => n,
                };
                let cur = lookup_nf(&facts, &n);
                let lit = x_near(rng, &cur, theme);
                let lit = if lit_ok(&lit) { lit } else { Value::Integer(*rng.pick(X_INTS)) };
                if rng.chance(1, 5) {
                    let mut xs: Vec<Value> = (0..rng.below(3)).map(|_| x_value(rng, theme, false)).filter(|v| lit_ok(v)).collect();
                    xs.push(lit);
                    Cond::Field(n, "in".into(), SRhs::Lit(Value::Array(xs)))
                } else {
                    Cond::Field(n, cmp(rng), SRhs::Lit(lit))
                }
            }
            _ => {
                let (a, b) = (name(rng), name(rng));
                let (Atom::Tok(a), b) = (a, b) else { unreachable!() };
                Cond::Field(a, cmp(rng), SRhs::Expr(single(b)))
            }
        };
        let other = Cond::Field("p.k".into(), "ne".into(), SRhs::Lit(Value::String("none".into())));
        let cond = wrap(rng, leaf, other);
        // first action: the expression (or a fresh one) is stored — judged by read-back
        let mut acts = Vec::new();
        let stored = if rng.chance(1, 2) { e } else { expr(rng, 0) };
        let target = if rng.chance(3, 4) { format!("out{}", i) } else { "p.res".to_string() };
        acts.push(Act::Set(target, SRhs::Expr(stored)));
        match rng.below(8) {
            0 | 1 => {
                // self-modification: repeated over the cycles / calls
                let Atom::Tok(n) = name(rng) else { unreachable!() };
                let c = *rng.pick(&['t', 't', 'd', 'p', 'm', 'r']);
                let (pl, pr) = (pad(rng).max(if grl { 1 } else { 0 }), pad(rng));
                let o = operand(rng);
                acts.push(Act::Set(n.clone(), SRhs::Expr(flat_sum(tok(&n), vec![(c, pl, pr, o)]))));
            }
            2 => {
                let v = x_value(rng, theme, false);
                let v = if lit_ok(&v) { v } else { Value::Integer(*rng.pick(X_INTS)) };
                acts.push(Act::Set(format!("lit{}", i), SRhs::Lit(v)));
            }
            3 => acts.push(Act::Append("lst".into(), SRhs::Expr(expr(rng, 2)))),
            _ => {}
        }
        rules.push(SRule { cond, acts });
    }
    let max_cycles = *rng.pick(&[1usize, 1, 1, 2, 3, 4]);
    let mut phases = Vec::new();
    for _ in 0..*rng.pick(&[0usize, 0, 0, 1, 1, 2]) {
        let mut ops = Vec::new();
        for _ in 0..1 + rng.below(2) {
            if rng.chance(2, 3) {
                ops.push(POp::Add(rng.pick(FLATN).to_string(), x_value(rng, theme, true)));
            } else {
                let v = x_value(rng, theme, true);
                ops.push(POp::SetNested(rng.pick(NESTN).to_string(), v));
            }
        }
        phases.push(Phase { kind: *rng.pick(&['p', 'p', 'w', 'm', 's', 'x']), ops });
    }
    let mut variant = 0u32;
    if rng.chance(1, 3) {
        for b in [V_LATE, V_ANALYTICS, V_SERDE, V_UNDO, V_BUILDERS] {
            if rng.chance(1, 3) {
                variant |= b;
            }
        }
        if grl && rng.chance(1, 3) {
            variant |= V_WHOLE;
        }
    }
    Case { grl, facts, rules, max_cycles, variant, phases }
}

fn gen(rng: &mut Rng, n: usize, _tier: &str) -> Vec<String> {
    std::panic::set_hook(Box::new(|_| {})); // the generator probes evaluate_expression, which can panic
    let mut out: Vec<String> = (0..n).map(|_| ser_case(&gen_case(rng))).collect();
    // dedicated families (see each function) after the main stream: n/20 cases each, n/10 of the moving-threshold one
    for _ in 0..n / 20 {
        out.push(ser_case(&gen_long_in(rng)));
        out.push(ser_case(&gen_tight(rng)));
        out.push(ser_case(&gen_moving(rng)));
        out.push(ser_case(&gen_moving(rng)));
        out.push(ser_case(&gen_again(rng)));
    }
    // the API's other doors and caller-side edits (see gen_reach): n/10 cases, drawn after everything else
    for _ in 0..n / 10 {
        out.push(ser_case(&gen_reach(rng)));
    }
    // extreme numbers in every operand position (see gen_extreme): n/5 cases
    for _ in 0..n / 5 {
        out.push(ser_case(&gen_extreme(rng)));
    }
    out
}

// ------------------------------------------------------------------ shrinking
fn shrink_cond(c: &Cond) -> Vec<Cond> {
    match c {
        Cond::And(a, b) | Cond::Or(a, b) => {
            let mut v = vec![(**a).clone(), (**b).clone()];
            let mk = |x: Cond, y: Cond| if matches!(c, Cond::And(..)) { Cond::And(Box::new(x), Box::new(y)) } else { Cond::Or(Box::new(x), Box::new(y)) };
            for x in shrink_cond(a) {
                v.push(mk(x, (**b).clone()));
            }
            for y in shrink_cond(b) {
                v.push(mk((**a).clone(), y));
            }
            v
        }
        Cond::Not(a) => {
            let mut v = vec![(**a).clone()];
            for x in shrink_cond(a) {
                v.push(Cond::Not(Box::new(x)));
            }
            v
        }
        _ => vec![],
    }
}
/// shorter arithmetic: the last operand dropped, or the first one
fn shrink_sum(e: &Sum) -> Vec<Sum> {
    let mut v = Vec::new();
    let mut flat: Vec<(char, usize, usize, Atom)> = Vec::new();
    for (c, pl, pr, a) in &e.first.rest {
        flat.push((*c, *pl, *pr, a.clone()));
    }
    for (c, pl, pr, t) in &e.rest {
        flat.push((*c, *pl, *pr, t.first.clone()));
        for (c2, pl2, pr2, a) in &t.rest {
            flat.push((*c2, *pl2, *pr2, a.clone()));
        }
    }
    if flat.is_empty() {
        return v;
    }
    v.push(flat_sum(e.first.first.clone(), flat[..flat.len() - 1].to_vec()));
    v.push(flat_sum(flat[0].3.clone(), flat[1..].to_vec()));
    v
}
fn shrink_leaf_sums(c: &Cond) -> Vec<Cond> {
    match c {
        Cond::And(a, b) => {
            let mut v: Vec<Cond> = shrink_leaf_sums(a).into_iter().map(|x| Cond::And(Box::new(x), b.clone())).collect();
            v.extend(shrink_leaf_sums(b).into_iter().map(|y| Cond::And(a.clone(), Box::new(y))));
            v
        }
        Cond::Or(a, b) => {
            let mut v: Vec<Cond> = shrink_leaf_sums(a).into_iter().map(|x| Cond::Or(Box::new(x), b.clone())).collect();
            v.extend(shrink_leaf_sums(b).into_iter().map(|y| Cond::Or(a.clone(), Box::new(y))));
            v
        }
        Cond::Not(a) => shrink_leaf_sums(a).into_iter().map(|x| Cond::Not(Box::new(x))).collect(),
        Cond::Field(n, op, SRhs::Expr(e)) => shrink_sum(e).into_iter().map(|x| Cond::Field(n.clone(), op.clone(), SRhs::Expr(x))).collect(),
        Cond::Field(..) => vec![],
        Cond::Arith(l, op, r) => {
            // the left side of an arithmetic comparison keeps at least one operator
            let mut v: Vec<Cond> =
                shrink_sum(l).into_iter().filter(|x| !x.rest.is_empty() || !x.first.rest.is_empty()).map(|x| Cond::Arith(x, op.clone(), r.clone())).collect();
            if let ARhs::Expr(e) = r {
                v.extend(shrink_sum(e).into_iter().map(|x| Cond::Arith(l.clone(), op.clone(), ARhs::Expr(x))));
            }
            v
        }
    }
}
fn shrink(case: &str) -> Vec<String> {
    let Some(c) = parse_case(case) else { return vec![] };
    let mut out = Vec::new();
    for rs in shrink_list(&c.rules) {
        if !rs.is_empty() {
            out.push(Case { rules: rs, ..c.clone() });
        }
    }
    for i in 0..c.rules.len() {
        for acts in shrink_list(&c.rules[i].acts) {
            let mut d = c.clone();
            d.rules[i].acts = acts;
            out.push(d);
        }
        for cond in shrink_cond(&c.rules[i].cond) {
            let mut d = c.clone();
            d.rules[i].cond = cond;
            out.push(d);
        }
    }
    for fs in shrink_list(&c.facts) {
        out.push(Case { facts: fs, ..c.clone() });
    }
    if c.grl {
        out.push(Case { grl: false, ..c.clone() });
    }
    // fewer calls, fewer replaced facts, fewer cycles
    for ps in shrink_list(&c.phases) {
        out.push(Case { phases: ps, ..c.clone() });
    }
    for i in 0..c.phases.len() {
        for ops in shrink_list(&c.phases[i].ops) {
            let mut d = c.clone();
            d.phases[i].ops = ops;
            out.push(d);
        }
        if c.phases[i].kind != 'p' {
            let mut d = c.clone();
            d.phases[i].kind = 'p';
            out.push(d);
        }
    }
    for b in 0..8 {
        if c.variant & (1 << b) != 0 {
            out.push(Case { variant: c.variant & !(1 << b), ..c.clone() });
        }
    }
    if c.max_cycles > 1 {
        out.push(Case { max_cycles: 1, ..c.clone() });
        out.push(Case { max_cycles: c.max_cycles - 1, ..c.clone() });
    }
    // shorter membership lists (literal on the right of a single-leaf condition, or held in a fact)
    for i in 0..c.rules.len() {
        if let Cond::Field(n, op, SRhs::Lit(Value::Array(xs))) = &c.rules[i].cond {
            for ys in shrink_list(xs).into_iter().take(12) {
                let mut d = c.clone();
                d.rules[i].cond = Cond::Field(n.clone(), op.clone(), SRhs::Lit(Value::Array(ys)));
                out.push(d);
            }
        }
    }
    for i in 0..c.facts.len() {
        if let Value::Array(xs) = &c.facts[i].1 {
            for ys in shrink_list(xs).into_iter().take(6) {
                let mut d = c.clone();
                d.facts[i].1 = Value::Array(ys);
                out.push(d);
            }
        }
    }
    // shorter arithmetic in conditions and assignments; objects in the store with one member less
    for i in 0..c.rules.len() {
        for cond in shrink_leaf_sums(&c.rules[i].cond) {
            let mut d = c.clone();
            d.rules[i].cond = cond;
            out.push(d);
        }
        for j in 0..c.rules[i].acts.len() {
            let (Act::Set(f, r) | Act::Append(f, r)) = &c.rules[i].acts[j];
            if let SRhs::Expr(e) = r {
                for x in shrink_sum(e) {
                    let mut d = c.clone();
                    d.rules[i].acts[j] = match &c.rules[i].acts[j] {
                        Act::Set(..) => Act::Set(f.clone(), SRhs::Expr(x)),
                        Act::Append(..) => Act::Append(f.clone(), SRhs::Expr(x)),
                    };
                    out.push(d);
                }
            }
        }
    }
    for i in 0..c.facts.len() {
        if let Value::Object(m) = &c.facts[i].1 {
            let mut ks: Vec<&String> = m.keys().collect();
            ks.sort();
            for k in ks {
                let mut m2 = m.clone();
                m2.remove(k);
                let mut d = c.clone();
                d.facts[i].1 = Value::Object(m2);
                out.push(d);
            }
        }
    }
    out.iter().map(ser_case).collect()
}

fn main() {
    main_with(Prop { gen, exec, shrink });
}
