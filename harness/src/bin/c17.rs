//! C17 — ProofGraph: insert_proof / invalidate_handle histories; observed through
//! is_proven / lookup_by_key / get_node(..).valid after every operation.
//! case := `<U> <K> <op;op;…>`  U,K = comma lists of handle ids / key numbers to observe
//!         op := `i<h>:<k>:<p,p,…|->` | `x<h>`
//! obs  := step;step;…   step := V/P/L   (see Driver/C17.lean)
use rre_harness::*;
use rust_rule_engine::backward::proof_graph::{FactKey, ProofGraph};
use rust_rule_engine::rete::FactHandle;
use std::collections::BTreeSet;

#[derive(Clone, Debug, PartialEq)]
enum Op {
    Ins(u64, u64, Vec<u64>),
    Inv(u64),
}

fn show_op(o: &Op) -> String {
    match o {
        Op::Ins(h, k, ps) => format!("i{}:{}:{}", h, k, join_nums(ps)),
        Op::Inv(h) => format!("x{}", h),
    }
}

fn parse_op(s: &str) -> Option<Op> {
    if let Some(r) = s.strip_prefix('x') {
        return Some(Op::Inv(r.parse().ok()?));
    }
    let r = s.strip_prefix('i')?;
    let t: Vec<&str> = r.split(':').collect();
    if t.len() != 3 {
        return None;
    }
    Some(Op::Ins(t[0].parse().ok()?, t[1].parse().ok()?, parse_nums(t[2])?))
}

fn parse_case(case: &str) -> Option<(Vec<u64>, Vec<u64>, Vec<Op>)> {
    let t: Vec<&str> = case.split_whitespace().collect();
    if t.len() < 2 || t.len() > 3 {
        return None;
    }
    let u = parse_nums(t[0])?;
    let k = parse_nums(t[1])?;
    let ops = if t.len() == 3 { t[2].split(';').map(parse_op).collect::<Option<Vec<_>>>()? } else { vec![] };
    Some((u, k, ops))
}

fn show_case(u: &[u64], k: &[u64], ops: &[Op]) -> String {
    let o: Vec<String> = ops.iter().map(show_op).collect();
    format!("{} {} {}", join_nums(u), join_nums(k), o.join(";")).trim_end().to_string()
}

fn key(k: u64) -> FactKey {
    // two constructors of the same key type; `from_pattern` is the one the search uses
    if k % 2 == 0 {
        FactKey::from_pattern(&format!("T{}.f == 1", k))
    } else {
        FactKey::new(format!("T{}", k), None, format!("T{}", k))
    }
}

fn dash(s: String) -> String {
    if s.is_empty() { "-".into() } else { s }
}

fn exec(case: &str) -> String {
    let Some((u, ks, ops)) = parse_case(case) else { return "bad-case".into() };
    let mut g = ProofGraph::new();
    let mut steps = Vec::new();
    for op in &ops {
        match op {
            Op::Ins(h, k, ps) => g.insert_proof(
                FactHandle::new(*h),
                key(*k),
                format!("r{}", h),
                ps.iter().map(|p| FactHandle::new(*p)).collect(),
                ps.iter().map(|p| format!("p{}", p)).collect(),
            ),
            Op::Inv(h) => g.invalidate_handle(&FactHandle::new(*h)),
        }
        let v: String = u
            .iter()
            .map(|h| match g.get_node(&FactHandle::new(*h)) {
                None => 'n',
                Some(n) => if n.valid { '1' } else { '0' },
            })
            .collect();
        let p: String = ks.iter().map(|k| if g.is_proven(&key(*k)) { '1' } else { '0' }).collect();
        let l: Vec<String> = ks
            .iter()
            .map(|k| {
                let got: BTreeSet<u64> = match g.lookup_by_key(&key(*k)) {
                    None => BTreeSet::new(),
                    Some(ns) => ns.iter().filter_map(|n| n.handle.map(|h| h.id())).collect(),
                };
                dash(u.iter().map(|h| if got.contains(h) { '1' } else { '0' }).collect())
            })
            .collect();
        steps.push(format!("{}/{}/{}", dash(v), dash(p), dash(l.join(","))));
    }
    if steps.is_empty() { "-".into() } else { steps.join(";") }
}

/// reference dead set (naive fixpoint over the history) — used only to keep generated histories
/// well-formed (no dead handle as a premise of a later insertion)
#[derive(Clone, Default)]
struct Ref {
    justs: Vec<(u64, Vec<u64>)>,
    dead: BTreeSet<u64>,
}
impl Ref {
    fn close(&mut self) {
        loop {
            let mut add = vec![];
            for (h, _) in &self.justs {
                if self.dead.contains(h) {
                    continue;
                }
                if self.justs.iter().filter(|(c, _)| c == h).all(|(_, ps)| ps.iter().any(|p| self.dead.contains(p))) {
                    add.push(*h);
                }
            }
            if add.is_empty() {
                break;
            }
            self.dead.extend(add);
        }
    }
    fn apply(&mut self, op: &Op) {
        match op {
            Op::Ins(h, _, ps) => self.justs.push((*h, ps.clone())),
            Op::Inv(h) => {
                self.dead.insert(*h);
            }
        }
        self.close();
    }
    fn ok(&self, op: &Op) -> bool {
        match op {
            Op::Ins(_, _, ps) => ps.iter().all(|p| !self.dead.contains(p)),
            Op::Inv(_) => true,
        }
    }
}

/// all subsets of `xs` with at most `k` elements (sorted)
fn subsets(xs: &[u64], k: usize) -> Vec<Vec<u64>> {
    let mut out = vec![vec![]];
    for &x in xs {
        let mut more = vec![];
        for s in &out {
            if s.len() < k {
                let mut t = s.clone();
                t.push(x);
                more.push(t);
            }
        }
        out.extend(more);
    }
    out
}

/// Every well-formed history of exactly `len` operations over at most `nh` handles with at most
/// `maxp` premises per insertion, up to renaming of handles (handles are introduced in the order
/// 0,1,2,… : conclusion first, then the new premises). Observations are taken after every
/// operation, so all shorter histories are covered as prefixes. Self-premises are included.
fn enumerate(nh: u64, maxp: usize, len: usize, out: &mut Vec<Vec<Op>>) {
    fn go(nh: u64, maxp: usize, len: usize, used: u64, r: &Ref, cur: &mut Vec<Op>, out: &mut Vec<Vec<Op>>) {
        if cur.len() == len {
            out.push(cur.clone());
            return;
        }
        // invalidate an existing handle or the next new one
        for p in 0..=used.min(nh - 1) {
            let op = Op::Inv(p);
            let mut r2 = r.clone();
            r2.apply(&op);
            cur.push(op);
            go(nh, maxp, len, used.max(p + 1), &r2, cur, out);
            cur.pop();
        }
        for h in 0..=used.min(nh - 1) {
            let used1 = used.max(h + 1);
            let existing: Vec<u64> = (0..used1).collect();
            for e in subsets(&existing, maxp) {
                for j in 0..=(maxp - e.len()) as u64 {
                    if used1 + j > nh {
                        break;
                    }
                    let mut ps = e.clone();
                    ps.extend(used1..used1 + j);
                    let op = Op::Ins(h, 0, ps);
                    if !r.ok(&op) {
                        continue;
                    }
                    let mut r2 = r.clone();
                    r2.apply(&op);
                    cur.push(op);
                    go(nh, maxp, len, used1 + j, &r2, cur, out);
                    cur.pop();
                }
            }
        }
    }
    go(nh, maxp, len, 0, &Ref::default(), &mut vec![], out);
}

/// Every well-formed history of exactly `len` operations drawn from a fixed menu over the five
/// handles 0..4: chain 0→1→4→3, diamond 0→{1,2}→3, two justifications for 3, a premise-free
/// re-proof of 1, and invalidation of a root, a middle and a side handle — in every order,
/// so every insertion order (dependents before premises included) of these shapes occurs.
fn menu() -> Vec<Op> {
    vec![
        Op::Ins(1, 0, vec![0]),
        Op::Ins(2, 0, vec![0]),
        Op::Ins(3, 0, vec![1, 2]),
        Op::Ins(3, 0, vec![4]),
        Op::Ins(4, 0, vec![1]),
        Op::Ins(1, 0, vec![]),
        Op::Inv(0),
        Op::Inv(1),
        Op::Inv(4),
    ]
}
fn enumerate_menu(len: usize, out: &mut Vec<Vec<Op>>) {
    fn go(m: &[Op], len: usize, r: &Ref, cur: &mut Vec<Op>, out: &mut Vec<Vec<Op>>) {
        if cur.len() == len {
            out.push(cur.clone());
            return;
        }
        for op in m {
            if !r.ok(op) {
                continue;
            }
            let mut r2 = r.clone();
            r2.apply(op);
            cur.push(op.clone());
            go(m, len, &r2, cur, out);
            cur.pop();
        }
    }
    go(&menu(), len, &Ref::default(), &mut vec![], out);
}

const KEYMAPS: [[u64; 5]; 4] = [[0, 1, 2, 3, 4], [0, 0, 1, 2, 1], [0, 1, 0, 1, 0], [3, 3, 3, 3, 3]];

/// rename canonical labels 0..5 to handle ids (a random injection: exercises HashSet orders) and
/// give every handle its key from a key map (several handles may share a key)
fn concretise(rng: &mut Rng, ops: &[Op]) -> String {
    let mut ids: Vec<u64> = (1..=9).collect();
    rng.shuffle(&mut ids);
    let km = *rng.pick(&KEYMAPS);
    let ops: Vec<Op> = ops
        .iter()
        .map(|o| match o {
            Op::Ins(h, _, ps) => Op::Ins(ids[*h as usize], km[*h as usize], ps.iter().map(|p| ids[*p as usize]).collect()),
            Op::Inv(h) => Op::Inv(ids[*h as usize]),
        })
        .collect();
    let mut u: Vec<u64> = ids[..5].to_vec();
    u.sort();
    let mut k: Vec<u64> = km.to_vec();
    k.sort();
    k.dedup();
    show_case(&u, &k, &ops)
}

fn random_case(rng: &mut Rng, maxlen: u64) -> String {
    let nh = *rng.pick(&[3u64, 4, 5, 5, 5, 7]);
    let mut pool: Vec<u64> = (1..=40).collect();
    rng.shuffle(&mut pool);
    let ids: Vec<u64> = pool[..nh as usize].to_vec();
    let nk = rng.range(1, nh);
    let home: Vec<u64> = (0..nh).map(|_| rng.below(nk)).collect();
    let len = rng.range(1, maxlen);
    let mut r = Ref::default();
    let mut ops: Vec<Op> = vec![];
    let style = rng.below(4); // 0: anything, 1: dependents first (conclusion ids descending), 2: premises first, 3: few invalidations
    for _ in 0..len {
        let inserted: Vec<usize> = (0..nh as usize).filter(|i| r.justs.iter().any(|(c, _)| *c == ids[*i])).collect();
        let do_inv = !ops.is_empty() && rng.chance(if style == 3 { 2 } else { 4 }, 10);
        if do_inv {
            // prefer handles that something depends on
            let prem: Vec<u64> = r.justs.iter().flat_map(|(_, ps)| ps.clone()).collect();
            let h = if !prem.is_empty() && rng.chance(3, 4) { *rng.pick(&prem) } else { ids[rng.below(nh) as usize] };
            let op = Op::Inv(h);
            r.apply(&op);
            ops.push(op);
            continue;
        }
        // conclusion: sometimes a currently dead / invalidated handle (re-proof)
        let deadh: Vec<u64> = ids.iter().copied().filter(|h| r.dead.contains(h)).collect();
        let ci = if !deadh.is_empty() && rng.chance(1, 3) {
            let d = *rng.pick(&deadh);
            ids.iter().position(|h| *h == d).unwrap()
        } else if !inserted.is_empty() && rng.chance(1, 4) {
            *rng.pick(&inserted)
        } else {
            rng.below(nh) as usize
        };
        let live: Vec<usize> = (0..nh as usize).filter(|i| !r.dead.contains(&ids[*i])).collect();
        let want = *rng.pick(&[0usize, 1, 1, 1, 2, 2, 3]);
        let mut ps: Vec<u64> = vec![];
        for _ in 0..want {
            let cand: Vec<usize> = match style {
                1 => live.iter().copied().filter(|i| *i > ci).collect(),
                2 => live.iter().copied().filter(|i| *i < ci).collect(),
                _ => live.clone(),
            };
            let cand = if cand.is_empty() || rng.chance(1, 6) { live.clone() } else { cand };
            if cand.is_empty() {
                break;
            }
            ps.push(ids[*rng.pick(&cand)]); // duplicates and self-premises can occur
        }
        let k = if rng.chance(1, 8) { rng.below(nk) } else { home[ci] };
        let op = Op::Ins(ids[ci], k, ps);
        debug_assert!(r.ok(&op));
        r.apply(&op);
        ops.push(op);
    }
    let mut u = ids.clone();
    u.sort();
    let k: Vec<u64> = (0..nk).collect();
    show_case(&u, &k, &ops)
}

fn gen(rng: &mut Rng, n: usize, tier: &str) -> Vec<String> {
    let mut out = Vec::new();
    // exhaustive families (nh handles, <= maxp premises, exactly len ops; prefixes cover the shorter ones)
    let fams: &[(u64, usize, usize)] = if tier == "thorough" {
        &[(5, 2, 4), (4, 1, 5), (2, 2, 6)]
    } else {
        &[(5, 2, 3), (5, 1, 4), (3, 2, 4), (2, 1, 6)]
    };
    for &(nh, maxp, len) in fams {
        let mut hs = vec![];
        enumerate(nh, maxp, len, &mut hs);
        eprintln!("c17 gen: exhaustive family handles<={} premises<={} len={} -> {} canonical well-formed histories", nh, maxp, len, hs.len());
        for h in &hs {
            out.push(concretise(rng, h));
        }
    }
    {
        let mut hs = vec![];
        enumerate_menu(6, &mut hs);
        eprintln!("c17 gen: exhaustive menu family (9 operations over 5 handles) len=6 -> {} well-formed histories", hs.len());
        for h in &hs {
            out.push(concretise(rng, h));
        }
    }
    let maxlen = if tier == "thorough" { 12 } else { 9 };
    for _ in 0..n {
        out.push(random_case(rng, maxlen));
    }
    out
}

fn shrink(case: &str) -> Vec<String> {
    let Some((u, k, ops)) = parse_case(case) else { return vec![] };
    let mut out: Vec<String> = shrink_list(&ops).into_iter().map(|o| show_case(&u, &k, &o)).collect();
    for i in 0..ops.len() {
        if let Op::Ins(h, kk, ps) = &ops[i] {
            for j in 0..ps.len() {
                let mut p2 = ps.clone();
                p2.remove(j);
                let mut o2 = ops.clone();
                o2[i] = Op::Ins(*h, *kk, p2);
                out.push(show_case(&u, &k, &o2));
            }
        }
    }
    out
}

fn main() {
    // `c17 count <nh> <maxp> <len>`: size of an exhaustive family (for the report)
    let args: Vec<String> = std::env::args().collect();
    if args.get(1).map(|s| s.as_str()) == Some("count-menu") {
        let mut hs = vec![];
        enumerate_menu(args[2].parse().unwrap(), &mut hs);
        println!("{}", hs.len());
        return;
    }
    if args.get(1).map(|s| s.as_str()) == Some("count") {
        let nh: u64 = args[2].parse().unwrap();
        let maxp: usize = args[3].parse().unwrap();
        let len: usize = args[4].parse().unwrap();
        let mut hs = vec![];
        enumerate(nh, maxp, len, &mut hs);
        println!("{}", hs.len());
        return;
    }
    main_with(Prop { gen, exec, shrink });
}
