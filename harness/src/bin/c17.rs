//! C17 — ProofGraph: insert_proof / invalidate_handle histories; observed through
//! is_proven / lookup_by_key / get_node(..).valid after every operation.
//! case := `<U> <K> <op;op;…>`  U,K = comma lists of handle ids / key numbers to observe
//!         op := `i<h>:<k>:<p,p,…|->[:<q,q,…|->]` | `x<h>`
//!         The optional fourth field of an insertion is the `premise_keys` argument of insert_proof
//!         (key number q stands for the text "p<q>"); absent = one key per premise ("p<premise>").
//!         premise_keys are documented as human-readable tracing only, so the list is drawn
//!         independently of the premises (empty, shorter, longer, permuted, duplicated, foreign).
//! obs  := step;step;…   step := V/P/L   (see Driver/C17.lean)
use rre_harness::*;
use rust_rule_engine::backward::proof_graph::{FactKey, ProofGraph};
use rust_rule_engine::rete::FactHandle;
use std::collections::BTreeSet;

#[derive(Clone, Debug, PartialEq)]
enum Op {
    /// conclusion handle, key number, premises, premise_keys (None = one matching key per premise)
    Ins(u64, u64, Vec<u64>, Option<Vec<u64>>),
    Inv(u64),
}

fn ins(h: u64, k: u64, ps: Vec<u64>) -> Op {
    Op::Ins(h, k, ps, None)
}

fn show_op(o: &Op) -> String {
    match o {
        Op::Ins(h, k, ps, None) => format!("i{}:{}:{}", h, k, join_nums(ps)),
        Op::Ins(h, k, ps, Some(qs)) => format!("i{}:{}:{}:{}", h, k, join_nums(ps), join_nums(qs)),
        Op::Inv(h) => format!("x{}", h),
    }
}

fn parse_op(s: &str) -> Option<Op> {
    if let Some(r) = s.strip_prefix('x') {
        return Some(Op::Inv(r.parse().ok()?));
    }
    let r = s.strip_prefix('i')?;
    let t: Vec<&str> = r.split(':').collect();
    if t.len() != 3 && t.len() != 4 {
        return None;
    }
    let qs = if t.len() == 4 { Some(parse_nums(t[3])?) } else { None };
    Some(Op::Ins(t[0].parse().ok()?, t[1].parse().ok()?, parse_nums(t[2])?, qs))
}

fn parse_case(case: &str) -> Option<(Vec<u64>, Vec<u64>, Vec<Op>)> {
    let t: Vec<&str> = case.split_whitespace().collect();
    if t.len() < 2 || t.len() > 3 {
        return None;
    }
    let u = parse_nums(t[0])?;
    let k = parse_nums(t[1])?;
    let ops = if t.len() == 3 { t[2].split(';').map(parse_op).collect::<Option<Vec<_>>>()? } else { vec![] };
    Some((u, k, ops))
}

fn show_case(u: &[u64], k: &[u64], ops: &[Op]) -> String {
    let o: Vec<String> = ops.iter().map(show_op).collect();
    format!("{} {} {}", join_nums(u), join_nums(k), o.join(";")).trim_end().to_string()
}

fn key(k: u64) -> FactKey {
    // two constructors of the same key type; `from_pattern` is the one the search uses
    if k % 2 == 0 {
        FactKey::from_pattern(&format!("T{}.f == 1", k))
    } else {
        FactKey::new(format!("T{}", k), None, format!("T{}", k))
    }
}

fn dash(s: String) -> String {
    if s.is_empty() { "-".into() } else { s }
}

fn exec(case: &str) -> String {
    let Some((u, ks, ops)) = parse_case(case) else { return "bad-case".into() };
    let mut g = ProofGraph::new();
    let mut steps = Vec::new();
    for op in &ops {
        match op {
            Op::Ins(h, k, ps, qs) => g.insert_proof(
                FactHandle::new(*h),
                key(*k),
                format!("r{}", h),
                ps.iter().map(|p| FactHandle::new(*p)).collect(),
                qs.as_ref().unwrap_or(ps).iter().map(|p| format!("p{}", p)).collect(),
            ),
            Op::Inv(h) => g.invalidate_handle(&FactHandle::new(*h)),
        }
        let v: String = u
            .iter()
            .map(|h| match g.get_node(&FactHandle::new(*h)) {
                None => 'n',
                Some(n) => if n.valid { '1' } else { '0' },
            })
            .collect();
        let p: String = ks.iter().map(|k| if g.is_proven(&key(*k)) { '1' } else { '0' }).collect();
        let l: Vec<String> = ks
            .iter()
            .map(|k| {
                let got: BTreeSet<u64> = match g.lookup_by_key(&key(*k)) {
                    None => BTreeSet::new(),
                    Some(ns) => ns.iter().filter_map(|n| n.handle.map(|h| h.id())).collect(),
                };
                dash(u.iter().map(|h| if got.contains(h) { '1' } else { '0' }).collect())
            })
            .collect();
        steps.push(format!("{}/{}/{}", dash(v), dash(p), dash(l.join(","))));
    }
    if steps.is_empty() { "-".into() } else { steps.join(";") }
}

/// reference dead set (naive fixpoint over the history) — used only to keep generated histories
/// well-formed (no dead handle as a premise of a later insertion)
#[derive(Clone, Default)]
struct Ref {
    justs: Vec<(u64, Vec<u64>)>,
    dead: BTreeSet<u64>,
}
impl Ref {
    fn close(&mut self) {
        loop {
            let mut add = vec![];
            for (h, _) in &self.justs {
                if self.dead.contains(h) {
                    continue;
                }
                if self.justs.iter().filter(|(c, _)| c == h).all(|(_, ps)| ps.iter().any(|p| self.dead.contains(p))) {
                    add.push(*h);
                }
            }
            if add.is_empty() {
                break;
            }
            self.dead.extend(add);
        }
    }
    fn apply(&mut self, op: &Op) {
        match op {
            Op::Ins(h, _, ps, _) => self.justs.push((*h, ps.clone())),
            Op::Inv(h) => {
                self.dead.insert(*h);
            }
        }
        self.close();
    }
    fn ok(&self, op: &Op) -> bool {
        match op {
            Op::Ins(_, _, ps, _) => ps.iter().all(|p| !self.dead.contains(p)),
            Op::Inv(_) => true,
        }
    }
}

/// all subsets of `xs` with at most `k` elements (sorted)
fn subsets(xs: &[u64], k: usize) -> Vec<Vec<u64>> {
    let mut out = vec![vec![]];
    for &x in xs {
        let mut more = vec![];
        for s in &out {
            if s.len() < k {
                let mut t = s.clone();
                t.push(x);
                more.push(t);
            }
        }
        out.extend(more);
    }
    out
}

/// Every well-formed history of exactly `len` operations over at most `nh` handles with at most
/// `maxp` premises per insertion, up to renaming of handles (handles are introduced in the order
/// 0,1,2,… : conclusion first, then the new premises). Observations are taken after every
/// operation, so all shorter histories are covered as prefixes. Self-premises are included.
fn enumerate(nh: u64, maxp: usize, len: usize, out: &mut Vec<Vec<Op>>) {
    fn go(nh: u64, maxp: usize, len: usize, used: u64, r: &Ref, cur: &mut Vec<Op>, out: &mut Vec<Vec<Op>>) {
        if cur.len() == len {
            out.push(cur.clone());
            return;
        }
        // invalidate an existing handle or the next new one
        for p in 0..=used.min(nh - 1) {
            let op = Op::Inv(p);
            let mut r2 = r.clone();
            r2.apply(&op);
            cur.push(op);
            go(nh, maxp, len, used.max(p + 1), &r2, cur, out);
            cur.pop();
        }
        for h in 0..=used.min(nh - 1) {
            let used1 = used.max(h + 1);
            let existing: Vec<u64> = (0..used1).collect();
            for e in subsets(&existing, maxp) {
                for j in 0..=(maxp - e.len()) as u64 {
                    if used1 + j > nh {
                        break;
                    }
                    let mut ps = e.clone();
                    ps.extend(used1..used1 + j);
                    let op = ins(h, 0, ps);
                    if !r.ok(&op) {
                        continue;
                    }
                    let mut r2 = r.clone();
                    r2.apply(&op);
                    cur.push(op);
                    go(nh, maxp, len, used1 + j, &r2, cur, out);
                    cur.pop();
                }
            }
        }
    }
    go(nh, maxp, len, 0, &Ref::default(), &mut vec![], out);
}

/// Every well-formed history of exactly `len` operations drawn from a fixed menu over the five
/// handles 0..4: chain 0→1→4→3, diamond 0→{1,2}→3, two justifications for 3, a premise-free
/// re-proof of 1, and invalidation of a root, a middle and a side handle — in every order,
/// so every insertion order (dependents before premises included) of these shapes occurs.
fn menu() -> Vec<Op> {
    vec![
        ins(1, 0, vec![0]),
        ins(2, 0, vec![0]),
        ins(3, 0, vec![1, 2]),
        ins(3, 0, vec![4]),
        ins(4, 0, vec![1]),
        ins(1, 0, vec![]),
        Op::Inv(0),
        Op::Inv(1),
        Op::Inv(4),
    ]
}
fn enumerate_menu(len: usize, out: &mut Vec<Vec<Op>>) {
    fn go(m: &[Op], len: usize, r: &Ref, cur: &mut Vec<Op>, out: &mut Vec<Vec<Op>>) {
        if cur.len() == len {
            out.push(cur.clone());
            return;
        }
        for op in m {
            if !r.ok(op) {
                continue;
            }
            let mut r2 = r.clone();
            r2.apply(op);
            cur.push(op.clone());
            go(m, len, &r2, cur, out);
            cur.pop();
        }
    }
    go(&menu(), len, &Ref::default(), &mut vec![], out);
}

const KEYMAPS: [[u64; 5]; 4] = [[0, 1, 2, 3, 4], [0, 0, 1, 2, 1], [0, 1, 0, 1, 0], [3, 3, 3, 3, 3]];

/// rename canonical labels 0..5 to handle ids (a random injection: exercises HashSet orders) and
/// give every handle its key from a key map (several handles may share a key)
fn concretise(rng: &mut Rng, ops: &[Op]) -> String {
    let mut ids: Vec<u64> = (1..=9).collect();
    rng.shuffle(&mut ids);
    let km = *rng.pick(&KEYMAPS);
    let ops: Vec<Op> = ops
        .iter()
        .map(|o| match o {
            Op::Ins(h, _, ps, _) => ins(ids[*h as usize], km[*h as usize], ps.iter().map(|p| ids[*p as usize]).collect()),
            Op::Inv(h) => Op::Inv(ids[*h as usize]),
        })
        .collect();
    let mut u: Vec<u64> = ids[..5].to_vec();
    u.sort();
    let mut k: Vec<u64> = km.to_vec();
    k.sort();
    k.dedup();
    show_case(&u, &k, &ops)
}

/// number of key modes of `keys_for`
const KEY_MODES: u64 = 10;

/// The `premise_keys` argument of insert_proof for the premises `ps` under key mode `m`. The keys are
/// "for human-readable tracing" (Justification::premise_keys) and insert_proof takes them as an
/// independent Vec, so every relation between the two lists is a legal call.
fn keys_for(rng: &mut Rng, m: u64, ps: &[u64]) -> Option<Vec<u64>> {
    match m {
        0 => None,                                                   // one matching key per premise
        1 => Some(vec![]),                                           // no keys at all
        2 => Some(ps[..ps.len().saturating_sub(1)].to_vec()),        // last premise un-keyed
        3 => Some(ps.iter().skip(1).copied().collect()),             // first key missing: shorter and shifted
        4 => Some(ps.iter().take(1).copied().collect()),             // only the first premise keyed
        5 => Some(ps.iter().copied().chain([90, 91]).collect()),     // longer than the premises
        6 => Some(ps.iter().rev().copied().collect()),               // permuted
        7 => Some(ps.iter().map(|_| ps[0]).collect()),               // one key repeated
        8 => Some(ps.iter().map(|p| p + 50).collect()),              // keys of handles that do not occur
        _ => {
            let n = rng.below(ps.len() as u64 + 2);
            Some((0..n).map(|_| if ps.is_empty() || rng.chance(1, 4) { rng.range(1, 40) } else { *rng.pick(ps) }).collect())
        }
    }
}

/// give every insertion of a case a key list: `mode` < KEY_MODES for all, otherwise a random mode per insertion
fn with_keys(rng: &mut Rng, ops: &[Op], mode: u64) -> Vec<Op> {
    ops.iter()
        .map(|o| match o {
            Op::Ins(h, k, ps, _) => {
                let m = if mode < KEY_MODES { mode } else { rng.below(KEY_MODES) };
                Op::Ins(*h, *k, ps.clone(), keys_for(rng, m, ps))
            }
            o => o.clone(),
        })
        .collect()
}

/// rename arbitrary canonical labels to random distinct handle ids (1..=40) and give every handle a key
/// from one of three key maps (own key / one shared key / two keys); observe every handle and key
fn concretise_any(rng: &mut Rng, ops: &[Op]) -> String {
    let mut labels: Vec<u64> = vec![];
    for o in ops {
        let mut see = |l: u64| {
            if !labels.contains(&l) {
                labels.push(l)
            }
        };
        match o {
            Op::Ins(h, _, ps, _) => {
                see(*h);
                ps.iter().for_each(|p| see(*p));
            }
            Op::Inv(h) => see(*h),
        }
    }
    let mut pool: Vec<u64> = (1..=40).collect();
    rng.shuffle(&mut pool);
    let id = |l: u64| pool[labels.iter().position(|x| *x == l).unwrap()];
    let kmode = rng.below(3);
    let keyof = |l: u64| {
        let i = labels.iter().position(|x| *x == l).unwrap() as u64;
        match kmode {
            0 => i,
            1 => 0,
            _ => i % 2,
        }
    };
    let ops: Vec<Op> = ops
        .iter()
        .map(|o| match o {
            Op::Ins(h, _, ps, qs) => Op::Ins(
                id(*h),
                keyof(*h),
                ps.iter().map(|p| id(*p)).collect(),
                qs.as_ref().map(|q| q.iter().map(|x| if labels.contains(x) { id(*x) } else { *x }).collect()),
            ),
            Op::Inv(h) => Op::Inv(id(*h)),
        })
        .collect();
    let mut u: Vec<u64> = labels.iter().map(|l| id(*l)).collect();
    u.sort();
    let mut k: Vec<u64> = labels.iter().map(|l| keyof(*l)).collect();
    k.sort();
    k.dedup();
    show_case(&u, &k, &ops)
}

fn perms(xs: &[u64]) -> Vec<Vec<u64>> {
    if xs.len() <= 1 {
        return vec![xs.to_vec()];
    }
    let mut out = vec![];
    for i in 0..xs.len() {
        let mut rest = xs.to_vec();
        let x = rest.remove(i);
        for mut p in perms(&rest) {
            p.insert(0, x);
            out.push(p);
        }
    }
    out
}

/// CONSTRUCTIVE family "re-proof of a node with several justifications": a node D gets k = 2..4
/// justifications (distinct single premises, or overlapping premise sets); every premise is assigned
/// to one of three phases — invalidated BEFORE D is invalidated directly, WHILE D is invalid, or
/// AFTER D has been re-proved — in every combination; D is invalidated directly once, twice or not
/// at all; the re-proof rests on a fresh handle R, on nothing, or once more on a premise that is
/// still live; the final invalidations (remaining premises and R) come in EVERY order. Variants:
/// the premises are themselves derived (chains P<-[root], inserted before or after D's
/// justifications, the invalidation then hits the root), and a dependent E<-[D] watches D.
/// k = 2 with a fresh R and no chain/dependent stays within 4 handles and 7..8 operations.
/// `full` = all variants for every k (thorough); otherwise k = 4 only without chains/dependent.
fn reproof_family(full: bool, out: &mut Vec<Vec<Op>>) {
    const D: u64 = 0;
    const R: u64 = 5;
    const E: u64 = 6;
    let root = |p: u64| 6 + p; // 7..10
    for k in 2..=4u64 {
        let prem: Vec<u64> = (1..=k).collect();
        for shape in 0..2 {
            let justs: Vec<Vec<u64>> = match (shape, k) {
                (0, _) => prem.iter().map(|p| vec![*p]).collect(),
                (_, 2) => vec![vec![1], vec![1, 2]],
                _ => prem.iter().map(|p| vec![*p, p % k + 1]).collect(),
            };
            for assign in 0..3u64.pow(k as u32) {
                let phase = |p: u64| (assign / 3u64.pow((p - 1) as u32)) % 3;
                let a: Vec<u64> = prem.iter().copied().filter(|p| phase(*p) == 0).collect();
                let b: Vec<u64> = prem.iter().copied().filter(|p| phase(*p) == 1).collect();
                let c: Vec<u64> = prem.iter().copied().filter(|p| phase(*p) == 2).collect();
                for kind in 0..3 {
                    if kind == 2 && c.is_empty() {
                        continue;
                    }
                    for direct in [1usize, 2, 0] {
                        for chain in 0..4 {
                            for dep in 0..2 {
                                if !full && k == 4 && (chain != 0 || dep != 0) {
                                    continue;
                                }
                                let chained: Vec<u64> = match chain {
                                    0 => vec![],
                                    3 => vec![1],
                                    _ => prem.clone(),
                                };
                                let target = |p: u64| if chained.contains(&p) { root(p) } else { p };
                                let mut pre: Vec<Op> = vec![];
                                if chain == 1 || chain == 3 {
                                    pre.extend(chained.iter().map(|p| ins(*p, 0, vec![root(*p)])));
                                }
                                pre.extend(justs.iter().map(|j| ins(D, 0, j.clone())));
                                if chain == 2 {
                                    pre.extend(chained.iter().map(|p| ins(*p, 0, vec![root(*p)])));
                                }
                                if dep == 1 {
                                    pre.push(ins(E, 0, vec![D]));
                                }
                                pre.extend(a.iter().map(|p| Op::Inv(target(*p))));
                                for _ in 0..direct {
                                    pre.push(Op::Inv(D));
                                }
                                pre.extend(b.iter().map(|p| Op::Inv(target(*p))));
                                pre.push(match kind {
                                    0 => ins(D, 0, vec![R]),
                                    1 => ins(D, 0, vec![]),
                                    _ => ins(D, 0, vec![c[0]]),
                                });
                                let mut fin = c.clone();
                                if kind == 0 {
                                    fin.push(R);
                                }
                                for pm in perms(&fin) {
                                    let mut ops = pre.clone();
                                    ops.extend(pm.iter().map(|p| Op::Inv(if *p == R { R } else { target(*p) })));
                                    let mut r = Ref::default();
                                    let mut wf = true;
                                    for o in &ops {
                                        if !r.ok(o) {
                                            wf = false;
                                            break;
                                        }
                                        r.apply(o);
                                    }
                                    if wf {
                                        out.push(ops);
                                    }
                                }
                            }
                        }
                    }
                }
            }
        }
    }
}

/// Every well-formed history of exactly `len` operations on ONE node D = 0 with up to three
/// single-premise justifications D<-[1], D<-[2], D<-[3], a premise-free re-proof being absent on
/// purpose (it would mask stale justifications): menu = the three insertions (repeatable: duplicate
/// justifications) and the invalidation of D and of each premise, up to renaming of the premises
/// (they are introduced in the order 1, 2, 3). Contains every "invalidate directly, lose some
/// justifications while invalid, re-prove, invalidate the rest in every order" history of 2..3
/// justifications with all its neighbours.
fn enumerate_node_menu(len: usize, out: &mut Vec<Vec<Op>>) {
    fn go(len: usize, seen: u64, r: &Ref, cur: &mut Vec<Op>, out: &mut Vec<Vec<Op>>) {
        if cur.len() == len {
            out.push(cur.clone());
            return;
        }
        let mut menu: Vec<(Op, u64)> = vec![(Op::Inv(0), 0)];
        for p in 1..=3u64.min(seen + 1) {
            menu.push((ins(0, 0, vec![p]), p));
            menu.push((Op::Inv(p), p));
        }
        for (op, p) in menu {
            if !r.ok(&op) {
                continue;
            }
            let mut r2 = r.clone();
            r2.apply(&op);
            cur.push(op);
            go(len, seen.max(p), &r2, cur, out);
            cur.pop();
        }
    }
    go(len, 0, &Ref::default(), &mut vec![], out);
}

/// CONSTRUCTIVE family "premise_keys unrelated to premises": a proof D with 1..3 premises inserted
/// under every key mode, optionally with a dependent E<-[D] (inserted before or after D) and a
/// second justification of D; then each premise is invalidated in turn (every premise position).
fn keys_family(rng: &mut Rng, out: &mut Vec<Vec<Op>>) {
    for n in 1..=3u64 {
        let ps: Vec<u64> = (1..=n).collect();
        for mode in 0..KEY_MODES {
            for dep in 0..3 {
                for second in 0..2 {
                    for victim in 1..=n {
                        let mut ops = vec![];
                        if dep == 2 {
                            ops.push(Op::Ins(6, 0, vec![0], keys_for(rng, mode, &[0])));
                        }
                        ops.push(Op::Ins(0, 0, ps.clone(), keys_for(rng, mode, &ps)));
                        if dep == 1 {
                            ops.push(Op::Ins(6, 0, vec![0], keys_for(rng, mode, &[0])));
                        }
                        if second == 1 {
                            ops.push(Op::Ins(0, 0, vec![victim, 5], keys_for(rng, mode, &[victim, 5])));
                        }
                        ops.push(Op::Inv(victim));
                        // then the others, then the second justification's own premise
                        ops.extend(ps.iter().filter(|p| **p != victim).map(|p| Op::Inv(*p)));
                        out.push(ops);
                    }
                }
            }
        }
    }
}

fn random_case(rng: &mut Rng, maxlen: u64) -> String {
    let nh = *rng.pick(&[3u64, 4, 5, 5, 5, 7]);
    let mut pool: Vec<u64> = (1..=40).collect();
    rng.shuffle(&mut pool);
    let ids: Vec<u64> = pool[..nh as usize].to_vec();
    let nk = rng.range(1, nh);
    let home: Vec<u64> = (0..nh).map(|_| rng.below(nk)).collect();
    let len = rng.range(1, maxlen);
    let mut r = Ref::default();
    let mut ops: Vec<Op> = vec![];
    let keyed = rng.chance(1, 2); // premise_keys drawn independently of the premises
    let style = rng.below(4); // 0: anything, 1: dependents first (conclusion ids descending), 2: premises first, 3: few invalidations
    for _ in 0..len {
        let inserted: Vec<usize> = (0..nh as usize).filter(|i| r.justs.iter().any(|(c, _)| *c == ids[*i])).collect();
        let do_inv = !ops.is_empty() && rng.chance(if style == 3 { 2 } else { 4 }, 10);
        if do_inv {
            // prefer handles that something depends on
            let prem: Vec<u64> = r.justs.iter().flat_map(|(_, ps)| ps.clone()).collect();
            let h = if !prem.is_empty() && rng.chance(3, 4) { *rng.pick(&prem) } else { ids[rng.below(nh) as usize] };
            let op = Op::Inv(h);
            r.apply(&op);
            ops.push(op);
            continue;
        }
        // conclusion: sometimes a currently dead / invalidated handle (re-proof)
        let deadh: Vec<u64> = ids.iter().copied().filter(|h| r.dead.contains(h)).collect();
        let ci = if !deadh.is_empty() && rng.chance(1, 3) {
            let d = *rng.pick(&deadh);
            ids.iter().position(|h| *h == d).unwrap()
        } else if !inserted.is_empty() && rng.chance(1, 4) {
            *rng.pick(&inserted)
        } else {
            rng.below(nh) as usize
        };
        let live: Vec<usize> = (0..nh as usize).filter(|i| !r.dead.contains(&ids[*i])).collect();
        let want = *rng.pick(&[0usize, 1, 1, 1, 2, 2, 3]);
        let mut ps: Vec<u64> = vec![];
        for _ in 0..want {
            let cand: Vec<usize> = match style {
                1 => live.iter().copied().filter(|i| *i > ci).collect(),
                2 => live.iter().copied().filter(|i| *i < ci).collect(),
                _ => live.clone(),
            };
            let cand = if cand.is_empty() || rng.chance(1, 6) { live.clone() } else { cand };
            if cand.is_empty() {
                break;
            }
            ps.push(ids[*rng.pick(&cand)]); // duplicates and self-premises can occur
        }
        let k = if rng.chance(1, 8) { rng.below(nk) } else { home[ci] };
        let km = rng.below(KEY_MODES);
        let qs = if keyed { keys_for(rng, km, &ps) } else { None };
        let op = Op::Ins(ids[ci], k, ps, qs);
        debug_assert!(r.ok(&op));
        r.apply(&op);
        ops.push(op);
    }
    let mut u = ids.clone();
    u.sort();
    let k: Vec<u64> = (0..nk).collect();
    show_case(&u, &k, &ops)
}

fn gen(rng: &mut Rng, n: usize, tier: &str) -> Vec<String> {
    let mut out = Vec::new();
    // exhaustive families (nh handles, <= maxp premises, exactly len ops; prefixes cover the shorter ones)
    let fams: &[(u64, usize, usize)] = if tier == "thorough" {
        &[(5, 2, 4), (4, 1, 5), (2, 2, 6)]
    } else {
        &[(5, 2, 3), (5, 1, 4), (3, 2, 4), (2, 1, 6)]
    };
    for &(nh, maxp, len) in fams {
        let mut hs = vec![];
        enumerate(nh, maxp, len, &mut hs);
        eprintln!("c17 gen: exhaustive family handles<={} premises<={} len={} -> {} canonical well-formed histories", nh, maxp, len, hs.len());
        for h in &hs {
            out.push(concretise(rng, h));
        }
    }
    {
        let mut hs = vec![];
        enumerate_menu(6, &mut hs);
        eprintln!("c17 gen: exhaustive menu family (9 operations over 5 handles) len=6 -> {} well-formed histories", hs.len());
        for h in &hs {
            out.push(concretise(rng, h));
        }
    }
    {
        // one node, up to three single-premise justifications, every invalidation: all words of 7 (thorough 8)
        let len = if tier == "thorough" { 8 } else { 7 };
        let mut hs = vec![];
        enumerate_node_menu(len, &mut hs);
        eprintln!("c17 gen: exhaustive one-node menu family (D<-[P|Q|R], xD, xP, xQ, xR up to renaming) len={} -> {} well-formed histories", len, hs.len());
        for h in &hs {
            out.push(concretise_any(rng, h));
        }
    }
    {
        let mut hs = vec![];
        reproof_family(tier == "thorough", &mut hs);
        eprintln!("c17 gen: constructive re-proof family (k=2..4 justifications, phases before/while/after, all final orders, chains, dependent) -> {} histories", hs.len());
        for (i, h) in hs.iter().enumerate() {
            // every fourth history also with premise_keys unrelated to the premises
            if i % 4 == 3 {
                let m = rng.below(KEY_MODES + 3);
                let h2 = with_keys(rng, h, m);
                out.push(concretise_any(rng, &h2));
            } else {
                out.push(concretise_any(rng, h));
            }
        }
    }
    {
        let mut hs = vec![];
        keys_family(rng, &mut hs);
        // and the smallest exhaustive family once more with a random key mode per insertion
        let mut ex = vec![];
        enumerate(5, 2, 3, &mut ex);
        for h in &ex {
            let m = rng.below(KEY_MODES + 3);
            hs.push(with_keys(rng, h, m));
        }
        eprintln!("c17 gen: premise_keys family (every key mode x premise position x dependent/second justification + keyed 3-op histories) -> {} histories", hs.len());
        for h in &hs {
            out.push(concretise_any(rng, h));
        }
    }
    if tier == "thorough" {
        let mut hs = vec![];
        enumerate_menu(7, &mut hs);
        eprintln!("c17 gen: exhaustive menu family len=7 -> {} well-formed histories", hs.len());
        for h in &hs {
            out.push(concretise(rng, h));
        }
    }
    let maxlen = if tier == "thorough" { 12 } else { 9 };
    for _ in 0..n {
        out.push(random_case(rng, maxlen));
    }
    out
}

fn shrink(case: &str) -> Vec<String> {
    let Some((u, k, ops)) = parse_case(case) else { return vec![] };
    let mut out: Vec<String> = shrink_list(&ops).into_iter().map(|o| show_case(&u, &k, &o)).collect();
    for i in 0..ops.len() {
        if let Op::Ins(h, kk, ps, qs) = &ops[i] {
            if let Some(q) = qs {
                // the default key list first (then the keys did not matter), then shorter key lists
                let mut o2 = ops.clone();
                o2[i] = Op::Ins(*h, *kk, ps.clone(), None);
                out.push(show_case(&u, &k, &o2));
                for j in 0..q.len() {
                    let mut q2 = q.clone();
                    q2.remove(j);
                    let mut o2 = ops.clone();
                    o2[i] = Op::Ins(*h, *kk, ps.clone(), Some(q2));
                    out.push(show_case(&u, &k, &o2));
                }
            }
            for j in 0..ps.len() {
                let mut p2 = ps.clone();
                p2.remove(j);
                let mut o2 = ops.clone();
                o2[i] = Op::Ins(*h, *kk, p2, qs.clone());
                out.push(show_case(&u, &k, &o2));
            }
        }
    }
    out
}

fn main() {
    // `c17 count <nh> <maxp> <len>`: size of an exhaustive family (for the report)
    let args: Vec<String> = std::env::args().collect();
    if args.get(1).map(|s| s.as_str()) == Some("count-menu") {
        let mut hs = vec![];
        enumerate_menu(args[2].parse().unwrap(), &mut hs);
        println!("{}", hs.len());
        return;
    }
    if args.get(1).map(|s| s.as_str()) == Some("count-node-menu") {
        let mut hs = vec![];
        enumerate_node_menu(args[2].parse().unwrap(), &mut hs);
        println!("{}", hs.len());
        return;
    }
    if args.get(1).map(|s| s.as_str()) == Some("count-reproof") {
        let mut hs = vec![];
        reproof_family(args[2] == "full", &mut hs);
        println!("{}", hs.len());
        return;
    }
    if args.get(1).map(|s| s.as_str()) == Some("count") {
        let nh: u64 = args[2].parse().unwrap();
        let maxp: usize = args[3].parse().unwrap();
        let len: usize = args[4].parse().unwrap();
        let mut hs = vec![];
        enumerate(nh, maxp, len, &mut hs);
        println!("{}", hs.len());
        return;
    }
    main_with(Prop { gen, exec, shrink });
}
