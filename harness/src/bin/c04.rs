//! C04 — GRL parser round trip.
//! case := `<stream> <segs> <abstract tokens…>`
//!   stream   ∈ G (documented grammar, string literals with arbitrary content) | M:<class> (one string literal with a GRL
//!              metacharacter in one position — the witnesses of F-C04b, fixed by the literal masking — or a form hit by an
//!              open finding) | T (raw text probe)
//!   segs     = hex(seg0),hex(seg1),…  — the file is the concatenation; odd segments are the texts of single rules
//!              (each is also given to `parse_rule`), even segments are the gaps (whitespace, comments, defmodule blocks)
//!   abstract = the rule list that was rendered, prefix notation (see `Abs` below / Driver/C04.lean); `?` for probes
//! obs  := `<PR> ;; <PM> ;; <P1>` — canonical S-expressions of the values returned by `GRLParser::parse_rules`,
//!         `parse_with_modules(..).rules` and the list of `parse_rule(seg)` results; `=` abbreviates "same rules as PR".
use rre_harness::*;
use rust_rule_engine::engine::rule::{Condition, ConditionExpression, ConditionGroup, Rule};
use rust_rule_engine::parser::grl::GRLParser;
use rust_rule_engine::types::{ActionType, LogicalOperator, Operator, Value};

// ------------------------------------------------------------------ canonical printer (real types)
fn hx(s: &str) -> String {
    hex(s)
}
fn opt_hx(s: &Option<String>) -> String {
    match s {
        Some(s) => hx(s),
        None => "~".into(),
    }
}
fn p_value(v: &Value) -> String {
    match v {
        Value::String(s) => format!("(s {})", hx(s)),
        Value::Number(f) => format!("(n {:016x})", f.to_bits()),
        Value::Integer(i) => format!("(i {})", i),
        Value::Boolean(b) => format!("(b {})", *b as u8),
        Value::Array(a) => {
            let mut s = String::from("(a");
            for x in a {
                s.push(' ');
                s.push_str(&p_value(x));
            }
            s.push(')');
            s
        }
        Value::Object(o) => {
            let mut ks: Vec<_> = o.iter().collect();
            ks.sort_by(|a, b| a.0.cmp(b.0));
            let mut s = String::from("(o");
            for (k, v) in ks {
                s.push_str(&format!(" ({} {})", hx(k), p_value(v)));
            }
            s.push(')');
            s
        }
        Value::Null => "nil".into(),
        Value::Expression(e) => format!("(e {})", hx(e)),
    }
}
fn p_op(o: &Operator) -> &'static str {
    match o {
        Operator::Equal => "eq",
        Operator::NotEqual => "ne",
        Operator::GreaterThan => "gt",
        Operator::GreaterThanOrEqual => "ge",
        Operator::LessThan => "lt",
        Operator::LessThanOrEqual => "le",
        Operator::Contains => "contains",
        Operator::NotContains => "notcontains",
        Operator::StartsWith => "startswith",
        Operator::EndsWith => "endswith",
        Operator::Matches => "matches",
        Operator::In => "in",
    }
}
fn p_strs(xs: &[String]) -> String {
    format!("({})", xs.iter().map(|x| hx(x)).collect::<Vec<_>>().join(" "))
}
fn p_condition(c: &Condition) -> String {
    let e = match &c.expression {
        ConditionExpression::Field(f) => format!("(field {})", hx(f)),
        ConditionExpression::FunctionCall { name, args } => format!("(call {} {})", hx(name), p_strs(args)),
        ConditionExpression::Test { name, args } => format!("(test {} {})", hx(name), p_strs(args)),
        ConditionExpression::MultiField { field, operation, variable } => {
            format!("(multi {} {} {})", hx(field), hx(operation), opt_hx(variable))
        }
    };
    format!("(single {} {} {})", e, p_op(&c.operator), p_value(&c.value))
}
fn p_group(g: &ConditionGroup) -> String {
    match g {
        ConditionGroup::Single(c) => p_condition(c),
        ConditionGroup::Compound { left, operator, right } => {
            let o = match operator {
                LogicalOperator::And => "and",
                LogicalOperator::Or => "or",
                LogicalOperator::Not => "notop",
            };
            format!("({} {} {})", o, p_group(left), p_group(right))
        }
        ConditionGroup::Not(c) => format!("(not {})", p_group(c)),
        ConditionGroup::Exists(c) => format!("(exists {})", p_group(c)),
        ConditionGroup::Forall(c) => format!("(forall {})", p_group(c)),
        other => format!("(other {})", hx(&format!("{:?}", other))),
    }
}
fn p_action(a: &ActionType) -> String {
    match a {
        ActionType::Set { field, value } => format!("(set {} {})", hx(field), p_value(value)),
        ActionType::Log { message } => format!("(log {})", hx(message)),
        ActionType::MethodCall { object, method, args } => format!(
            "(method {} {} ({}))",
            hx(object),
            hx(method),
            args.iter().map(p_value).collect::<Vec<_>>().join(" ")
        ),
        ActionType::Retract { object } => format!("(retract {})", hx(object)),
        ActionType::Custom { action_type, params } => {
            let mut ks: Vec<_> = params.iter().collect();
            // params is a HashMap keyed by the argument position ("0", "1", …): positions in numeric order (same as the string order
            // below 11 arguments), any other key after them in string order
            ks.sort_by(|a, b| match (a.0.parse::<u64>(), b.0.parse::<u64>()) {
                (Ok(x), Ok(y)) if a.0.len() == x.to_string().len() && b.0.len() == y.to_string().len() => x.cmp(&y),
                _ => a.0.cmp(b.0),
            });
            format!(
                "(custom {} ({}))",
                hx(action_type),
                ks.iter().map(|(k, v)| format!("({} {})", hx(k), p_value(v))).collect::<Vec<_>>().join(" ")
            )
        }
        ActionType::ActivateAgendaGroup { group } => format!("(activate {})", hx(group)),
        ActionType::ScheduleRule { rule_name, delay_ms } => format!("(schedule {} {})", hx(rule_name), delay_ms),
        ActionType::CompleteWorkflow { workflow_name } => format!("(complete {})", hx(workflow_name)),
        ActionType::SetWorkflowData { key, value } => format!("(wfdata {} {})", hx(key), p_value(value)),
        ActionType::Append { field, value } => format!("(append {} {})", hx(field), p_value(value)),
    }
}
fn p_rule(r: &Rule) -> String {
    let de = match &r.date_effective {
        Some(d) => d.timestamp().to_string(),
        None => "~".into(),
    };
    let dx = match &r.date_expires {
        Some(d) => d.timestamp().to_string(),
        None => "~".into(),
    };
    format!(
        "(rule {} {} {} {} {} {} {} {} {} {} {} ({}))",
        hx(&r.name),
        opt_hx(&r.description),
        r.salience,
        r.enabled as u8,
        r.no_loop as u8,
        r.lock_on_active as u8,
        opt_hx(&r.agenda_group),
        opt_hx(&r.activation_group),
        de,
        dx,
        p_group(&r.conditions),
        r.actions.iter().map(p_action).collect::<Vec<_>>().join(" ")
    )
}
fn p_rules(rs: &[String]) -> String {
    if rs.is_empty() {
        "(ok)".into()
    } else {
        format!("(ok {})", rs.join(" "))
    }
}

fn exec(case: &str) -> String {
    let t: Vec<&str> = case.split_whitespace().collect();
    if t.len() < 2 {
        return "bad-case".into();
    }
    let segs: Option<Vec<String>> = t[1].split(',').map(unhex).collect();
    let Some(segs) = segs else { return "bad-case".into() };
    let full: String = segs.concat();
    let pr = match GRLParser::parse_rules(&full) {
        Ok(rs) => p_rules(&rs.iter().map(p_rule).collect::<Vec<_>>()),
        Err(_) => "(err)".to_string(),
    };
    let pm = match GRLParser::parse_with_modules(&full) {
        Ok(p) => p_rules(&p.rules.iter().map(p_rule).collect::<Vec<_>>()),
        Err(_) => "(err)".to_string(),
    };
    let mut singles = Vec::new();
    let mut all_ok = true;
    for (i, s) in segs.iter().enumerate() {
        if i % 2 == 1 {
            match GRLParser::parse_rule(s) {
                Ok(r) => singles.push(p_rule(&r)),
                Err(_) => {
                    all_ok = false;
                    singles.push("(err)".into())
                }
            }
        }
    }
    let p1 = if all_ok { p_rules(&singles) } else { format!("(mixed {})", singles.join(" ")) };
    format!("{} ;; {} ;; {}", pr, if pm == pr { "=".to_string() } else { pm }, if p1 == pr { "=".to_string() } else { p1 })
}

// ------------------------------------------------------------------ abstract grammar
#[derive(Clone)]
enum Lit {
    Int(i64),
    Float(String),
    Str(char, String),
    Bool(bool),
    Null,
    Arr(Vec<Lit>),
    Ident(String),
    Path(String),
    Arith(String),
}
impl Lit {
    /// a string literal written with a quote kind its body does not contain
    fn fit(self) -> Lit {
        match self {
            Lit::Str(q, s) => Lit::Str(if s.contains('"') { '\'' } else if s.contains('\'') { '"' } else { q }, s),
            o => o,
        }
    }
}
#[derive(Clone)]
enum Atom {
    Cmp(String, &'static str, Lit),
    Arith(String, &'static str, Lit),
    Call(String, Vec<String>, &'static str, Lit),
    Test(String, Vec<String>),
    MCount(String, &'static str, Lit),
    MFirst(String, Option<String>),
    MLast(String, Option<String>),
    MEmpty(String),
    MNotEmpty(String),
    MCollect(String, String),
}
#[derive(Clone)]
enum Cond {
    Atom(Atom),
    And(Box<Cond>, Box<Cond>),
    Or(Box<Cond>, Box<Cond>),
    Not(Box<Cond>),
    Ex(Box<Cond>),
    Fa(Box<Cond>),
}
#[derive(Clone)]
enum Stmt {
    Set(String, Lit),
    Append(String, Lit),
    Call(String, Vec<Lit>),
    Retract(String),
    Log(Lit),
    Activate(String),
    Schedule(u64, String),
    Complete(String),
    WfData(String, Lit),
    Method(String, String, Vec<Lit>),
}
#[derive(Clone)]
struct RuleA {
    name: String,
    quoted: bool,
    desc: Option<String>,
    salience: Option<i32>,
    no_loop: Option<bool>, // Some(true) = `no-loop true`, Some(false) = bare `no-loop`
    lock: Option<bool>,
    ag: Option<String>,
    actg: Option<String>,
    de: Option<String>,
    dx: Option<String>,
    cond: Cond,
    stmts: Vec<Stmt>,
}

/// (symbol in the text, token of the abstract form)
const OPS: [(&str, &str); 11] = [
    ("==", "eq"), ("!=", "ne"), (">", "gt"), (">=", "ge"), ("<", "lt"), ("<=", "le"),
    ("contains", "contains"), ("startsWith", "startswith"), ("endsWith", "endswith"), ("matches", "matches"), ("in", "in"),
];
fn op_tok(sym: &str) -> &'static str {
    OPS.iter().find(|o| o.0 == sym).unwrap().1
}

// ---- abstract form on the wire (prefix notation; parsed by Driver/C04.lean)
fn a_lit(l: &Lit, out: &mut Vec<String>) {
    match l {
        Lit::Int(i) => out.push(format!("i {}", i)),
        Lit::Float(t) => out.push(format!("f {} {:016x}", hex(t), t.parse::<f64>().unwrap().to_bits())),
        Lit::Str(q, s) => out.push(format!("s {} {}", if *q == '"' { "d" } else { "s" }, hex(s))),
        Lit::Bool(b) => out.push(format!("b {}", *b as u8)),
        Lit::Null => out.push("nil".into()),
        Lit::Arr(xs) => {
            out.push(format!("a {}", xs.len()));
            for x in xs {
                a_lit(x, out)
            }
        }
        Lit::Ident(s) => out.push(format!("id {}", hex(s))),
        Lit::Path(s) => out.push(format!("path {}", hex(s))),
        Lit::Arith(s) => out.push(format!("expr {}", hex(s))),
    }
}
fn a_strs(xs: &[String]) -> String {
    let mut s = xs.len().to_string();
    for x in xs {
        s.push(' ');
        s.push_str(&hex(x));
    }
    s
}
fn a_opt(x: &Option<String>) -> String {
    match x {
        Some(s) => hex(s),
        None => "~".into(),
    }
}
fn a_cond(c: &Cond, out: &mut Vec<String>) {
    match c {
        Cond::And(a, b) => {
            out.push("A".into());
            a_cond(a, out);
            a_cond(b, out)
        }
        Cond::Or(a, b) => {
            out.push("O".into());
            a_cond(a, out);
            a_cond(b, out)
        }
        Cond::Not(a) => {
            out.push("!".into());
            a_cond(a, out)
        }
        Cond::Ex(a) => {
            out.push("E".into());
            a_cond(a, out)
        }
        Cond::Fa(a) => {
            out.push("F".into());
            a_cond(a, out)
        }
        Cond::Atom(a) => match a {
            Atom::Cmp(f, o, v) => {
                out.push(format!("cmp {} {}", hex(f), op_tok(o)));
                a_lit(v, out)
            }
            Atom::Arith(l, o, v) => out.push(format!("ar {} {} {}", hex(l), hex(o), hex(&r_lit_plain(v)))),
            Atom::Call(f, args, o, v) => {
                out.push(format!("call {} {} {}", hex(f), a_strs(args), op_tok(o)));
                a_lit(v, out)
            }
            Atom::Test(f, args) => out.push(format!("test {} {}", hex(f), a_strs(args))),
            Atom::MCount(f, o, v) => {
                out.push(format!("mcount {} {}", hex(f), op_tok(o)));
                a_lit(v, out)
            }
            Atom::MFirst(f, v) => out.push(format!("mfirst {} {}", hex(f), a_opt(v))),
            Atom::MLast(f, v) => out.push(format!("mlast {} {}", hex(f), a_opt(v))),
            Atom::MEmpty(f) => out.push(format!("mempty {}", hex(f))),
            Atom::MNotEmpty(f) => out.push(format!("mnotempty {}", hex(f))),
            Atom::MCollect(f, v) => out.push(format!("mcollect {} {}", hex(f), hex(v))),
        },
    }
}
fn a_lits(xs: &[Lit], out: &mut Vec<String>) {
    out.push(xs.len().to_string());
    for x in xs {
        a_lit(x, out)
    }
}
fn a_stmt(s: &Stmt, out: &mut Vec<String>) {
    match s {
        Stmt::Set(f, v) => {
            out.push(format!("set {}", hex(f)));
            a_lit(v, out)
        }
        Stmt::Append(f, v) => {
            out.push(format!("app {}", hex(f)));
            a_lit(v, out)
        }
        Stmt::Call(f, args) => {
            out.push(format!("fn {}", hex(f)));
            a_lits(args, out)
        }
        Stmt::Retract(o) => out.push(format!("ret {}", hex(o))),
        Stmt::Log(v) => {
            out.push("log".into());
            a_lit(v, out)
        }
        Stmt::Activate(g) => out.push(format!("act {}", hex(g))),
        Stmt::Schedule(d, r) => out.push(format!("sch {} {}", d, hex(r))),
        Stmt::Complete(w) => out.push(format!("done {}", hex(w))),
        Stmt::WfData(k, v) => {
            out.push(format!("wf {}", hex(k)));
            a_lit(v, out)
        }
        Stmt::Method(o, m, args) => {
            out.push(format!("meth {} {}", hex(o), hex(m)));
            a_lits(args, out)
        }
    }
}
fn a_rule(r: &RuleA) -> String {
    let mut out = vec![format!(
        "R {} {} {} {} {} {} {} {}",
        hex(&r.name),
        r.salience.unwrap_or(0),
        r.no_loop.is_some() as u8,
        r.lock.is_some() as u8,
        a_opt(&r.ag),
        a_opt(&r.actg),
        a_opt(&r.de),
        a_opt(&r.dx)
    )];
    a_cond(&r.cond, &mut out);
    out.push(r.stmts.len().to_string());
    for s in &r.stmts {
        a_stmt(s, &mut out)
    }
    out.join(" ")
}

fn pk(rng: &mut Rng, xs: &[&'static str]) -> &'static str {
    xs[rng.below(xs.len() as u64) as usize]
}

// ------------------------------------------------------------------ layout
const COMMENT_WORDS: [&str; 18] = [
    "check", "the tier", "rule applies", "rule x {", "}", "{", "a && b", "c || d", ";", "then", "when", "salience 99", "\"quoted\"", "don't",
    "no-loop", "x = 1", "(", "日本語 é",
];
fn comment_text(rng: &mut Rng) -> String {
    let n = rng.range(0, 3);
    (0..n).map(|_| pk(rng, &COMMENT_WORDS).to_string()).collect::<Vec<_>>().join(" ")
}
/// layout strength: 0 = single spaces only, 1 = mixed white space, 2 = white space and comments
#[derive(Clone, Copy)]
struct Lay(u8);
/// mandatory white space
fn ws(rng: &mut Rng, l: Lay) -> String {
    if l.0 == 0 {
        return " ".into();
    }
    let k = rng.below(if l.0 >= 2 { 12 } else { 8 });
    match k {
        0..=3 => " ".into(),
        4 => "  ".into(),
        5 => "\n".into(),
        6 => "\n    ".into(),
        7 => if rng.chance(1, 2) { "\t".into() } else { "\r\n  ".into() },
        8 | 9 => format!(" /* {} */ ", comment_text(rng).replace("*/", "")),
        10 => format!(" // {}\n", comment_text(rng)),
        _ => format!("\n// {}\n  ", comment_text(rng)),
    }
}
/// optional white space
fn ows(rng: &mut Rng, l: Lay) -> String {
    if l.0 == 0 || rng.chance(1, 2) {
        String::new()
    } else {
        ws(rng, l)
    }
}
/// white space where the plain layout has one blank
fn sp(rng: &mut Rng, l: Lay) -> String {
    if l.0 == 0 { " ".into() } else { ws(rng, l) }
}

// ------------------------------------------------------------------ rendering
fn r_lit_plain(l: &Lit) -> String {
    match l {
        Lit::Int(i) => i.to_string(),
        Lit::Float(t) => t.clone(),
        Lit::Str(q, s) => format!("{}{}{}", q, s, q),
        Lit::Bool(b) => b.to_string(),
        Lit::Null => "null".into(),
        Lit::Arr(xs) => format!("[{}]", xs.iter().map(r_lit_plain).collect::<Vec<_>>().join(", ")),
        Lit::Ident(s) | Lit::Path(s) | Lit::Arith(s) => s.clone(),
    }
}
fn r_lit(l: &Lit, rng: &mut Rng, lay: Lay) -> String {
    match l {
        Lit::Arr(xs) => {
            let mut s = String::from("[");
            s.push_str(&ows(rng, lay));
            for (i, x) in xs.iter().enumerate() {
                if i > 0 {
                    s.push_str(&ows(rng, lay));
                    s.push(',');
                    s.push_str(&ows(rng, lay));
                }
                s.push_str(&r_lit_plain(x));
            }
            s.push_str(&ows(rng, lay));
            s.push(']');
            s
        }
        _ => r_lit_plain(l),
    }
}
fn is_word_op(o: &str) -> bool {
    o.chars().next().unwrap().is_alphabetic()
}
fn r_opv(o: &str, v: &str, rng: &mut Rng, lay: Lay) -> String {
    if is_word_op(o) {
        format!("{}{}{}{}", ws(rng, lay), o, ws(rng, lay), v)
    } else {
        let a = if lay.0 == 0 { " ".to_string() } else { ows(rng, lay) };
        let b = if lay.0 == 0 { " ".to_string() } else { ows(rng, lay) };
        format!("{}{}{}{}", a, o, b, v)
    }
}
fn r_args(args: &[String], rng: &mut Rng, lay: Lay) -> String {
    let mut s = ows(rng, lay);
    for (i, a) in args.iter().enumerate() {
        if i > 0 {
            s.push_str(&ows(rng, lay));
            s.push(',');
            s.push_str(&sp(rng, lay));
        }
        s.push_str(a);
    }
    s.push_str(&ows(rng, lay));
    s
}
fn r_atom(a: &Atom, rng: &mut Rng, lay: Lay) -> String {
    match a {
        Atom::Cmp(f, o, v) => {
            let v = r_lit(v, rng, lay);
            format!("{}{}", f, r_opv(o, &v, rng, lay))
        }
        Atom::Arith(l, o, v) => format!("{}{}", l, r_opv(o, &r_lit_plain(v), rng, lay)),
        Atom::Call(f, args, o, v) => {
            let v = r_lit(v, rng, lay);
            format!("{}({}){}", f, r_args(args, rng, lay), r_opv(o, &v, rng, lay))
        }
        Atom::Test(f, args) => format!("test({}{}({}){})", ows(rng, lay), f, r_args(args, rng, lay), ows(rng, lay)),
        Atom::MCount(f, o, v) => {
            let v = r_lit(v, rng, lay);
            format!("{}{}count{}", f, ws(rng, lay), r_opv(o, &v, rng, lay))
        }
        Atom::MFirst(f, v) => match v {
            Some(v) => format!("{}{}first{}{}", f, ws(rng, lay), ws(rng, lay), v),
            None => format!("{}{}first", f, ws(rng, lay)),
        },
        Atom::MLast(f, v) => match v {
            Some(v) => format!("{}{}last{}{}", f, ws(rng, lay), ws(rng, lay), v),
            None => format!("{}{}last", f, ws(rng, lay)),
        },
        Atom::MEmpty(f) => format!("{}{}empty", f, ws(rng, lay)),
        Atom::MNotEmpty(f) => format!("{}{}not_empty", f, ws(rng, lay)),
        Atom::MCollect(f, v) => format!("{}{}{}", f, ws(rng, lay), v),
    }
}
/// precedence levels: 0 = disjunction allowed, 1 = conjunction allowed, 2 = operand of `!` / right operand of `&&`
fn r_cond(c: &Cond, level: u8, rng: &mut Rng, lay: Lay) -> String {
    let own = match c {
        Cond::Or(..) => 0,
        Cond::And(..) => 1,
        _ => 2,
    };
    let extra = lay.0 > 0 && rng.chance(1, 6);
    if own < level || extra {
        let inner = r_cond(c, 0, rng, lay);
        return format!("({}{}{})", ows(rng, lay), inner, ows(rng, lay));
    }
    match c {
        Cond::Or(a, b) => {
            let l = r_cond(a, 0, rng, lay);
            let r = r_cond(b, 1, rng, lay);
            format!("{}{}||{}{}", l, sp(rng, lay), sp(rng, lay), r)
        }
        Cond::And(a, b) => {
            let l = r_cond(a, 1, rng, lay);
            let r = r_cond(b, 2, rng, lay);
            format!("{}{}&&{}{}", l, sp(rng, lay), sp(rng, lay), r)
        }
        Cond::Not(a) => format!("!{}{}", ows(rng, lay), r_cond(a, 2, rng, lay)),
        Cond::Ex(a) => format!("exists({}{}{})", ows(rng, lay), r_cond(a, 0, rng, lay), ows(rng, lay)),
        Cond::Fa(a) => format!("forall({}{}{})", ows(rng, lay), r_cond(a, 0, rng, lay), ows(rng, lay)),
        Cond::Atom(a) => r_atom(a, rng, lay),
    }
}
fn r_call(f: &str, args: &[Lit], rng: &mut Rng, lay: Lay) -> String {
    let a: Vec<String> = args.iter().map(r_lit_plain).collect();
    format!("{}({})", f, r_args(&a, rng, lay))
}
fn r_stmt(s: &Stmt, rng: &mut Rng, lay: Lay) -> String {
    match s {
        Stmt::Set(f, v) => format!("{}{}={}{}", f, sp(rng, lay), sp(rng, lay), r_lit(v, rng, lay)),
        Stmt::Append(f, v) => format!("{}{}+={}{}", f, sp(rng, lay), sp(rng, lay), r_lit(v, rng, lay)),
        Stmt::Call(f, args) => r_call(f, args, rng, lay),
        Stmt::Retract(o) => format!("{}(${})", if rng.chance(1, 2) { "retract" } else { "Retract" }, o),
        Stmt::Log(v) => format!("{}({}{}{})", if rng.chance(1, 2) { "log" } else { "Log" }, ows(rng, lay), r_lit_plain(v), ows(rng, lay)),
        Stmt::Activate(g) => format!("ActivateAgendaGroup({}\"{}\"{})", ows(rng, lay), g, ows(rng, lay)),
        Stmt::Schedule(d, r) => format!("ScheduleRule({}{},{}\"{}\"{})", ows(rng, lay), d, sp(rng, lay), r, ows(rng, lay)),
        Stmt::Complete(w) => format!("CompleteWorkflow({}\"{}\"{})", ows(rng, lay), w, ows(rng, lay)),
        Stmt::WfData(k, v) => format!("SetWorkflowData(\"{}={}\")", k, match v { Lit::Str(_, s) => s.clone(), o => r_lit_plain(o) }),
        Stmt::Method(o, m, args) => format!("${}.{}", o, r_call(m, args, rng, lay)),
    }
}
fn r_rule(r: &RuleA, rng: &mut Rng, lay: Lay) -> String {
    let mut s = String::from("rule");
    s.push_str(&ws(rng, lay));
    if r.quoted {
        s.push_str(&format!("\"{}\"", r.name));
    } else {
        s.push_str(&r.name);
    }
    if let Some(d) = &r.desc {
        s.push_str(&ws(rng, lay));
        s.push_str(&format!("\"{}\"", d));
    }
    let mut attrs: Vec<String> = Vec::new();
    if let Some(v) = r.salience {
        attrs.push(format!("salience{}{}", ws(rng, lay), v));
    }
    if let Some(t) = r.no_loop {
        attrs.push(if t { format!("no-loop{}true", ws(rng, lay)) } else { "no-loop".into() });
    }
    if let Some(t) = r.lock {
        attrs.push(if t { format!("lock-on-active{}true", ws(rng, lay)) } else { "lock-on-active".into() });
    }
    if let Some(g) = &r.ag {
        attrs.push(format!("agenda-group{}\"{}\"", ws(rng, lay), g));
    }
    if let Some(g) = &r.actg {
        attrs.push(format!("activation-group{}\"{}\"", ws(rng, lay), g));
    }
    if let Some(g) = &r.de {
        attrs.push(format!("date-effective{}\"{}\"", ws(rng, lay), g));
    }
    if let Some(g) = &r.dx {
        attrs.push(format!("date-expires{}\"{}\"", ws(rng, lay), g));
    }
    rng.shuffle(&mut attrs);
    for a in attrs {
        s.push_str(&ws(rng, lay));
        s.push_str(&a);
    }
    s.push_str(&sp(rng, lay));
    s.push('{');
    s.push_str(&sp(rng, lay));
    s.push_str("when");
    s.push_str(&ws(rng, lay));
    s.push_str(&r_cond(&r.cond, 0, rng, lay));
    s.push_str(&ws(rng, lay));
    s.push_str("then");
    s.push_str(&ws(rng, lay));
    let n = r.stmts.len();
    for (i, st) in r.stmts.iter().enumerate() {
        s.push_str(&r_stmt(st, rng, lay));
        if i + 1 < n || rng.chance(5, 6) {
            s.push_str(&ows(rng, lay));
            s.push(';');
        }
        s.push_str(&sp(rng, lay));
    }
    s.push('}');
    s
}
fn r_gap(rng: &mut Rng, lay: Lay, first: bool, allow_modules: bool) -> String {
    let mut s = if first && rng.chance(1, 2) { String::new() } else { ws(rng, lay) };
    if lay.0 >= 2 {
        for _ in 0..rng.below(3) {
            match rng.below(4) {
                0 => s.push_str(&format!("\n// {}\n", comment_text(rng))),
                1 => s.push_str(&format!("\n/* {}\n   {} */\n", comment_text(rng).replace("*/", ""), comment_text(rng).replace("*/", ""))),
                2 => s.push_str(&format!("\n;; MODULE: {} - notes\n", pk(rng, &["SENSORS", "CONTROL", "ALERT"]))),
                _ => {
                    if allow_modules {
                        s.push_str(&format!("\ndefmodule {} {{\n  export: {}\n}}\n", pk(rng, &["SENSORS", "CONTROL", "ALERT", "M_1"]), pk(rng, &["all", "none"])));
                    }
                }
            }
        }
        s.push_str(&ws(rng, lay));
    }
    s
}

// ------------------------------------------------------------------ generators
const IDENTS: [&str; 14] = ["x", "moq", "is_active", "shortage", "Total", "_tmp", "order_qty", "v2", "threshold", "rule_count", "whenever", "thenx", "in_stock", "count1"];
const OBJS: [&str; 8] = ["User", "Order", "Customer", "Facts", "item", "hvac", "Product", "cart_1"];
const FIELDS: [&str; 10] = ["age", "Age", "status", "total", "tier", "is_vip", "L1Min", "items", "in_stock", "contains_x"];
const FUNCS: [&str; 8] = ["aiSentiment", "calc", "len", "max_of", "isValid", "f", "checkTier", "score2"];
const ACTFUNCS: [&str; 9] = ["println", "apply_discount", "sendEmail", "set", "update", "notify_all", "LogInfo", "emit", "f2"];
const STR_SAFE: [&str; 24] = [
    "active", "gold", "US", "hello world", "a b  c", "New York", "x_1", "", "pending", "2025-11-20", "http://example.com/a", "/* not a comment */", "50% off",
    "it's", "say \"hi\"", "é", "日本語", "🚨 ALERT", "naïve café", "a.b", "rule x", "when", "<tag>", "a // b",
];
/// string literal bodies with GRL metacharacters / keywords: opaque to the parser since the literal masking (F-C04b)
const STR_META: [&str; 42] = [
    "a}b", "}", "{x}", "{", "a && b", "&&", "a || b", "||", "go then stop", "if x then y", " then ", "(", "a)", ":-(", "((", "a;b", ";", "a=b", "x == y",
    "Hello, world", ",", "a += b", "+=", "rule \"x\" { when a then b; }", "rule y {", "salience 99", "no-loop", "when x", "exists(a)", "!x", "defmodule M { export: all }",
    "[1, 2]", "a != b && c", "x > 1", "f(x) == 2", "key=value", "\u{1}0\u{2}", "\u{1}1\u{2} \u{1}+0\u{2}", "\u{1}41_\u{2}", "\u{1}", "_\u{2}", "don't } stop",
];
/// string-literal bodies for the ARGUMENTS of a function-call leaf `f(a, b) op v` / `test(f(a, b))`: the argument list is cut out
/// with `[^)]*`, split at ',' and trimmed AFTER the masking — the separators themselves, and everything else a condition scanner
/// looks for, must stay inside the literal (seeded C04-9: unmask before the split)
const ARG_PAYLOADS: [&str; 34] = [
    "red,green", "Doe, John", ",", ",,", "a,b,c", ", ", " ,", "x,", ",x", "1,000.50", "true, false", "f(a, b)", "a) , (b", "), (", "a && b, c || d",
    "a;b,c", "{a, b}", "a // b, c", "/* a, b */", "it's, ok", "say \"hi\", you", "when x, then y", "x then y, z", "User.age, 3", "[1, 2], [3]",
    "== 1, != 2", "test(f(a, b))", "g(x, 'y') == 1", "\u{1}0\u{2},\u{1}1\u{2}", "日本,語", "é, ü", "  padded , both  ", "rule \"x\" { when a, b then c; }", "in [1, 2]",
];
/// a literal as written: the quote kind that fits the body (there is no escape syntax), else `prefer`
fn quote_lit(body: &str, prefer: char) -> String {
    let q = if body.contains('"') { '\'' } else if body.contains('\'') { '"' } else { prefer };
    format!("{}{}{}", q, body, q)
}
/// one argument of a function-call / test leaf, as written: field, number, identifier or STRING LITERAL (adversarial body one in two)
fn g_call_arg(rng: &mut Rng) -> String {
    match rng.below(8) {
        0 | 1 => path(rng),
        2 => if rng.chance(1, 3) { g_float(rng) } else if rng.chance(1, 3) { format!("-{}", rng.below(50)) } else { rng.below(50).to_string() },
        3 => pk(rng, &IDENTS).to_string(),
        4 => pk(rng, &["true", "false", "null"]).to_string(),
        _ => {
            let b = match rng.below(4) { 0 | 1 => pk(rng, &ARG_PAYLOADS), 2 => pk(rng, &STR_META), _ => pk(rng, &STR_SAFE) };
            quote_lit(b, if rng.chance(1, 3) { '\'' } else { '"' })
        }
    }
}
/// an argument vector with at most two dotted fields (keeps the leaf short: F-C05h) 
fn g_call_args(rng: &mut Rng, max: u64) -> Vec<String> {
    let mut paths = 0;
    (0..rng.below(max + 1)).map(|_| loop {
        let a = g_call_arg(rng);
        let is_path = !a.starts_with('"') && !a.starts_with('\'') && a.contains('.') && a.chars().next().map_or(false, |c| c.is_alphabetic());
        if is_path { if paths >= 2 { continue; } paths += 1; }
        break a;
    }).collect()
}
fn path(rng: &mut Rng) -> String {
    let mut s = format!("{}.{}", pk(rng, &OBJS), pk(rng, &FIELDS));
    if rng.chance(1, 5) {
        s.push('.');
        s.push_str(pk(rng, &FIELDS));
    }
    s
}
fn path2(rng: &mut Rng) -> String {
    format!("{}.{}", pk(rng, &OBJS), pk(rng, &FIELDS))
}
fn g_str(rng: &mut Rng) -> Lit {
    let s = if rng.chance(1, 3) { pk(rng, &STR_META).to_string() } else { pk(rng, &STR_SAFE).to_string() };
    let q = if s.contains('"') {
        '\''
    } else if s.contains('\'') {
        '"'
    } else if rng.chance(1, 4) {
        '\''
    } else {
        '"'
    };
    Lit::Str(q, s)
}
/// boundary integers: 0, +-1, around 2^31 (the i32 ends), around 2^53 (the last integers f64 holds exactly), the i64 ends
const INT_BOUNDS: [i64; 18] = [
    0, 1, -1, 2147483647, 2147483648, 2147483649, -2147483648, -2147483649, 9007199254740991, 9007199254740992, 9007199254740993,
    -9007199254740993, i64::MAX, i64::MIN, i64::MAX - 1, i64::MIN + 1, 4294967295, 4294967296,
];
fn g_int(rng: &mut Rng) -> i64 {
    match rng.below(9) {
        8 => *rng.pick(&INT_BOUNDS),
        0 => i64::MAX,
        1 => i64::MIN,
        2 => 0,
        3 => -(rng.below(1000) as i64),
        4 => rng.next() as i64,
        _ => rng.below(100000) as i64,
    }
}
fn g_float(rng: &mut Rng) -> String {
    let ip = match rng.below(4) {
        0 => 0,
        1 => rng.below(10),
        2 => rng.below(10000),
        _ => rng.below(100000000),
    };
    let nd = rng.range(1, 7) as usize;
    let mut fp = String::new();
    for _ in 0..nd {
        fp.push((b'0' + rng.below(10) as u8) as char);
    }
    format!("{}{}.{}", if rng.chance(1, 4) { "-" } else { "" }, ip, fp)
}
fn g_scalar(rng: &mut Rng) -> Lit {
    match rng.below(11) {
        10 => g_concat(rng),
        0 | 1 => Lit::Int(g_int(rng)),
        2 => Lit::Float(g_float(rng)),
        3 | 4 | 5 => g_str(rng),
        6 => Lit::Bool(rng.chance(1, 2)),
        7 => Lit::Null,
        8 => Lit::Ident(pk(rng, &IDENTS).to_string()),
        _ => Lit::Path(path(rng)),
    }
}
fn g_arith(rng: &mut Rng, parens: bool) -> String {
    let operand = |rng: &mut Rng| match rng.below(3) {
        0 => path2(rng),
        1 => rng.below(100).to_string(),
        _ => format!("{}.{}", rng.below(10), rng.below(100)),
    };
    let op = pk(rng, &["+", "-", "*", "/", "%"]);
    if parens && rng.chance(1, 2) {
        format!("{} {} ({} {} {})", path2(rng), op, operand(rng), pk(rng, &["+", "-"]), path2(rng))
    } else if rng.chance(1, 3) {
        format!("{} {} {} {} {}", path2(rng), op, operand(rng), pk(rng, &["+", "-", "*"]), operand(rng))
    } else {
        format!("{} {} {}", path2(rng), op, operand(rng))
    }
}
/// one operand of a string concatenation: `L` literal written with quote `q` (None: any quote that fits the body), `F` dotted field,
/// `I` identifier, `N` number
fn concat_operand(rng: &mut Rng, kind: char, q: Option<char>) -> String {
    match kind {
        'L' => {
            // a body that does not contain the quote it is written with (there is no escape syntax); one in five is empty
            let b = loop {
                let b = if rng.chance(1, 5) { "" } else if rng.chance(1, 3) { pk(rng, &STR_META) } else { pk(rng, &STR_SAFE) };
                if q.map_or(true, |q| !b.contains(q)) {
                    break b;
                }
            };
            let q = q.unwrap_or_else(|| if b.contains('"') { '\'' } else if b.contains('\'') || rng.chance(1, 2) { '"' } else { '\'' });
            format!("{}{}{}", q, b, q)
        }
        'F' => path(rng),
        'I' => pk(rng, &IDENTS).to_string(),
        _ => if rng.chance(1, 3) { g_float(rng).trim_start_matches('-').to_string() } else { rng.below(1000).to_string() },
    }
}
/// the shapes of a string concatenation (documented: `Msg.text = "Hello, " + User.name + "!";`): which operands are literals.
/// The first five start AND end with a literal: only the inner quote tells them from one literal.
const CONCAT_SHAPES: [&str; 14] = ["LFL", "LL", "LLL", "LIL", "LNL", "LFLFL", "FL", "LF", "FLF", "IL", "LI", "NL", "LFLF", "FLFL"];
/// `operand + operand + …` as one expression text. `q`: the quote character of every literal (None = mixed). The separator has blanks
/// unless a dotted field makes the text an expression anyway (`is_expression`: an operator and (a dot or a blank) OUTSIDE literals).
fn concat_text(rng: &mut Rng, shape: &str, q: Option<char>) -> String {
    let sep = if shape.contains('F') { *rng.pick(&[" + ", " + ", " + ", "+", "  +  ", " +", "+ "]) } else { *rng.pick(&[" + ", " + ", "  +  "]) };
    shape.chars().map(|k| concat_operand(rng, k, q)).collect::<Vec<_>>().join(sep)
}
fn g_concat(rng: &mut Rng) -> Lit {
    let shape = *rng.pick(&CONCAT_SHAPES);
    let q = match rng.below(4) { 0 => Some('\''), 1 => None, _ => Some('"') };
    Lit::Arith(concat_text(rng, shape, q))
}
fn g_value(rng: &mut Rng) -> Lit {
    match rng.below(12) {
        0 => Lit::Arr((0..rng.below(4)).map(|_| match rng.below(7) { 0 | 1 => Lit::Int(g_int(rng)), 2 | 3 => g_str(rng), 4 => g_concat(rng), _ => Lit::Float(g_float(rng)) }).collect()),
        1 => Lit::Arith(g_arith(rng, false)),
        2 => g_concat(rng),
        _ => g_scalar(rng),
    }
}
fn g_sym_op(rng: &mut Rng) -> &'static str {
    OPS[rng.below(6) as usize].0
}
fn g_atom(rng: &mut Rng) -> Atom {
    match rng.below(20) {
        0..=8 => {
            let o = OPS[rng.below(11) as usize].0;
            let f = if rng.chance(1, 5) { pk(rng, &IDENTS).to_string() } else { path(rng) };
            let v = if o == "in" {
                Lit::Arr((0..rng.range(1, 3)).map(|_| if rng.chance(1, 8) { g_concat(rng) } else if rng.chance(1, 2) { g_str(rng) } else { Lit::Int(g_int(rng)) }).collect())
            } else if is_word_op(o) {
                g_str(rng)
            } else {
                g_value(rng)
            };
            Atom::Cmp(f, o, v)
        }
        9 | 10 => {
            let v = match rng.below(5) {
                4 => g_concat(rng),
                0 => Lit::Path(path2(rng)),
                1 => Lit::Float(g_float(rng)),
                2 => g_str(rng),
                _ => Lit::Int(rng.below(1000) as i64),
            };
            Atom::Arith(g_arith(rng, false), g_sym_op(rng), v)
        }
        11 | 12 => {
            let args: Vec<String> = if rng.chance(1, 2) { g_call_args(rng, 4) } else { (0..rng.below(4)).map(|_| match rng.below(3) { 0 => path(rng), 1 => rng.below(50).to_string(), _ => pk(rng, &IDENTS).to_string() }).collect() };
            Atom::Call(pk(rng, &FUNCS).to_string(), args, OPS[rng.below(11) as usize].0, if rng.chance(1, 2) { g_scalar(rng) } else { g_str(rng) })
        }
        13 => {
            let args: Vec<String> = if rng.chance(1, 2) { g_call_args(rng, 4) } else { (0..rng.below(3)).map(|_| if rng.chance(1, 2) { path(rng) } else { pk(rng, &IDENTS).to_string() }).collect() };
            Atom::Test(pk(rng, &FUNCS).to_string(), args)
        }
        14 => Atom::MCount(path2(rng), g_sym_op(rng), Lit::Int(rng.below(20) as i64)),
        15 => Atom::MFirst(path2(rng), None),
        16 => Atom::MLast(path2(rng), None),
        17 => Atom::MEmpty(path2(rng)),
        18 => Atom::MNotEmpty(path2(rng)),
        _ => Atom::MCollect(path2(rng), format!("$?{}", pk(rng, &IDENTS))),
    }
}
fn g_cond(rng: &mut Rng, depth: u32) -> Cond {
    if depth <= 1 || rng.chance(1, 4) {
        return Cond::Atom(g_atom(rng));
    }
    match rng.below(10) {
        0..=3 => Cond::And(Box::new(g_cond(rng, depth - 1)), Box::new(g_cond(rng, depth - 1))),
        4..=6 => Cond::Or(Box::new(g_cond(rng, depth - 1)), Box::new(g_cond(rng, depth - 1))),
        7 => Cond::Not(Box::new(g_cond(rng, depth - 1))),
        8 => Cond::Ex(Box::new(g_cond(rng, depth - 1))),
        _ => Cond::Fa(Box::new(g_cond(rng, depth - 1))),
    }
}
fn simple_name(rng: &mut Rng) -> String {
    pk(rng, &["next-rule", "validation", "wf_1", "Phase 2", "g", "étape", "discounts", "a, b", "x=y; z", "p) q"]).to_string()
}
/// ScheduleRule delays: ordinary millisecond values, and integers that f64 cannot represent exactly (at and around 2^53, odd
/// numbers above it, nanosecond-resolution stamps, around 2^62 / i64::MAX) - the delay must come back as `i as u64`, digit by digit
fn sched_delay(rng: &mut Rng) -> u64 {
    if rng.chance(1, 2) {
        return rng.below(100000);
    }
    const B: [u64; 10] = [
        9007199254740991, 9007199254740992, 9007199254740993, 9007199254740995, 1700000000123456789, 4611686018427387903,
        4611686018427387905, 9223372036854775805, 9223372036854775806, 9223372036854775807,
    ];
    if rng.chance(1, 2) { *rng.pick(&B) } else { (1u64 << 53) + 1 + 2 * rng.below(1u64 << 40) }
}

fn g_stmt(rng: &mut Rng) -> Stmt {
    match rng.below(16) {
        0..=5 => {
            let f = if rng.chance(1, 5) { pk(rng, &IDENTS).to_string() } else { path(rng) };
            let v = if rng.chance(1, 8) { Lit::Arith(g_arith(rng, true)) } else { g_value(rng) };
            Stmt::Set(f, v)
        }
        6 => Stmt::Append(path(rng), g_scalar(rng)),
        7..=9 => {
            let n = rng.below(4);
            let args = (0..n).map(|_| g_scalar(rng)).collect();
            Stmt::Call(pk(rng, &ACTFUNCS).to_string(), args)
        }
        10 => Stmt::Retract(pk(rng, &OBJS).to_string()),
        11 | 12 => Stmt::Log(if rng.chance(1, 5) { Lit::Int(rng.below(100) as i64) } else if rng.chance(1, 5) { g_concat(rng) } else { g_str(rng) }),
        13 => Stmt::Activate(simple_name(rng)),
        14 => Stmt::Schedule(sched_delay(rng), simple_name(rng)),
        _ => Stmt::Complete(simple_name(rng)),
    }
}
const DATES: [&str; 6] = ["2025-12-01", "2024-02-29", "1999-12-31T23:59:59Z", "2025-12-31T10:00:00+07:00", "2030-01-15T08:30:00", "31-12-2025"];
const DESCS: [&str; 14] = [
    "Age verification rule", "uses salience 99 here", "no-loop", "lock-on-active true", "rule x applies when y then z", "décrit la règle", "a // b", "x; y",
    "uses {braces}", "it's } here", "{", "rule z { when a then b; }", "agenda-group 'x'", "/* c */ { }",
];
fn g_rule(rng: &mut Rng, idx: usize, depth: u32) -> RuleA {
    let quoted = rng.chance(2, 3);
    let name = if quoted {
        format!("{}{}", pk(rng, &["Check Age", "R", "règle", "Default Rule", "rule two", "a-b", "salience 5", "x.y", "日本", "a{b}", "x } y", "when a then b", "it's"]), idx)
    } else {
        format!("{}{}", pk(rng, &["CheckAge", "R", "_r", "myrule", "Rule_", "whenX"]), idx)
    };
    let salience = if rng.chance(2, 3) {
        Some(match rng.below(8) {
            0 => i32::MAX,
            1 => i32::MIN,
            2 => 0,
            3 | 4 => -(rng.below(1000) as i32),
            5 => rng.next() as i32,
            _ => rng.below(1000) as i32,
        })
    } else {
        None
    };
    let grp = |rng: &mut Rng| pk(rng, &["validation", "g", "Phase 2", "no-loop", "salience 7", "étape", "g{1}", "a } b", "it's"]).to_string();
    RuleA {
        name,
        quoted,
        desc: if rng.chance(1, 3) { Some(pk(rng, &DESCS).to_string()) } else { None },
        salience,
        no_loop: if rng.chance(1, 3) { Some(rng.chance(1, 2)) } else { None },
        lock: if rng.chance(1, 4) { Some(rng.chance(1, 2)) } else { None },
        ag: if rng.chance(1, 4) { Some(grp(rng)) } else { None },
        actg: if rng.chance(1, 4) { Some(grp(rng)) } else { None },
        de: if rng.chance(1, 6) { Some(pk(rng, &DATES).to_string()) } else { None },
        dx: if rng.chance(1, 6) { Some(pk(rng, &DATES).to_string()) } else { None },
        cond: g_cond(rng, depth),
        stmts: (0..rng.range(1, 4)).map(|_| g_stmt(rng)).collect(),
    }
}
fn assemble(stream: &str, rules: &[RuleA], rng: &mut Rng, lay: Lay) -> String {
    let mut segs = Vec::new();
    segs.push(r_gap(rng, lay, true, true));
    for r in rules {
        segs.push(r_rule(r, rng, lay));
        segs.push(r_gap(rng, lay, false, true));
    }
    format!(
        "{} {} {} {}",
        stream,
        segs.iter().map(|s| hex(s)).collect::<Vec<_>>().join(","),
        rules.len(),
        rules.iter().map(a_rule).collect::<Vec<_>>().join(" ")
    )
    .trim_end()
    .to_string()
}
fn base_rule(rng: &mut Rng) -> RuleA {
    RuleA {
        name: "M".into(),
        quoted: true,
        desc: None,
        salience: Some(rng.below(50) as i32),
        no_loop: None,
        lock: None,
        ag: None,
        actg: None,
        de: None,
        dx: None,
        cond: Cond::Atom(Atom::Cmp("User.tier".into(), "==", Lit::Str('"', "gold".into()))),
        stmts: vec![Stmt::Set("User.ok".into(), Lit::Bool(true))],
    }
}
/// one string literal with a GRL metacharacter in one position (the F-C04b witnesses: must pass since the literal masking),
/// or a form hit by an open finding (wfdata, method, firstvar)
fn g_meta(rng: &mut Rng) -> (String, RuleA) {
    let mut r = base_rule(rng);
    let classes = ["rbrace", "and", "or", "then", "paren", "semicolon", "calleq", "callcomma", "pluseq", "wfdata", "method", "firstvar", "lbrace-header"];
    let c = pk(rng, &classes);
    let cs = |s: &str| Cond::Atom(Atom::Cmp("User.note".into(), "==", Lit::Str('"', s.into())));
    match c {
        "rbrace" => r.cond = cs(pk(rng, &["a}b", "}", "{x}"])),
        "and" => r.cond = cs(pk(rng, &["a && b", "&&"])),
        "or" => r.cond = cs(pk(rng, &["a || b", "||"])),
        "then" => r.cond = cs(pk(rng, &["go then stop", "if x then y"])),
        "paren" => r.cond = Cond::And(Box::new(cs(pk(rng, &["(", "a)", ":-("]))), Box::new(cs("z"))),
        "semicolon" => r.stmts = vec![Stmt::Set("User.msg".into(), Lit::Str('"', pk(rng, &["a;b", ";"]).to_string()))],
        "calleq" => r.stmts = vec![Stmt::Log(Lit::Str('"', pk(rng, &["a=b", "x == y"]).to_string()))],
        "callcomma" => r.stmts = vec![Stmt::Call("sendEmail".into(), vec![Lit::Str('"', "Hello, world".into()), Lit::Int(1)])],
        "pluseq" => r.stmts = vec![Stmt::Set("User.msg".into(), Lit::Str('"', "a += b".into()))],
        "wfdata" => r.stmts = vec![Stmt::WfData("key".into(), Lit::Str('"', "value".into()))],
        "method" => r.stmts = vec![Stmt::Method("Car".into(), "setSpeed".into(), vec![Lit::Int(rng.below(100) as i64)])],
        "firstvar" => {
            r.cond = Cond::Atom(if rng.chance(1, 2) { Atom::MFirst("Queue.tasks".into(), Some("$t".into())) } else { Atom::MLast("Queue.tasks".into(), Some("$t".into())) })
        }
        _ => r.desc = Some("uses {braces}".into()),
    }
    (format!("M:{}", c), r)
}


// ------------------------------------------------------------------ RF family: files rendered by a port of Lean's `renderFile`
// (lean/RreModel/C04/File.lean: `renderCase`).  The stream token is `RF:<layout word>`: one decimal digit per white-space
// slot, drawn in a fixed traversal order; the driver re-renders the case from (layout word, abstract rules) with the Lean
// renderer — the one the whole-file theorems (Theorems3.lean) are about — and compares with the text carried by the case
// (oracle tag `render-agrees` / failure `render-differs`).
struct Sup {
    d: Vec<u8>,
    i: usize,
}
impl Sup {
    fn raw(&mut self) -> Option<u8> {
        if self.i < self.d.len() {
            self.i += 1;
            Some(self.d[self.i - 1])
        } else {
            None
        }
    }
}
const RF_PALETTE: [&str; 9] = [" ", "  ", "\t", "\n", "\n    ", "\r\n  ", " /*/ note } */ ", " // c { then\n", "\n// rule x {\n  "];
/// `popW`
fn rf_w(s: &mut Sup) -> String {
    match s.raw() {
        None => " ".into(),
        Some(i) => RF_PALETTE[(i % 9) as usize].into(),
    }
}
/// `popO`
fn rf_o(s: &mut Sup) -> String {
    match s.raw() {
        None => String::new(),
        Some(i) => {
            if i % 10 == 9 {
                String::new()
            } else {
                RF_PALETTE[(i % 9) as usize].into()
            }
        }
    }
}
/// `renderAtom`
fn rf_atom(a: &Atom) -> String {
    match a {
        Atom::Cmp(f, o, v) => format!("{} {} {}", f, o, r_lit_plain(v)),
        Atom::Arith(l, o, v) => format!("{} {} {}", l, o, r_lit_plain(v)),
        Atom::Call(f, args, o, v) => format!("{}({}) {} {}", f, args.join(", "), o, r_lit_plain(v)),
        Atom::Test(f, args) => format!("test({}({}))", f, args.join(", ")),
        Atom::MCount(f, o, v) => format!("{} count {} {}", f, o, r_lit_plain(v)),
        Atom::MEmpty(f) => format!("{} empty", f),
        Atom::MNotEmpty(f) => format!("{} not_empty", f),
        Atom::MCollect(f, v) => format!("{} {}", f, v),
        Atom::MFirst(..) | Atom::MLast(..) => unreachable!("not in the RF family"),
    }
}
/// `renderStmt`
fn rf_stmt(s: &Stmt) -> String {
    match s {
        Stmt::Set(f, v) => format!("{} = {}", f, r_lit_plain(v)),
        Stmt::Append(f, v) => format!("{} += {}", f, r_lit_plain(v)),
        Stmt::Call(f, args) => format!("{}({})", f, args.iter().map(r_lit_plain).collect::<Vec<_>>().join(", ")),
        Stmt::Retract(o) => format!("Retract(${})", o),
        Stmt::Log(v) => format!("Log({})", r_lit_plain(v)),
        Stmt::Activate(g) => format!("ActivateAgendaGroup(\"{}\")", g),
        Stmt::Complete(w) => format!("CompleteWorkflow(\"{}\")", w),
        Stmt::Schedule(d, r) => format!("ScheduleRule({}, \"{}\")", d, r),
        Stmt::WfData(..) | Stmt::Method(..) => unreachable!("not in the RF family"),
    }
}
/// `layCond`
fn rf_cond(c: &Cond, level: u8, s: &mut Sup) -> String {
    let own = match c {
        Cond::Or(..) => 0,
        Cond::And(..) => 1,
        _ => 2,
    };
    let core = match c {
        Cond::Atom(a) => rf_atom(a),
        Cond::Or(a, b) => {
            let l = rf_cond(a, 0, s);
            let r = rf_cond(b, 1, s);
            let wl = rf_w(s);
            let wr = rf_w(s);
            format!("{}{}||{}{}", l, wl, wr, r)
        }
        Cond::And(a, b) => {
            let l = rf_cond(a, 1, s);
            let r = rf_cond(b, 2, s);
            let wl = rf_w(s);
            let wr = rf_w(s);
            format!("{}{}&&{}{}", l, wl, wr, r)
        }
        Cond::Not(a) => {
            let t = rf_cond(a, 2, s);
            let w = rf_o(s);
            format!("!{}{}", w, t)
        }
        Cond::Ex(a) => {
            let t = rf_cond(a, 0, s);
            let wl = rf_o(s);
            let wr = rf_o(s);
            format!("exists({}{}{})", wl, t, wr)
        }
        Cond::Fa(a) => {
            let t = rf_cond(a, 0, s);
            let wl = rf_o(s);
            let wr = rf_o(s);
            format!("forall({}{}{})", wl, t, wr)
        }
    };
    if own < level {
        let wl = rf_o(s);
        let wr = rf_o(s);
        format!("({}{}{})", wl, core, wr)
    } else {
        core
    }
}
/// `isBareName`
fn rf_is_bare(n: &str) -> bool {
    let mut cs = n.chars();
    match cs.next() {
        Some(c) if c.is_ascii_alphabetic() || c == '_' => n.chars().all(|c| c.is_ascii_alphanumeric() || c == '_'),
        _ => false,
    }
}
/// `toSrc`: (rule text, gap after it)
fn rf_rule(r: &RuleA, s: &mut Sup) -> (String, String) {
    let w0 = rf_w(s);
    let w1 = rf_w(s);
    // `attrsOf`: base order, then `pickAttrs`, then the two slots of every attribute
    let mut base: Vec<(&str, u8, String)> = Vec::new(); // (keyword, 0 = flag / 1 = quoted / 2 = number, value)
    if let Some(v) = r.salience {
        if v != 0 {
            base.push(("salience", 2, v.to_string()));
        }
    }
    if r.no_loop.is_some() {
        base.push(("no-loop", 0, String::new()));
    }
    if r.lock.is_some() {
        base.push(("lock-on-active", 0, String::new()));
    }
    for (k, v) in [("agenda-group", &r.ag), ("activation-group", &r.actg), ("date-effective", &r.de), ("date-expires", &r.dx)] {
        if let Some(v) = v {
            base.push((k, 1, v.clone()));
        }
    }
    let mut ordered = Vec::new();
    while !base.is_empty() {
        match s.raw() {
            None => {
                ordered.append(&mut base);
            }
            Some(d) => {
                let k = (d as usize) % base.len();
                ordered.push(base.remove(k));
            }
        }
    }
    let mut t = format!("rule{}{}{}", w0, if rf_is_bare(&r.name) { r.name.clone() } else { format!("\"{}\"", r.name) }, w1);
    for (kw, kind, v) in ordered {
        let a1 = rf_w(s);
        let a2 = rf_w(s);
        match kind {
            0 => t.push_str(&format!("{}{}", kw, a2)),
            1 => t.push_str(&format!("{}{}\"{}\"{}", kw, a1, v, a2)),
            _ => t.push_str(&format!("{}{}{}{}", kw, a1, v, a2)),
        }
    }
    let w2 = rf_o(s);
    let w3 = rf_w(s);
    let cond = rf_cond(&r.cond, 0, s);
    let w4 = rf_w(s);
    let w5 = rf_w(s);
    t.push_str(&format!("{{{}when{}{}{}then{}", w2, w3, cond, w4, w5));
    for (i, st) in r.stmts.iter().enumerate() {
        let a = if i == 0 { String::new() } else { rf_o(s) };
        let b = rf_o(s);
        t.push_str(&format!("{}{}{};", a, rf_stmt(st), b));
    }
    let w6 = rf_o(s);
    let gap = rf_w(s);
    t.push_str(&w6);
    t.push('}');
    (t, gap)
}
fn rf_fix_cond(c: &mut Cond) {
    match c {
        Cond::And(a, b) | Cond::Or(a, b) => {
            rf_fix_cond(a);
            rf_fix_cond(b)
        }
        Cond::Not(a) | Cond::Ex(a) | Cond::Fa(a) => rf_fix_cond(a),
        Cond::Atom(a) => {
            if let Atom::MFirst(f, _) | Atom::MLast(f, _) = a {
                *a = Atom::MEmpty(f.clone())
            }
        }
    }
}
/// `n` files of the RF family: rules from the grammar generator, restricted to the forms `renderAtom` / `renderStmt` cover
/// (no description, bare flags, no open-finding forms), laid out by a random layout word; strength 0 = blanks only (one line,
/// no comments: the hypotheses of `parseRules_render`), 1 = any white space, 2 = white space and comments
fn rf_cases(rng: &mut Rng, n: usize, maxdepth: u64) -> Vec<String> {
    let mut out = Vec::new();
    for i in 0..n {
        let nr = match rng.below(8) {
            0 => 0,
            1..=3 => 1,
            4 | 5 => 2,
            _ => rng.range(3, 6),
        } as usize;
        let mut rules: Vec<RuleA> = (0..nr)
            .map(|k| {
                let d = rng.range(1, maxdepth) as u32;
                g_rule(rng, k, d)
            })
            .collect();
        for r in rules.iter_mut() {
            r.desc = None;
            if r.salience == Some(0) {
                r.salience = None
            }
            r.no_loop = r.no_loop.map(|_| false);
            r.lock = r.lock.map(|_| false);
            r.quoted = !rf_is_bare(&r.name);
            rf_fix_cond(&mut r.cond);
            for st in r.stmts.iter_mut() {
                if matches!(st, Stmt::WfData(..) | Stmt::Method(..)) {
                    *st = Stmt::Set(path(rng), Lit::Int(g_int(rng)))
                }
            }
            // a later statement that assigns a field called `then` / `when`: `when_then_regex` is lazy — the FIRST ` then ` ends
            // the condition, a ` then ` in the statement list is text (the model's `lazyThen`; `ThenFree` is asked of the condition only)
            if rng.chance(1, 5) {
                r.stmts.push(Stmt::Set(pk(rng, &["then", "when", "rule"]).to_string(), Lit::Int(g_int(rng))));
            }
        }
        let strength = i % 3;
        let len = 40 + 60 * nr + rng.below(40) as usize;
        let digits: Vec<u8> = (0..len)
            .map(|_| match strength {
                0 => if rng.chance(1, 4) { 1 } else { 0 },
                1 => *rng.pick(&[0u8, 0, 1, 2, 3, 4, 5, 9]),
                _ => rng.below(10) as u8,
            })
            .collect();
        let mut sup = Sup { d: digits.clone(), i: 0 };
        let mut segs = vec![rf_o(&mut sup)];
        for r in &rules {
            let (t, g) = rf_rule(r, &mut sup);
            segs.push(t);
            segs.push(g);
        }
        let word: String = digits.iter().map(|d| (b'0' + d) as char).collect();
        out.push(
            format!(
                "RF:{} {} {} {}",
                word,
                segs.iter().map(|s| hex(s)).collect::<Vec<_>>().join(","),
                rules.len(),
                rules.iter().map(a_rule).collect::<Vec<_>>().join(" ")
            )
            .trim_end()
            .to_string(),
        );
    }
    out
}
/// shrunk candidates of an RF case are plain `G` cases (dropping a rule changes what the layout word means)
fn rf_shrink_stream(stream: &str) -> &str {
    if stream.starts_with("RF:") { "G" } else { stream }
}


/// BIG family: files of 2..8 rules whose number of NON-EMPTY string literals (= placeholders of one parse call) is exactly `total`, for
/// totals around every power of ten (the decimal index of a placeholder gains a digit at 10 / 100 / 1000 / 10000). The bulk sits in an
/// `in [..]` list, in the argument list of one function-call action, in a run of Log statements, or is spread over the rules; the LAST
/// three literals are the name, a condition value and an action value of the LAST rule (distinct bodies: a placeholder that is restored
/// wrongly or not at all is visible in the parse result). Own random stream: the other streams keep their cases.
fn big_family(tier: &str, out: &mut Vec<String>) {
    let mut rng = Rng::new(0xB16C04);
    let mut totals: Vec<usize> = vec![9, 10, 11, 12, 99, 100, 101, 102, 999, 1000, 1001, 1002, 1003];
    // (10^4 literals: one spread case costs about a minute - not generated; the 4-digit boundary is the largest one covered)
    let thorough = tier == "thorough";
    let body = |i: usize| format!("s{}", i);
    for (ti, total) in totals.iter().copied().enumerate() {
        for shape in 0..4usize {
            // the big cases are expensive: below 1000 every shape, from 999 on two shapes per total (rotating), from 9999 on one
            // cost at 1000 literals (release build): call arguments 4.5 s, Log statements 15 .. 20 s, spread 1 s: the quick tier runs the
            // spread shape for 999 / 1001 / 1003, the thorough tier every total in the spread and the call-argument shape
            if total >= 900 && !(shape == 3 && (thorough || total % 2 == 1) || shape == 1 && thorough) {
                continue;
            }
            // a long `in [..]` list is one long `when` leaf: the leaf regex is super-linear in its length (finding F-C05h, 99 elements
            // cost 5 s): the list shape stays below 20 literals, the spread shape puts at most 3 literals into each list
            if shape == 0 && total > 20 {
                continue;
            }
            let mut next = 0usize; // literals written so far
            let mut lit = |next: &mut usize| {
                let l = Lit::Str(if *next % 5 == 3 { '\'' } else { '"' }, body(*next));
                *next += 1;
                l
            };
            // the last rule: quoted name + condition value + action value = 3 literals; every other rule: a quoted name (1 literal)
            let nrules = match shape { 3 => 8usize, _ => 2 + (ti + shape) % 3 };
            if total < nrules + 2 {
                continue;
            }
            let bulk = total - 3 - (nrules - 1); // literals that are neither a rule name nor in the last rule
            let mut rules: Vec<RuleA> = Vec::new();
            for k in 0..nrules - 1 {
                let mut r = base_rule(&mut rng);
                r.cond = Cond::Atom(Atom::Cmp("User.age".into(), ">", Lit::Int(k as i64)));
                r.name = body(next);
                next += 1;
                // this rule's share of the bulk
                let share = match shape {
                    3 => bulk / (nrules - 1) + if k < bulk % (nrules - 1) { 1 } else { 0 },
                    _ => if k == 0 { bulk } else { 0 },
                };
                match shape {
                    0 => {
                        if share > 0 {
                            let xs: Vec<Lit> = (0..share).map(|_| lit(&mut next)).collect();
                            r.cond = Cond::Atom(Atom::Cmp("User.status".into(), "in", Lit::Arr(xs)));
                        }
                    }
                    1 => {
                        if share > 0 {
                            let xs: Vec<Lit> = (0..share).map(|_| lit(&mut next)).collect();
                            r.stmts = vec![Stmt::Call("notify_all".into(), xs)];
                        }
                    }
                    2 => {
                        let mut st: Vec<Stmt> = (0..share).map(|_| Stmt::Log(lit(&mut next))).collect();
                        st.push(Stmt::Set("User.ok".into(), Lit::Bool(true)));
                        r.stmts = st;
                    }
                    _ => {
                        // spread: a third each as list elements / call arguments / Log + Set statements
                        let a = (share / 3).min(3);
                        let b = (share - a) / 2;
                        let c = share - a - b;
                        if a > 0 {
                            let xs: Vec<Lit> = (0..a).map(|_| lit(&mut next)).collect();
                            r.cond = Cond::Atom(Atom::Cmp("User.status".into(), "in", Lit::Arr(xs)));
                        }
                        let mut st: Vec<Stmt> = Vec::new();
                        if b > 0 {
                            let xs: Vec<Lit> = (0..b).map(|_| lit(&mut next)).collect();
                            st.push(Stmt::Call("emit".into(), xs));
                        }
                        for j in 0..c {
                            st.push(if j % 2 == 0 { Stmt::Log(lit(&mut next)) } else { Stmt::Set("Order.status".into(), lit(&mut next)) });
                        }
                        st.push(Stmt::Set("User.ok".into(), Lit::Bool(true)));
                        r.stmts = st;
                    }
                }
                rules.push(r);
            }
            let mut last = base_rule(&mut rng);
            last.name = body(next);
            next += 1;
            last.cond = Cond::Atom(Atom::Cmp("User.tier".into(), "==", lit(&mut next)));
            last.stmts = vec![match (ti + shape) % 3 {
                0 => Stmt::Set("User.label".into(), lit(&mut next)),
                1 => Stmt::Log(lit(&mut next)),
                _ => Stmt::Call("sendEmail".into(), vec![Lit::Int(1), lit(&mut next)]),
            }];
            rules.push(last);
            assert_eq!(next, total);
            out.push(assemble("G", &rules, &mut rng, Lay((ti % 2) as u8)));
        }
    }
}

fn gen(rng: &mut Rng, n: usize, tier: &str) -> Vec<String> {
    let mut out = Vec::new();
    // every attribute subset in a shuffled order, plain layout, and salience extremes
    for mask in 0..128u32 {
        let mut r = base_rule(rng);
        r.name = format!("A{}", mask);
        r.salience = if mask & 1 != 0 { Some(*rng.pick(&[i32::MIN, -1, 0, 7, i32::MAX])) } else { None };
        r.no_loop = if mask & 2 != 0 { Some(rng.chance(1, 2)) } else { None };
        r.lock = if mask & 4 != 0 { Some(rng.chance(1, 2)) } else { None };
        r.ag = if mask & 8 != 0 { Some("grp a".into()) } else { None };
        r.actg = if mask & 16 != 0 { Some("no-loop".into()) } else { None };
        r.de = if mask & 32 != 0 { Some(pk(rng, &DATES).to_string()) } else { None };
        r.dx = if mask & 64 != 0 { Some(pk(rng, &DATES).to_string()) } else { None };
        out.push(assemble("G", &[r], rng, Lay(1)));
    }
    // string concatenations (`"Hello, " + User.name + "!"`): every shape in every position where a value is read, both quote kinds
    for (pi, pos) in ["cmp", "cmp-paren", "callcond", "set", "append", "callarg", "log", "arr-set", "arr-in", "arith-lhs", "mcount"].iter().enumerate() {
        for (si, shape) in CONCAT_SHAPES.iter().enumerate() {
            // shapes that start and end with a literal: both quote kinds, every position; the others: three per position
            let ends_lit = shape.starts_with('L') && shape.ends_with('L');
            let quotes: Vec<Option<char>> = if ends_lit {
                vec![Some('"'), Some('\'')]
            } else if rng.chance(1, 3) {
                vec![*rng.pick(&[Some('"'), Some('\''), None])]
            } else {
                vec![]
            };
            for q in quotes {
                let v = Lit::Arith(concat_text(rng, shape, q));
                let mut r = base_rule(rng);
                r.name = format!("C{}_{}", pi, si);
                let other = |rng: &mut Rng| if rng.chance(1, 2) { g_str(rng) } else { Lit::Int(g_int(rng)) };
                match *pos {
                    "cmp" | "cmp-paren" => r.cond = Cond::Atom(Atom::Cmp(path(rng), g_sym_op(rng), v)),
                    "callcond" => r.cond = Cond::Atom(Atom::Call(pk(rng, &FUNCS).to_string(), vec![path(rng)], g_sym_op(rng), v)),
                    "set" => r.stmts = vec![Stmt::Set(path(rng), v)],
                    "append" => r.stmts = vec![Stmt::Append(path(rng), v)],
                    "callarg" => {
                        let mut args: Vec<Lit> = (0..rng.below(3)).map(|_| other(rng)).collect();
                        let at = rng.below(args.len() as u64 + 1) as usize;
                        args.insert(at, v);
                        r.stmts = vec![Stmt::Call(pk(rng, &ACTFUNCS).to_string(), args)]
                    }
                    "log" => r.stmts = vec![Stmt::Log(v)],
                    "arr-set" | "arr-in" => {
                        let mut xs: Vec<Lit> = (0..rng.below(3)).map(|_| other(rng)).collect();
                        let at = rng.below(xs.len() as u64 + 1) as usize;
                        xs.insert(at, v);
                        if *pos == "arr-set" {
                            r.stmts = vec![Stmt::Set(path(rng), Lit::Arr(xs))]
                        } else {
                            r.cond = Cond::Atom(Atom::Cmp(path(rng), "in", Lit::Arr(xs)))
                        }
                    }
                    "arith-lhs" => r.cond = Cond::Atom(Atom::Arith(g_arith(rng, false), g_sym_op(rng), v)),
                    _ => r.cond = Cond::Atom(Atom::MCount(path2(rng), g_sym_op(rng), v)),
                }
                if *pos == "cmp-paren" {
                    // inside a compound condition with redundant parentheses and mixed white space
                    r.cond = Cond::And(Box::new(r.cond.clone()), Box::new(Cond::Not(Box::new(Cond::Atom(g_atom(rng))))));
                }
                let lay = Lay(if *pos == "cmp-paren" { 1 + rng.below(2) as u8 } else { rng.below(2) as u8 });
                out.push(assemble("G", &[r], rng, lay));
            }
        }
    }
    // function-call leaves `f(a, b) op v` and `test(f(a, b))` with STRING-LITERAL arguments: every adversarial body (separators of the
    // argument list, of the condition, of the statement list, comment markers, keywords, the other quote kind, placeholder
    // look-alikes) as an argument of both leaf forms, in every argument position, bare and under ! / && / || / exists / forall
    let bodies: Vec<&str> = ARG_PAYLOADS.iter().chain(STR_META.iter()).chain(["", "it's", "say \"hi\"", "a // b", "/* not a comment */", "日本語"].iter()).copied().collect();
    for (bi, b) in bodies.iter().enumerate() {
        for form in 0..2usize {
            let k = bi * 2 + form;
            let lit = quote_lit(b, if (bi + form) % 3 == 0 { '\'' } else { '"' });
            // the literal alone / first / in the middle / last; every fifth vector has a second literal argument
            let plain = |rng: &mut Rng| match rng.below(3) { 0 => path2(rng), 1 => rng.below(50).to_string(), _ => pk(rng, &IDENTS).to_string() };
            let mut args: Vec<String> = match k % 4 {
                0 => vec![lit.clone()],
                1 => vec![lit.clone(), plain(rng)],
                2 => vec![plain(rng), lit.clone(), plain(rng)],
                _ => vec![plain(rng), lit.clone()],
            };
            if k % 5 == 4 {
                let b2 = pk(rng, &ARG_PAYLOADS);
                let at = rng.below(args.len() as u64 + 1) as usize;
                args.insert(at, quote_lit(b2, if rng.chance(1, 2) { '\'' } else { '"' }));
            }
            let f = pk(rng, &FUNCS).to_string();
            let atom = if form == 0 {
                let o = if k % 3 == 0 { OPS[rng.below(11) as usize].0 } else { g_sym_op(rng) };
                let v = if o == "in" {
                    Lit::Arr(vec![Lit::Str('"', pk(rng, &ARG_PAYLOADS).to_string()).fit(), Lit::Int(g_int(rng))])
                } else if is_word_op(o) || k % 2 == 0 {
                    Lit::Str('"', pk(rng, &ARG_PAYLOADS).to_string()).fit()
                } else {
                    g_scalar(rng)
                };
                Atom::Call(f, args, o, v)
            } else {
                Atom::Test(f, args)
            };
            let me = Box::new(Cond::Atom(atom));
            let other = |rng: &mut Rng| Box::new(Cond::Atom(Atom::Cmp(path2(rng), g_sym_op(rng), if rng.chance(1, 2) { g_str(rng) } else { Lit::Int(g_int(rng)) })));
            let mut r = base_rule(rng);
            r.name = format!("F{}", k);
            r.cond = match k % 7 {
                0 | 1 => *me,
                2 => Cond::Not(me),
                3 => Cond::And(me, other(rng)),
                4 => Cond::And(other(rng), Box::new(Cond::Or(me, other(rng)))),
                5 => Cond::Ex(me),
                _ => Cond::Fa(Box::new(Cond::Or(other(rng), me))),
            };
            out.push(assemble("G", &[r], rng, Lay((k % 3) as u8)));
        }
    }
    // … and the same bodies in every argument position of every ACTION form that has an argument list (each list is cut out with
    // `\(([^)]*)\)`-like captures and split at ',' while the literals are masked): custom / function-call actions (alone, first,
    // middle, last, every argument a literal), Log, ActivateAgendaGroup / CompleteWorkflow / ScheduleRule names, `$Obj.method(args)`
    // (stream M:method: open finding F-C04i drops the object, the ARGUMENTS must still be the ones written), and the list-like values:
    // array elements of an assignment / of `+=` / of an `in` list / of a function-call condition's value, plain assigned values
    let mut meta_args = Vec::new();
    for (bi, b) in bodies.iter().enumerate() {
        let q = |j: usize| if (bi + j) % 3 == 0 { '\'' } else { '"' };
        let lit = |j: usize| Lit::Str(q(j), b.to_string()).fit();
        let other = |rng: &mut Rng| match rng.below(6) {
            0 => Lit::Int(g_int(rng)),
            1 => Lit::Float(g_float(rng)),
            2 => Lit::Path(path2(rng)),
            3 => Lit::Ident(pk(rng, &IDENTS).to_string()),
            4 => Lit::Bool(rng.chance(1, 2)),
            _ => Lit::Str('"', pk(rng, &ARG_PAYLOADS).to_string()).fit(),
        };
        // the literal alone / first / in the middle / last / all arguments literals
        let vector = |rng: &mut Rng, j: usize| -> Vec<Lit> {
            match (bi + j) % 5 {
                0 => vec![lit(j)],
                1 => vec![lit(j), other(rng)],
                2 => vec![other(rng), lit(j), other(rng)],
                3 => vec![other(rng), lit(j)],
                _ => vec![lit(j), Lit::Str('"', pk(rng, &ARG_PAYLOADS).to_string()).fit(), lit(j + 1)],
            }
        };
        let dq = !b.contains('"'); // the workflow / agenda forms are written with double quotes
        for j in 0..8usize {
            let mut r = base_rule(rng);
            r.name = format!("S{}_{}", bi, j);
            let mut stream = "G";
            match j {
                0 => r.stmts = vec![Stmt::Call(pk(rng, &ACTFUNCS).to_string(), vector(rng, j))],
                1 => r.stmts = vec![Stmt::Log(lit(j))],
                2 => {
                    // two statements: the `;` between them is the only separator
                    r.stmts = vec![Stmt::Call(pk(rng, &ACTFUNCS).to_string(), vector(rng, j + 2)), Stmt::Set(path(rng), lit(j))];
                }
                3 => {
                    let mut xs = vector(rng, j);
                    if bi % 2 == 0 { xs.retain(|x| !matches!(x, Lit::Path(_) | Lit::Ident(_) | Lit::Bool(_))); }
                    r.stmts = vec![if bi % 3 == 0 { Stmt::Append(path(rng), Lit::Arr(xs)) } else { Stmt::Set(path(rng), Lit::Arr(xs)) }];
                }
                4 => {
                    let mut xs = vector(rng, j);
                    xs.retain(|x| !matches!(x, Lit::Path(_) | Lit::Ident(_) | Lit::Bool(_) | Lit::Float(_)));
                    r.cond = Cond::Atom(if bi % 2 == 0 { Atom::Cmp(path2(rng), "in", Lit::Arr(xs)) } else { Atom::Call(pk(rng, &FUNCS).to_string(), vec![path2(rng)], "in", Lit::Arr(xs)) });
                }
                5 => {
                    if !dq { continue; }
                    r.stmts = vec![match bi % 3 { 0 => Stmt::Activate(b.to_string()), 1 => Stmt::Complete(b.to_string()), _ => Stmt::Schedule(sched_delay(rng), b.to_string()) }];
                }
                6 => {
                    stream = "M:method";
                    r.stmts = vec![Stmt::Method(pk(rng, &OBJS).to_string(), pk(rng, &["setSpeed", "add", "notify", "f2"]).to_string(), vector(rng, j))];
                }
                _ => {
                    // a literal argument in the condition AND in the action of one rule (the placeholders are numbered per text)
                    r.cond = Cond::Atom(Atom::Test(pk(rng, &FUNCS).to_string(), vec![quote_lit(pk(rng, &ARG_PAYLOADS), '"'), path2(rng)]));
                    r.stmts = vec![Stmt::Append(path(rng), lit(j)), Stmt::Call(pk(rng, &ACTFUNCS).to_string(), vector(rng, j + 1))];
                }
            }
            let case = assemble(stream, &[r], rng, Lay(((bi + j) % 3) as u8));
            if stream == "G" { out.push(case) } else { meta_args.push(case) }
        }
    }
    big_family(tier, &mut out);
    let maxdepth = if tier == "thorough" { 6 } else { 5 };
    out.extend(rf_cases(rng, n / 10 + 30, maxdepth));
    // the findings stream goes last (check.py reports the first dozen failure groups only)
    let mut meta = Vec::new();
    for i in 0..n {
        if i % 7 == 3 {
            let (tag, r) = g_meta(rng);
            meta.push(assemble(&tag, &[r], rng, Lay(0)));
            continue;
        }
        let nr = match rng.below(10) {
            0 => 0,
            1..=5 => 1,
            6 | 7 => 2,
            8 => rng.range(3, 5),
            _ => rng.range(6, 8),
        } as usize;
        let rules: Vec<RuleA> = (0..nr).map(|k| {
            let d = rng.range(1, maxdepth) as u32;
            g_rule(rng, k, d)
        }).collect();
        let lay = Lay(rng.below(3) as u8);
        out.push(assemble("G", &rules, rng, lay));
    }
    out.extend(meta_args);
    out.extend(meta);
    out
}

/// smaller candidates: drop rules (text segment + abstract rule together)
fn shrink(case: &str) -> Vec<String> {
    let t: Vec<&str> = case.split(' ').collect();
    if t.len() < 3 || t[2] == "?" {
        return vec![];
    }
    let segs: Vec<&str> = t[1].split(',').collect();
    let n: usize = t[2].parse().unwrap_or(0);
    if n <= 1 || segs.len() != 2 * n + 1 {
        return vec![];
    }
    // split the abstract tokens at the `R` markers
    let mut rules: Vec<Vec<&str>> = Vec::new();
    for tok in &t[3..] {
        if *tok == "R" {
            rules.push(vec![]);
        }
        if let Some(last) = rules.last_mut() {
            last.push(tok);
        }
    }
    if rules.len() != n {
        return vec![];
    }
    let mut out = Vec::new();
    let keep = |ks: &Vec<usize>| -> String {
        let mut s = vec![segs[0].to_string()];
        let mut a = Vec::new();
        for &k in ks {
            s.push(segs[2 * k + 1].to_string());
            s.push(segs[2 * k + 2].to_string());
            a.push(rules[k].join(" "));
        }
        format!("{} {} {} {}", rf_shrink_stream(t[0]), s.join(","), ks.len(), a.join(" ")).trim_end().to_string()
    };
    for k in 0..n {
        out.push(keep(&vec![k]));
    }
    for k in 0..n {
        out.push(keep(&(0..n).filter(|&j| j != k).collect()));
    }
    out
}

/// hand-written witnesses (`c04 corpus` prints the lines kept in corpus/C04/defects.case)
fn corpus() -> Vec<String> {
    let mut rng = Rng::new(0);
    let base = |f: &dyn Fn(&mut RuleA)| {
        let mut r = base_rule(&mut Rng::new(0));
        r.salience = None;
        r.name = "A".into();
        f(&mut r);
        r
    };
    let one = |stream: &str, text: &str, r: RuleA| format!("{} -,{},- 1 {}", stream, hex(text), a_rule(&r));
    let x1 = Cond::Atom(Atom::Cmp("X".into(), "==", Lit::Int(1)));
    let y2 = vec![Stmt::Set("Y".into(), Lit::Int(2))];
    let xy = |r: &mut RuleA| {
        r.cond = x1.clone();
        r.stmts = y2.clone();
    };
    let mut out = vec![
        // F-C04a negative salience
        one("G", "rule \"A\" salience -5 { when X == 1 then Y = 2; }", base(&|r| { xy(r); r.salience = Some(-5) })),
        one("G", "rule \"A\" salience -2147483648 { when X == 1 then Y = 2; }", base(&|r| { xy(r); r.salience = Some(i32::MIN) })),
        // F-C04e keyword inside a quoted header string
        one("G", "rule \"A\" \"uses salience 99 here\" salience 3 { when X == 1 then Y = 2; }", base(&|r| { xy(r); r.salience = Some(3) })),
        one("G", "rule \"A\" agenda-group \"salience 7\" salience 3 { when X == 1 then Y = 2; }", base(&|r| { xy(r); r.salience = Some(3); r.ag = Some("salience 7".into()) })),
        // F-C04c comment after code
        one("G", "rule \"A\" { when X == 1 // c\n then Y = 2; }", base(&|r| xy(r))),
        // F-C04d block comment
        one("G", "rule \"A\" { when X == 1 then /* block\n * comment */ Y = 2; }", base(&|r| xy(r))),
        // F-C04h comment text that looks like a rule head / contains a brace
        one("G", "// this rule checks x\nrule \"A\" { when X == 1 then Y = 2; }", base(&|r| xy(r))),
        one("G", "rule \"A\" { when X == 1 // }\n then Y = 2; }", base(&|r| xy(r))),
        // comment markers inside string literals are not comments
        one("G", "rule \"A\" { when X == \"http://a\" then Y = '/* z */'; }", base(&|r| {
            r.cond = Cond::Atom(Atom::Cmp("X".into(), "==", Lit::Str('"', "http://a".into())));
            r.stmts = vec![Stmt::Set("Y".into(), Lit::Str('\'', "/* z */".into()))];
        })),
        // F-C04g redundant parentheses
        one("G", "rule \"A\" { when ((X == 1 && Z == 2)) then Y = 2; }", base(&|r| {
            r.cond = Cond::And(Box::new(x1.clone()), Box::new(Cond::Atom(Atom::Cmp("Z".into(), "==", Lit::Int(2)))));
            r.stmts = y2.clone();
        })),
        one("G", "rule \"A\" { when (((X == 1))) then Y = 2; }", base(&|r| xy(r))),
        // precedence
        one("G", "rule \"A\" { when X == 1 || X == 1 && X == 1 then Y = 2; }", base(&|r| {
            r.cond = Cond::Or(Box::new(x1.clone()), Box::new(Cond::And(Box::new(x1.clone()), Box::new(x1.clone()))));
            r.stmts = y2.clone();
        })),
        // nested call in a custom action, `)` inside a string argument
        one("G", "rule \"A\" { when X == 1 then println(\"done :)\"); }", base(&|r| {
            r.cond = x1.clone();
            r.stmts = vec![Stmt::Call("println".into(), vec![Lit::Str('"', "done :)".into())])];
        })),
        // F-C04b string literals are opaque (literal masking): every metacharacter at once, in every position
        one("G", "rule \"a{b}\" \"desc { x }\" salience 4 agenda-group \"g{1}\" { when X == 'it\"s }' then Y = \"it's\"; }", base(&|r| {
            r.name = "a{b}".into();
            r.salience = Some(4);
            r.ag = Some("g{1}".into());
            r.cond = Cond::Atom(Atom::Cmp("X".into(), "==", Lit::Str('\'', "it\"s }".into())));
            r.stmts = vec![Stmt::Set("Y".into(), Lit::Str('"', "it's".into()))];
        })),
        one("G", "rule \"A\" { when User.tier == \"go}ld && (x || then ; y\" then User.msg = \"a;b += c = d, e {\"; log(\"a=b, c\"); sendEmail(\"Hello, world\", 1); }", base(&|r| {
            r.cond = Cond::Atom(Atom::Cmp("User.tier".into(), "==", Lit::Str('"', "go}ld && (x || then ; y".into())));
            r.stmts = vec![
                Stmt::Set("User.msg".into(), Lit::Str('"', "a;b += c = d, e {".into())),
                Stmt::Log(Lit::Str('"', "a=b, c".into())),
                Stmt::Call("sendEmail".into(), vec![Lit::Str('"', "Hello, world".into()), Lit::Int(1)]),
            ];
        })),
        // a literal that looks like a placeholder, non-ASCII bodies
        one("G", "rule \"A\" { when X == \"\u{1}1\u{2}\" then Y = \"é日本🚨\"; }", base(&|r| {
            r.cond = Cond::Atom(Atom::Cmp("X".into(), "==", Lit::Str('"', "\u{1}1\u{2}".into())));
            r.stmts = vec![Stmt::Set("Y".into(), Lit::Str('"', "é日本🚨".into()))];
        })),
        // a defmodule block / a rule inside a literal (parse_with_modules must not cut it out)
        one("G", "rule \"A\" { when X == \"defmodule M { export: all }\" then Y = 'rule \"x\" { when a then b; }'; }", base(&|r| {
            r.cond = Cond::Atom(Atom::Cmp("X".into(), "==", Lit::Str('"', "defmodule M { export: all }".into())));
            r.stmts = vec![Stmt::Set("Y".into(), Lit::Str('\'', "rule \"x\" { when a then b; }".into()))];
        })),
        // an apostrophe inside a comment does not open a literal
        one("G", "rule \"A\" { when X == 1 // don't\n then /* it's */ Y = \"a}b\"; }", base(&|r| {
            r.cond = x1.clone();
            r.stmts = vec![Stmt::Set("Y".into(), Lit::Str('"', "a}b".into()))];
        })),
        // string concatenation (corpus/C04/strconcat.case): a value that STARTS and ENDS with a literal of the same quote kind is an
        // expression, not one literal — condition value, assigned value, call argument, Log argument, array element
        one("G", "rule \"A\" { when X.t == 'Dr. ' + U.d + ' (hon.)' then Msg.text = \"Hello, \" + User.name + \"!\"; }", base(&|r| {
            r.cond = Cond::Atom(Atom::Cmp("X.t".into(), "==", Lit::Arith("'Dr. ' + U.d + ' (hon.)'".into())));
            r.stmts = vec![Stmt::Set("Msg.text".into(), Lit::Arith("\"Hello, \" + User.name + \"!\"".into()))];
        })),
        one("G", "rule \"A\" { when X == 1 then sendEmail(\"Hello, \" + User.name + \"!\", 1); Log(\"a\" + \"b\"); Y = [\"\" + U.n + \"\", 2]; Z += 'x'+U.n+'y'; }", base(&|r| {
            r.cond = x1.clone();
            r.stmts = vec![
                Stmt::Call("sendEmail".into(), vec![Lit::Arith("\"Hello, \" + User.name + \"!\"".into()), Lit::Int(1)]),
                Stmt::Log(Lit::Arith("\"a\" + \"b\"".into())),
                Stmt::Set("Y".into(), Lit::Arr(vec![Lit::Arith("\"\" + U.n + \"\"".into()), Lit::Int(2)])),
                Stmt::Append("Z".into(), Lit::Arith("'x'+U.n+'y'".into())),
            ];
        })),
        // … and the neighbours: literal on one side only, mixed quote kinds, a placeholder look-alike inside a concatenated literal
        one("G", "rule \"A\" { when X.t in [\"a\" + U.d + 'b', 'c'] then Y = U.first + \" \" + U.last; Z = \"\u{1}0\u{2}\" + U.n + \"}\"; }", base(&|r| {
            r.cond = Cond::Atom(Atom::Cmp("X.t".into(), "in", Lit::Arr(vec![Lit::Arith("\"a\" + U.d + 'b'".into()), Lit::Str('\'', "c".into())])));
            r.stmts = vec![
                Stmt::Set("Y".into(), Lit::Arith("U.first + \" \" + U.last".into())),
                Stmt::Set("Z".into(), Lit::Arith("\"\u{1}0\u{2}\" + U.n + \"}\"".into())),
            ];
        })),
        // string literals as ARGUMENTS (corpus/C04/arglists.case): the argument list of a function-call / test(...) leaf and of every
        // action form is split at ',' with the literals masked — seeded C04-9 restored them before the split
        one("G", "rule \"A\" { when containsAny(User.tags, \"red,green\") == true then Y = 2; }", base(&|r| {
            r.cond = Cond::Atom(Atom::Call("containsAny".into(), vec!["User.tags".into(), "\"red,green\"".into()], "==", Lit::Bool(true)));
            r.stmts = y2.clone();
        })),
        one("G", "rule \"A\" { when label(User.name, 'Doe, John', 3) == \"x\" then Y = 2; }", base(&|r| {
            r.cond = Cond::Atom(Atom::Call("label".into(), vec!["User.name".into(), "'Doe, John'".into(), "3".into()], "==", Lit::Str('"', "x".into())));
            r.stmts = y2.clone();
        })),
        one("G", "rule \"A\" { when test(matchAny(User.tags, \"a,b\", 'c) && (d')) then notify(\"x, y\", 'p;q', 3); Log(\"a, b\"); }", base(&|r| {
            r.cond = Cond::Atom(Atom::Test("matchAny".into(), vec!["User.tags".into(), "\"a,b\"".into(), "'c) && (d'".into()]));
            r.stmts = vec![
                Stmt::Call("notify".into(), vec![Lit::Str('"', "x, y".into()), Lit::Str('\'', "p;q".into()), Lit::Int(3)]),
                Stmt::Log(Lit::Str('"', "a, b".into())),
            ];
        })),
        one("G", "rule \"A\" { when X == 1 then ScheduleRule(500, \"a, b\"); ActivateAgendaGroup(\"g, h\"); CompleteWorkflow(\"w(1), z\"); Y = [\"a,b\", 'c]', 2]; }", base(&|r| {
            r.cond = x1.clone();
            r.stmts = vec![
                Stmt::Schedule(500, "a, b".into()),
                Stmt::Activate("g, h".into()),
                Stmt::Complete("w(1), z".into()),
                Stmt::Set("Y".into(), Lit::Arr(vec![Lit::Str('"', "a,b".into()), Lit::Str('\'', "c]".into()), Lit::Int(2)])),
            ];
        })),
        // seeded C04-12: the ScheduleRule delay must not go through f64 (2^53+1, a nanosecond stamp, i64::MAX)
        one("G", "rule \"A\" { when X == 1 then ScheduleRule(9007199254740993, \"a\"); ScheduleRule(1700000000123456789, \"b\"); ScheduleRule(9223372036854775807, \"c\"); }", base(&|r| {
            r.cond = x1.clone();
            r.stmts = vec![
                Stmt::Schedule(9007199254740993, "a".into()),
                Stmt::Schedule(1700000000123456789, "b".into()),
                Stmt::Schedule(9223372036854775807, "c".into()),
            ];
        })),
        one("M:method", "rule \"A\" { when X == 1 then $Car.set(\"a, b\", 2); }", base(&|r| {
            r.cond = x1.clone();
            r.stmts = vec![Stmt::Method("Car".into(), "set".into(), vec![Lit::Str('"', "a, b".into()), Lit::Int(2)])];
        })),
        // empty file, comment-only file
        "G - 0".to_string(),
        format!("G {} 0", hex("// nothing here: rule x { }\n/* rule y { when a then b } */\n")),
    ];
    // one witness per M class (the former F-C04b witnesses and the open findings)
    for c in 0..200 {
        let (tag, r) = g_meta(&mut rng);
        if !out.iter().any(|l: &String| l.starts_with(&format!("{} ", tag))) {
            out.push(assemble(&tag, &[r], &mut rng, Lay(0)));
        }
        let _ = c;
    }
    out
}

fn main() {
    if std::env::args().nth(1).as_deref() == Some("corpus") {
        for l in corpus() {
            println!("{}", l);
        }
        return;
    }
    if std::env::args().nth(1).as_deref() == Some("bigfam") {
        // c04 bigfam [tier] — the cases of the BIG family: `<literals> <bytes> <micros> <agree-with-abstract?>` per case (tuning aid)
        let tier = std::env::args().nth(2).unwrap_or_else(|| "quick".into());
        let mut v = Vec::new();
        big_family(&tier, &mut v);
        for c in v {
            let t: Vec<&str> = c.split_whitespace().collect();
            let full: String = t[1].split(',').map(|h| unhex(h).unwrap()).collect::<Vec<_>>().concat();
            // non-empty literals as mask_string_literals counts them (the generated layouts put no quote into a comment)
            let mut n = 0usize;
            let mut it = full.chars();
            while let Some(ch) = it.next() {
                if ch == '"' || ch == '\'' {
                    let rest = it.as_str();
                    if let Some(end) = rest.find(|c| c == ch || c == '\n') {
                        if rest[end..].starts_with(ch) && end > 0 {
                            n += 1;
                        }
                        it = rest[end + 1..].chars();
                    }
                }
            }
            let t0 = std::time::Instant::now();
            let o = exec(&c);
            println!("{} {} {} {}", n, full.len(), t0.elapsed().as_micros(), &o[o.len().saturating_sub(12)..]);
        }
        return;
    }
    main_with(Prop { gen, exec, shrink });
}
