//! C14 — inner time-window stream join (`StreamJoinNode`, directly and through `StreamJoinManager`).
//! case := `<mode> <durMs> <cond> <op,op,...>`
//!    mode  D = calls on the node, M = calls through the manager (one registered join left/right)
//!    durMs = window duration in milliseconds (`JoinStrategy::TimeWindow { duration }`)
//!    cond  0 = always true, 1 = left.v < right.v, 2 = left.v != right.v, 3 = left.ts <= right.ts
//!    op    `L<id>:<ts>:<key|->:<v>` `R…` `X…`  event on stream left / right / other
//!          `Wl<int>` `Wr<int>` `Wx<int>`       watermark (stream letter used in manager mode)
//!          an event may carry a 5th field `:<decoy>`: the value put under the OTHER side's key field (see `mk_event`)
//! obs  := `nocalls` | call;call;…   call := `-` | `lid:rid,…` sorted   (the Vec<JoinedEvent> of that call)
//! key fields: the LEFT key extractor reads data["k"], the RIGHT key extractor reads data["rk"]. An `L` event keeps its
//!    key under "k", an `R` event under "rk"; the decoy (if any) goes under the other field and must not matter.
//! multi-join manager case := `J <join+join+…> <op,op,…>`  (several joins registered on ONE StreamJoinManager)
//!    join  `<l><r>:<durMs>:<cond>`  l, r = stream letters a..e, l != r; registered in list order as j0, j1, …
//!    op    `A<id>:<ts>:<key|->:<v>` … `E…`  process_event of an event whose source is stream a..e
//!          `Wa<int>` … `We<int>`            update_watermark(stream, w)
//!          `U<i>`  unregister_join("j<i>")   `G<i>`  register_join("j<i>", fresh node of join i, handler -> sink i)
//!                  (per join strictly alternating U, G, starting registered; anything else is `bad-case`)
//!          `K`     clear(): every join is unregistered at once (allowed at any time; afterwards every join may be
//!                  registered again with `G<i>`, in any order)
//!    (in this mode an event carries its key under BOTH key fields: a stream may be a left and a right input)
//! obs  := `nocalls` | call;call;…   call := batch/batch/…  one batch per registered join (what ITS handler received)
//! all modes: op `S` = statistics probe (`get_stats` on the node / `get_join_stats` + `get_all_stats` on the manager):
//!    adds NO call to the observation (the getters are `&self` observers; the Lean driver drops the token) unless the
//!    twins disagree with each other or with the set of registered joins (`stats-inconsistent`)
//! key numbers: `<key>` n < 100 is the string `key<n>`; from 100 on the n-th entry of `UNUSUAL_KEYS` (100 = the EMPTY
//!    string, blanks, look-alikes of key0, numeric look-alikes, stream names, separators, case / normalisation pairs),
//!    200..207 very long keys — pairwise distinct strings, so equal numbers <=> equal join keys (`key_string`)
use rre_harness::*;
use rust_rule_engine::rete::stream_join_node::{JoinStrategy, JoinType, JoinedEvent, StreamJoinNode};
use rust_rule_engine::streaming::event::StreamEvent;
use rust_rule_engine::streaming::join_manager::StreamJoinManager;
use rust_rule_engine::types::Value;
use std::collections::HashMap;
use std::sync::{Arc, Mutex};
use std::time::Duration;

#[derive(Clone, Debug, PartialEq)]
struct Ev {
    id: u64,
    ts: u64,
    key: Option<u64>,
    v: i64,
    /// value stored under the OTHER side's key field (None: that field is absent)
    decoy: Option<u64>,
}

#[derive(Clone, Debug, PartialEq)]
enum Op {
    Ev(char, Ev),     // 'L' | 'R' | 'X'
    Wm(char, i64),    // 'l' | 'r' | 'x'
    Ctl(char, usize), // 'U' unregister join i | 'G' register join i again (multi-join manager mode only)
    /// `S`: the statistics getters (`get_stats` / `get_join_stats` + `get_all_stats`) are called; they are `&self`
    /// observers that must not disturb the join: the probe adds NO call to the observation (the model and the oracle
    /// drop the token), unless the twins disagree with each other (`stats-inconsistent`)
    Stats,
}

fn show_op(op: &Op) -> String {
    match op {
        Op::Ev(s, e) => format!(
            "{}{}:{}:{}:{}{}",
            s,
            e.id,
            e.ts,
            e.key.map(|k| k.to_string()).unwrap_or_else(|| "-".into()),
            e.v,
            e.decoy.map(|d| format!(":{}", d)).unwrap_or_default()
        ),
        Op::Wm(s, w) => format!("W{}{}", s, w),
        Op::Stats => "S".to_string(),
        Op::Ctl('K', _) => "K".to_string(),
        Op::Ctl(c, i) => format!("{}{}", c, i),
    }
}

#[derive(Clone, Debug, PartialEq)]
struct JoinSpec {
    l: char, // 'a'..='e'
    r: char,
    dur: u64,
    cond: u64,
}

fn show_ops(ops: &[Op]) -> String {
    if ops.is_empty() {
        "-".to_string()
    } else {
        ops.iter().map(show_op).collect::<Vec<_>>().join(",")
    }
}

fn show_case(mode: char, dur: u64, cond: u64, ops: &[Op]) -> String {
    format!("{} {} {} {}", mode, dur, cond, show_ops(ops))
}

fn show_jcase(joins: &[JoinSpec], ops: &[Op]) -> String {
    let js: Vec<String> = joins.iter().map(|j| format!("{}{}:{}:{}", j.l, j.r, j.dur, j.cond)).collect();
    format!("J {} {}", js.join("+"), show_ops(ops))
}

fn parse_join(s: &str) -> Option<JoinSpec> {
    let f: Vec<&str> = s.split(':').collect();
    if f.len() != 3 {
        return None;
    }
    let lr: Vec<char> = f[0].chars().collect();
    if lr.len() != 2 || !"abcde".contains(lr[0]) || !"abcde".contains(lr[1]) || lr[0] == lr[1] {
        return None;
    }
    Some(JoinSpec { l: lr[0], r: lr[1], dur: f[1].parse().ok()?, cond: f[2].parse().ok()? })
}

fn parse_jcase(case: &str) -> Option<(Vec<JoinSpec>, Vec<Op>)> {
    let t: Vec<&str> = case.split_whitespace().collect();
    if t.len() != 3 || t[0] != "J" {
        return None;
    }
    let joins = t[1].split('+').map(parse_join).collect::<Option<Vec<_>>>()?;
    let ops = if t[2] == "-" {
        vec![]
    } else {
        t[2].split(',').map(parse_op).collect::<Option<Vec<_>>>()?
    };
    // only stream letters a..e in this mode
    for op in &ops {
        match op {
            Op::Ev(c, e) if ('A'..='E').contains(c) && e.decoy.is_none() => {}
            Op::Wm(c, _) if ('a'..='e').contains(c) => {}
            Op::Ctl(_, i) if *i < joins.len() => {}
            Op::Stats => {}
            _ => return None,
        }
    }
    if !ctl_valid(joins.len(), &ops) {
        return None;
    }
    Some((joins, ops))
}

/// per join the control ops alternate U, G, U, … (a join is registered when the run starts)
fn ctl_valid(njoins: usize, ops: &[Op]) -> bool {
    let mut reg = vec![true; njoins];
    for op in ops {
        if let Op::Ctl('K', _) = op {
            // clear(): every join is gone; any of them may be registered again afterwards
            reg.iter_mut().for_each(|r| *r = false);
            continue;
        }
        if let Op::Ctl(c, i) = op {
            if *i >= njoins || reg[*i] != (*c == 'U') {
                return false;
            }
            reg[*i] = *c == 'G';
        }
    }
    true
}

fn parse_op(s: &str) -> Option<Op> {
    let c = s.chars().next()?;
    match c {
        'L' | 'R' | 'X' | 'A'..='E' => {
            let f: Vec<&str> = s[1..].split(':').collect();
            if f.len() != 4 && f.len() != 5 {
                return None;
            }
            Some(Op::Ev(
                c,
                Ev {
                    id: f[0].parse().ok()?,
                    ts: f[1].parse().ok()?,
                    key: if f[2] == "-" { None } else { Some(f[2].parse().ok()?) },
                    v: f[3].parse().ok()?,
                    decoy: if f.len() == 5 { Some(f[4].parse().ok()?) } else { None },
                },
            ))
        }
        'U' | 'G' => Some(Op::Ctl(c, s[1..].parse().ok()?)),
        'K' if s == "K" => Some(Op::Ctl('K', 0)),
        'S' if s == "S" => Some(Op::Stats),
        'W' => {
            let st = s[1..].chars().next()?;
            if !"lrxabcde".contains(st) {
                return None;
            }
            Some(Op::Wm(st, s[2..].parse().ok()?))
        }
        _ => None,
    }
}

fn parse_case(case: &str) -> Option<(char, u64, u64, Vec<Op>)> {
    let t: Vec<&str> = case.split_whitespace().collect();
    if t.len() != 4 {
        return None;
    }
    let mode = match t[0] {
        "D" => 'D',
        "M" => 'M',
        _ => return None,
    };
    let ops = if t[3] == "-" {
        vec![]
    } else {
        t[3].split(',').map(parse_op).collect::<Option<Vec<_>>>()?
    };
    for op in &ops {
        match op {
            Op::Ev(c, _) if "LRX".contains(*c) => {}
            Op::Wm(c, _) if "lrx".contains(*c) => {}
            Op::Stats => {}
            _ => return None,
        }
    }
    Some((mode, t[1].parse().ok()?, t[2].parse().ok()?, ops))
}

fn stream_name(c: char) -> &'static str {
    match c {
        'L' | 'l' => "left",
        'R' | 'r' => "right",
        'A' | 'a' => "orders",
        'B' | 'b' => "payments",
        'C' | 'c' => "shipments",
        'D' | 'd' => "refunds",
        'E' | 'e' => "audit",
        _ => "other",
    }
}

/// field read by the left key extractor / by the right key extractor
const LKEY: &str = "k";
const RKEY: &str = "rk";

/// UNUSUAL BUT LEGAL JOIN KEYS. Key numbers below 100 are the plain keys `key<n>`; key number 100 + i is the i-th
/// string of this table. The table is pairwise distinct AS RUST STRINGS (checked once per process, `key_string`), so
/// "equal key numbers" (what the model and the oracle compare) is exactly "equal extracted join keys" (what the node
/// must compare): two different entries must NEVER join however similar they look, two events with the same entry
/// must join like any other key. Consecutive entries form confusable CLUSTERS (`KEY_CLUSTERS`).
const UNUSUAL_KEYS: [&str; 64] = [
    // 100.. empty / blank keys
    "", " ", "  ", "\t", "\n", "\u{a0}", "\u{200b}", "\0",
    // 108.. the plain key `key0` with blanks, other case, padding, suffixes (trim / case folding / prefix match)
    "key0 ", " key0", "KEY0", "Key0", "key00", "key", "key0\0", "key0.0",
    // 116.. numeric-looking keys: equal as numbers, different as strings
    "1", "01", "1.0", "+1", "1e0", " 1", "\u{661}", "\u{ff11}",
    // 124.. zero / sign / non-string look-alikes (the harness' non-string key value is Integer(7))
    "0", "-0", "0.0", "7", "007", "7.0", "-", "00",
    // 132.. the stream names, the key field names and words a missing key could be printed as
    "left", "right", "other", "orders", "k", "rk", "None", "null",
    // 140.. separators a composite key / an event id (`<id>_<ts>`) could be built from
    "_", "0_0", "1_1", ":", ",", ";", "/", "|",
    // 148.. case pairs whose folding is not ASCII, and Unicode normalisation forms of the same text
    "\u{e9}", "e\u{301}", "e", "\u{c9}", "\u{212a}", "K", "\u{df}", "ss",
    // 156.. more case / normalisation / ligature look-alikes
    "\u{130}", "i", "\u{131}", "I", "\u{fb01}", "fi", "\u{3a9}", "\u{2126}",
];

/// confusable clusters of key numbers (a family picks one and draws its keys from it)
const KEY_CLUSTERS: [&[u64]; 14] = [
    &[100, 101, 102, 0],          // "", " ", "  ", key0
    &[100, 103, 104, 107],        // "", tab, newline, NUL
    &[100, 105, 106, 130],        // "", NBSP, ZWSP, "-"
    &[0, 108, 109, 110],          // key0, "key0 ", " key0", "KEY0"
    &[0, 111, 112, 113, 114, 115],// key0, Key0, key00, key, key0\0, key0.0
    &[116, 117, 118, 119],        // 1, 01, 1.0, +1
    &[116, 120, 121, 122, 123],   // 1, 1e0, " 1", arabic-indic 1, fullwidth 1
    &[124, 125, 126, 131, 100],   // 0, -0, 0.0, 00, ""
    &[127, 128, 129, 100],        // 7, 007, 7.0 (next to key-less events whose field holds Integer(7)), ""
    &[132, 133, 134, 135, 136, 137], // left, right, other, orders, k, rk
    &[138, 139, 100, 130],        // None, null, "", "-"
    &[140, 141, 142, 143, 144, 145, 146, 147], // separators
    &[148, 149, 150, 151, 152, 153, 154, 155], // é NFC / NFD / e / É, Kelvin sign / K, ß / ss
    &[156, 157, 158, 159, 160, 161, 162, 163], // İ i ı I, ﬁ / fi, Ω / ohm sign
];

/// the string an event carries for key number `k`: `key<k>` below 100, the table above from 100, and from 200 on VERY
/// LONG keys (4 KiB .. 64 KiB) that differ from each other only in their LAST character, in their FIRST character, or
/// by being a proper prefix of one another
fn key_string(k: u64) -> String {
    use std::sync::Once;
    static CHECK: Once = Once::new();
    CHECK.call_once(|| {
        let mut all: Vec<String> = (0..100).map(|i| format!("key{}", i)).collect();
        all.extend(UNUSUAL_KEYS.iter().map(|s| s.to_string()));
        let n = all.len();
        all.sort();
        all.dedup();
        assert_eq!(all.len(), n, "UNUSUAL_KEYS must be pairwise distinct and different from key<n>");
    });
    if k < 100 {
        format!("key{}", k)
    } else if ((k - 100) as usize) < UNUSUAL_KEYS.len() {
        UNUSUAL_KEYS[(k - 100) as usize].to_string()
    } else if (200..208).contains(&k) {
        let body = "x".repeat(4096);
        match k {
            200 => format!("{}a", body),
            201 => format!("{}b", body),
            202 => body,                     // proper prefix of 200 / 201
            203 => format!("a{}", body),
            204 => format!("b{}", body),
            205 => "y".repeat(65536),
            206 => format!("{}z", "y".repeat(65535)),
            _ => format!("{}\u{e9}", &body[..4095]),
        }
    } else {
        format!("key{}", k)
    }
}

fn mk_event(side: char, e: &Ev) -> StreamEvent {
    let mut data = HashMap::new();
    // the event's own key field(s): a left event is keyed under LKEY, a right event under RKEY; an event of the
    // multi-join mode (stream letters A..E: possibly a left input of one join and a right input of another) under both
    let (own, other): (&[&str], Option<&str>) = match side {
        'R' => (&[RKEY], Some(LKEY)),
        'L' | 'X' => (&[LKEY], Some(RKEY)),
        _ => (&[LKEY, RKEY], None),
    };
    for f in own {
        match e.key {
            Some(k) => {
                data.insert(f.to_string(), Value::String(key_string(k)));
            }
            // key-less: the field is absent, or present with a non-string value (extractor -> None)
            None => {
                if e.id % 2 == 1 {
                    data.insert(f.to_string(), Value::Integer(7));
                }
            }
        }
    }
    // decoy: a perfectly good key value under the field only the OTHER side's extractor reads
    if let (Some(f), Some(d)) = (other, e.decoy) {
        data.insert(f.to_string(), Value::String(key_string(d)));
    }
    data.insert("v".to_string(), Value::Integer(e.v));
    let mut ev = StreamEvent::with_timestamp("e", data, stream_name(side), e.ts);
    ev.id = e.id.to_string();
    ev
}

fn v_of(e: &StreamEvent) -> i64 {
    e.data.get("v").and_then(|v| v.as_integer()).unwrap_or(0)
}

fn mk_node(dur: u64, cond: u64) -> StreamJoinNode {
    mk_node_on("left", "right", dur, cond)
}

fn mk_node_on(left: &str, right: &str, dur: u64, cond: u64) -> StreamJoinNode {
    let c: Box<dyn Fn(&StreamEvent, &StreamEvent) -> bool + Send + Sync> = match cond {
        0 => Box::new(|_, _| true),
        1 => Box::new(|l, r| v_of(l) < v_of(r)),
        2 => Box::new(|l, r| v_of(l) != v_of(r)),
        _ => Box::new(|l, r| l.metadata.timestamp <= r.metadata.timestamp),
    };
    StreamJoinNode::new(
        left.to_string(),
        right.to_string(),
        JoinType::Inner,
        JoinStrategy::TimeWindow { duration: Duration::from_millis(dur) },
        Box::new(|e| e.data.get(LKEY).and_then(|v| v.as_string())),
        Box::new(|e| e.data.get(RKEY).and_then(|v| v.as_string())),
        c,
    )
}

fn id_of(e: &Option<StreamEvent>) -> String {
    match e {
        Some(e) => e.id.clone(),
        None => "_".to_string(),
    }
}

fn show_call(js: &[JoinedEvent]) -> String {
    if js.is_empty() {
        return "-".to_string();
    }
    let mut ps: Vec<(u64, u64, String)> = js
        .iter()
        .map(|j| {
            let l = id_of(&j.left);
            let r = id_of(&j.right);
            (l.parse().unwrap_or(u64::MAX), r.parse().unwrap_or(u64::MAX), format!("{}:{}", l, r))
        })
        .collect();
    ps.sort();
    ps.into_iter().map(|p| p.2).collect::<Vec<_>>().join(",")
}

/// several joins on one manager: every join has its own sink; after every manager call each sink is drained
fn exec_multi(joins: &[JoinSpec], ops: &[Op]) -> String {
    // `Default` is the twin of `new()` (the single-join mode `M` uses `new()`)
    let mut mgr = StreamJoinManager::default();
    let mut sinks: Vec<Arc<Mutex<Vec<JoinedEvent>>>> = Vec::new();
    for (i, j) in joins.iter().enumerate() {
        let sink: Arc<Mutex<Vec<JoinedEvent>>> = Arc::new(Mutex::new(Vec::new()));
        let s2 = sink.clone();
        mgr.register_join(
            format!("j{}", i),
            mk_node_on(stream_name(j.l), stream_name(j.r), j.dur, j.cond),
            Box::new(move |je| s2.lock().unwrap().push(je)),
        );
        sinks.push(sink);
    }
    let mut calls: Vec<String> = Vec::new();
    let mut reg = vec![true; joins.len()];
    for op in ops {
        match op {
            Op::Stats => {
                // get_join_stats(id) is Some exactly for the registered joins and agrees with get_all_stats()[id]
                let all = mgr.get_all_stats();
                let mut ok = all.len() == reg.iter().filter(|r| **r).count() && mgr.get_join_stats("nosuch").is_none();
                for (i, r) in reg.iter().enumerate() {
                    let one = mgr.get_join_stats(&format!("j{}", i));
                    ok &= one.is_some() == *r
                        && format!("{:?}", one) == format!("{:?}", all.get(&format!("j{}", i)).cloned());
                }
                if !ok {
                    calls.push("stats-inconsistent".into());
                }
                continue;
            }
            Op::Ev(s, e) => mgr.process_event(mk_event(*s, e)),
            Op::Wm(s, w) => mgr.update_watermark(stream_name(*s), *w),
            Op::Ctl('U', i) => {
                reg[*i] = false;
                mgr.unregister_join(&format!("j{}", i))
            }
            Op::Ctl('K', _) => {
                reg.iter_mut().for_each(|r| *r = false);
                mgr.clear()
            }
            Op::Ctl(_, i) => {
                // the same join again: same id, same streams and parameters, a fresh node, results into the same sink
                let j = &joins[*i];
                reg[*i] = true;
                let s2 = sinks[*i].clone();
                mgr.register_join(
                    format!("j{}", i),
                    mk_node_on(stream_name(j.l), stream_name(j.r), j.dur, j.cond),
                    Box::new(move |je| s2.lock().unwrap().push(je)),
                );
            }
        }
        let row: Vec<String> = sinks
            .iter()
            .map(|sk| {
                let out: Vec<JoinedEvent> = sk.lock().unwrap().drain(..).collect();
                show_call(&out)
            })
            .collect();
        calls.push(row.join("/"));
    }
    if calls.is_empty() { "nocalls".into() } else { calls.join(";") }
}

fn exec(case: &str) -> String {
    if case.starts_with("J ") {
        let Some((joins, ops)) = parse_jcase(case) else { return "bad-case".into() };
        return exec_multi(&joins, &ops);
    }
    let Some((mode, dur, cond, ops)) = parse_case(case) else { return "bad-case".into() };
    let mut calls: Vec<String> = Vec::new();
    if mode == 'D' {
        let mut node = mk_node(dur, cond);
        for op in &ops {
            let out = match op {
                Op::Ev('L', e) => node.process_left(mk_event('L', e)),
                Op::Ev('R', e) => node.process_right(mk_event('R', e)),
                Op::Ev(_, _) => vec![], // an event of an unrelated stream is never handed to the node
                Op::Wm(_, w) => node.update_watermark(*w),
                Op::Ctl(_, _) => return "bad-case".into(),
                Op::Stats => {
                    let st = node.get_stats();
                    if st.left_partitions > st.left_buffer_size || st.right_partitions > st.right_buffer_size {
                        calls.push("stats-inconsistent".into());
                    }
                    continue;
                }
            };
            calls.push(show_call(&out));
        }
    } else {
        let sink: Arc<Mutex<Vec<JoinedEvent>>> = Arc::new(Mutex::new(Vec::new()));
        let s2 = sink.clone();
        let mut mgr = StreamJoinManager::new();
        mgr.register_join(
            "j".to_string(),
            mk_node(dur, cond),
            Box::new(move |j| s2.lock().unwrap().push(j)),
        );
        for op in &ops {
            match op {
                Op::Ev(s, e) => mgr.process_event(mk_event(*s, e)),
                Op::Wm(s, w) => mgr.update_watermark(stream_name(*s), *w),
                Op::Ctl(_, _) => return "bad-case".into(),
                Op::Stats => {
                    let one = mgr.get_join_stats("j");
                    let all = mgr.get_all_stats();
                    if one.is_none()
                        || all.len() != 1
                        || format!("{:?}", one) != format!("{:?}", all.get("j").cloned())
                        || mgr.get_join_stats("left").is_some()
                    {
                        calls.push("stats-inconsistent".into());
                    }
                    continue;
                }
            }
            let out: Vec<JoinedEvent> = sink.lock().unwrap().drain(..).collect();
            calls.push(show_call(&out));
        }
    }
    if calls.is_empty() { "nocalls".into() } else { calls.join(";") }
}

// ------------------------------------------------------------------------------------ generation

/// all merges of `ls` and `rs` (both orders preserved)
fn merges(ls: &[Ev], rs: &[Ev]) -> Vec<Vec<Op>> {
    fn go(ls: &[Ev], rs: &[Ev], cur: &mut Vec<Op>, out: &mut Vec<Vec<Op>>) {
        if ls.is_empty() && rs.is_empty() {
            out.push(cur.clone());
            return;
        }
        if let Some((l, rest)) = ls.split_first() {
            cur.push(Op::Ev('L', l.clone()));
            go(rest, rs, cur, out);
            cur.pop();
        }
        if let Some((r, rest)) = rs.split_first() {
            cur.push(Op::Ev('R', r.clone()));
            go(ls, rest, cur, out);
            cur.pop();
        }
    }
    let mut out = Vec::new();
    go(ls, rs, &mut Vec::new(), &mut out);
    out
}

fn ts_of(op: &Op) -> Option<u64> {
    match op {
        Op::Ev(_, e) => Some(e.ts),
        _ => None,
    }
}

/// a watermark advance after every arrival: w = (largest timestamp so far) − slack
fn with_tracking_wm(ops: &[Op], slack: i64, rng: &mut Rng) -> Vec<Op> {
    let mut out = Vec::new();
    let mut mx: i64 = 0;
    for op in ops {
        out.push(op.clone());
        if let Some(t) = ts_of(op) {
            mx = mx.max(t as i64);
            out.push(Op::Wm(*rng.pick(&['l', 'r']), mx - slack));
        }
    }
    out
}

/// watermark calls with arbitrary values (negative, regressing, far ahead) at random places
fn with_random_wm(ops: &[Op], dom: u64, rng: &mut Rng) -> Vec<Op> {
    let mut out = Vec::new();
    for op in ops {
        if rng.chance(1, 3) {
            let w = rng.below(dom + 6) as i64 - 2;
            out.push(Op::Wm(*rng.pick(&['l', 'r']), w));
        }
        out.push(op.clone());
    }
    if rng.chance(1, 2) {
        out.push(Op::Wm('l', rng.below(dom + 6) as i64));
    }
    out
}

/// sprinkle traffic the join must ignore (manager mode): unrelated stream events / watermarks
fn with_unrouted(ops: &[Op], rng: &mut Rng) -> Vec<Op> {
    let mut out = Vec::new();
    for op in ops {
        if rng.chance(1, 4) {
            if rng.chance(1, 2) {
                out.push(Op::Ev('X', Ev { id: 50 + rng.below(5), ts: rng.below(8), key: Some(rng.below(2)), v: 0, decoy: None }));
            } else {
                out.push(Op::Wm('x', 1000));
            }
        }
        out.push(op.clone());
    }
    out
}

fn rand_events(rng: &mut Rng, n: usize, nkeys: u64, dom: u64, keyless: bool) -> Vec<Ev> {
    (0..n)
        .map(|i| Ev {
            id: i as u64,
            ts: rng.below(dom),
            key: if keyless && rng.chance(1, 5) { None } else { Some(rng.below(nkeys)) },
            v: rng.below(3) as i64 - 1,
            decoy: None,
        })
        .collect()
}

/// shift every timestamp and every watermark of a history by `base` (family "timestamps beyond 2^53")
fn shifted(ops: &[Op], base: u64) -> Vec<Op> {
    ops.iter()
        .map(|op| match op {
            Op::Ev(s, e) => Op::Ev(*s, Ev { ts: e.ts + base, ..e.clone() }),
            Op::Wm(s, w) => Op::Wm(*s, *w + base as i64),
            Op::Ctl(c, i) => Op::Ctl(*c, *i),
            Op::Stats => Op::Stats,
        })
        .collect()
}

/// timestamp offsets at realistic clock magnitudes and at the boundaries of the numeric types a window test could
/// be computed in: 2^24 (f32), 2^31 / 2^32 (i32 / u32; the small offsets added on top straddle the boundary), epoch
/// seconds / milliseconds / microseconds, around 2^53 (first integers f64 cannot tell apart), 2^54, 10^16, epoch
/// nanoseconds (19 digits, f64 spacing 256), 2^62, and close to the top of the i64 range
const BIG_BASES: [u64; 15] = [
    (1u64 << 24) - 3,
    (1u64 << 31) - 3,
    (1u64 << 32) - 3,
    1_700_000_000,
    1_700_000_000_000,
    1_700_000_000_000_000,
    (1u64 << 53) - 3,
    1u64 << 53,
    (1u64 << 53) + 1,
    (1u64 << 54) - 2,
    10_000_000_000_000_000,
    1_700_000_000_000_000_000,
    1_758_844_800_123_456_789,
    (1u64 << 62) - 5,
    (1u64 << 63) - (1u64 << 20),
];

/// ONE long history in ONE interleaving (family "more events of one key than the initial VecDeque capacity,
/// partial evictions in between"): `nl` + `nr` events of `nkeys` keys arrive in a random interleaving with
/// timestamps that progress with the arrival position (plus jitter); watermark advances follow the largest
/// timestamp seen so far at distance `slack`. With slack >= jitter no event is evicted before a partner arrives,
/// so the completeness clause of the oracle stays in force over the whole run while the per-key queues keep
/// sliding (push_back / pop_front: the ring buffers wrap around).
fn long_history(rng: &mut Rng, nl: usize, nr: usize) -> (u64, u64, Vec<Op>) {
    let nkeys = *rng.pick(&[1u64, 1, 2, 2, 3]);
    let w_units = *rng.pick(&[1u64, 2, 3, 5]);
    let dur = w_units * 1000 + *rng.pick(&[0u64, 0, 999]);
    let step = *rng.pick(&[0u64, 1, 1, 2, 3]);
    let jit = *rng.pick(&[0u64, 1, 2, 3]);
    let safe = rng.chance(3, 4);
    let slack: i64 =
        if safe { (jit + rng.below(2)) as i64 } else { rng.below(jit + 2 * w_units + 2) as i64 - (w_units + 1) as i64 };
    let wm_every = *rng.pick(&[1u64, 1, 2, 3]); // a watermark advance after every k-th arrival on average
    let keyless = rng.chance(1, 4);
    let cond = if rng.chance(2, 3) { 0 } else { rng.range(1, 3) };
    let mut sides: Vec<char> = std::iter::repeat('L').take(nl).chain(std::iter::repeat('R').take(nr)).collect();
    // interleavings: shuffled, or bursts (a run of left events, then right events, ...), or all of one side first
    match rng.below(4) {
        0 => {}
        1 => {
            let mut v = Vec::new();
            let (mut l, mut r) = (nl, nr);
            let mut cur = if rng.chance(1, 2) { 'L' } else { 'R' };
            while l + r > 0 {
                let burst = rng.range(1, 5) as usize;
                for _ in 0..burst {
                    if cur == 'L' && l > 0 {
                        v.push('L');
                        l -= 1;
                    } else if cur == 'R' && r > 0 {
                        v.push('R');
                        r -= 1;
                    }
                }
                cur = if cur == 'L' { 'R' } else { 'L' };
            }
            sides = v;
        }
        _ => rng.shuffle(&mut sides),
    }
    let (mut li, mut ri) = (0u64, 0u64);
    let mut mx: i64 = 0;
    let mut ops = Vec::new();
    for (pos, sd) in sides.iter().enumerate() {
        let ts = pos as u64 * step + rng.below(jit + 1);
        let id = if *sd == 'L' { &mut li } else { &mut ri };
        let e = Ev {
            id: *id,
            ts,
            key: if keyless && rng.chance(1, 8) { None } else { Some(rng.below(nkeys)) },
            v: rng.below(3) as i64 - 1,
            decoy: None,
        };
        *id += 1;
        ops.push(Op::Ev(*sd, e));
        mx = mx.max(ts as i64);
        if rng.chance(1, wm_every) {
            ops.push(Op::Wm(*rng.pick(&['l', 'r']), mx - slack));
        }
    }
    (dur, cond, ops)
}

/// all merges of several sequences (each keeps its order); when there are more than `cap`, `cap` random ones
fn merges_k(seqs: &[Vec<Op>], cap: usize, rng: &mut Rng) -> Vec<Vec<Op>> {
    fn count(ns: &[usize]) -> u128 {
        // multinomial coefficient
        let mut c: u128 = 1;
        let mut tot: u128 = 0;
        for &n in ns {
            for i in 1..=n as u128 {
                tot += 1;
                c = c * tot / i;
            }
        }
        c
    }
    fn go(seqs: &[Vec<Op>], pos: &mut Vec<usize>, cur: &mut Vec<Op>, out: &mut Vec<Vec<Op>>) {
        if pos.iter().zip(seqs).all(|(p, s)| *p == s.len()) {
            out.push(cur.clone());
            return;
        }
        for i in 0..seqs.len() {
            if pos[i] < seqs[i].len() {
                cur.push(seqs[i][pos[i]].clone());
                pos[i] += 1;
                go(seqs, pos, cur, out);
                pos[i] -= 1;
                cur.pop();
            }
        }
    }
    let ns: Vec<usize> = seqs.iter().map(|s| s.len()).collect();
    let mut out = Vec::new();
    if count(&ns) <= cap as u128 {
        go(seqs, &mut vec![0; seqs.len()], &mut Vec::new(), &mut out);
    } else {
        for _ in 0..cap {
            let mut pos = vec![0usize; seqs.len()];
            let mut cur = Vec::new();
            loop {
                let left: usize = seqs.iter().zip(&pos).map(|(s, p)| s.len() - p).sum();
                if left == 0 {
                    break;
                }
                // uniform over the remaining events = uniform over merges
                let mut k = rng.below(left as u64) as usize;
                for i in 0..seqs.len() {
                    let rem = seqs[i].len() - pos[i];
                    if k < rem {
                        cur.push(seqs[i][pos[i]].clone());
                        pos[i] += 1;
                        break;
                    }
                    k -= rem;
                }
            }
            out.push(cur);
        }
    }
    out
}

/// join topologies on one manager; the first ones share a stream in DIFFERENT roles (right input of one join,
/// left input of another), then shared in the same role, disjoint, duplicate pair
const TOPOLOGIES: [&[&str]; 14] = [
    &["ab", "bc"],
    &["bc", "ab"],
    &["ab", "ba"],
    &["ab", "ca"],
    &["ab", "bc", "ca"],
    &["ab", "bc", "cd"],
    &["ba", "cb", "ac"],
    &["ab", "bc", "ac"],
    &["ab", "ac"],
    &["ab", "cb"],
    &["ab", "ab"],
    &["ab", "cd"],
    &["ab", "ba", "ab"],
    &["ab"],
];

fn multi_join_cases(rng: &mut Rng, out: &mut Vec<String>, thorough: bool) {
    let durs = [0u64, 999, 1000, 1999, 2000, 3000, 5000];
    let names: Vec<&str> = if rng.chance(3, 4) {
        TOPOLOGIES[rng.below(TOPOLOGIES.len() as u64) as usize].to_vec()
    } else {
        Vec::new()
    };
    let mut joins: Vec<JoinSpec> = Vec::new();
    let same_params = rng.chance(1, 3);
    let (d0, c0) = (*rng.pick(&durs), if rng.chance(1, 2) { 0 } else { rng.range(1, 3) });
    if names.is_empty() {
        // random topology over streams a..d
        for _ in 0..rng.range(2, 3) {
            let l = *rng.pick(&['a', 'b', 'c', 'd']);
            let mut r = *rng.pick(&['a', 'b', 'c', 'd']);
            while r == l {
                r = *rng.pick(&['a', 'b', 'c', 'd']);
            }
            joins.push(JoinSpec { l, r, dur: d0, cond: c0 });
        }
    } else {
        for n in &names {
            let cs: Vec<char> = n.chars().collect();
            joins.push(JoinSpec { l: cs[0], r: cs[1], dur: d0, cond: c0 });
        }
    }
    if !same_params {
        for j in joins.iter_mut() {
            j.dur = *rng.pick(&durs);
            j.cond = if rng.chance(1, 2) { 0 } else { rng.range(1, 3) };
        }
    }
    // events on the consumed streams, sometimes also on a stream nobody consumes
    let mut streams: Vec<char> = Vec::new();
    for j in &joins {
        for c in [j.l, j.r] {
            if !streams.contains(&c) {
                streams.push(c);
            }
        }
    }
    streams.sort();
    let unconsumed = rng.chance(1, 4);
    if unconsumed {
        streams.push('e');
    }
    let maxper: u64 = if thorough { 3 } else { 2 };
    let nkeys = rng.range(1, 2);
    let dom = *rng.pick(&[3u64, 5, 8]);
    let keyless = rng.chance(1, 3);
    let seqs: Vec<Vec<Op>> = streams
        .iter()
        .map(|c| {
            let n = rng.range(0, maxper).max(rng.range(0, maxper)) as usize;
            rand_events(rng, n, nkeys, dom, keyless)
                .into_iter()
                .map(|e| Op::Ev(c.to_ascii_uppercase(), e))
                .collect()
        })
        .collect();
    let slack = rng.below(4) as i64;
    let wm_streams: Vec<char> = streams.iter().cloned().chain(std::iter::once('e')).collect();
    for m in merges_k(&seqs, if thorough { 180 } else { 90 }, rng) {
        out.push(show_jcase(&joins, &m));
        // tracking watermark on a random stream after every arrival
        let mut a = Vec::new();
        let mut mx: i64 = 0;
        for op in &m {
            a.push(op.clone());
            if let Some(t) = ts_of(op) {
                mx = mx.max(t as i64);
                a.push(Op::Wm(*rng.pick(&wm_streams), mx - slack));
            }
        }
        out.push(show_jcase(&joins, &a));
        // arbitrary watermark calls
        let mut b = Vec::new();
        for op in &m {
            if rng.chance(1, 3) {
                b.push(Op::Wm(*rng.pick(&wm_streams), rng.below(dom + 6) as i64 - 2));
            }
            b.push(op.clone());
        }
        out.push(show_jcase(&joins, &b));
    }
}

/// family "the two sides keep their join key under DIFFERENT fields": some events also carry a value under the
/// field only the other side's extractor reads — the own key, another key of the domain, or a key nobody uses;
/// key-less events get one too (an extractor applied to the wrong side would revive them)
fn with_decoys(evs: Vec<Ev>, nkeys: u64, rng: &mut Rng) -> Vec<Ev> {
    let every = rng.chance(1, 4);
    evs.into_iter()
        .map(|e| {
            if every || rng.chance(1, 3) {
                let d = match (e.key, rng.below(4)) {
                    (Some(k), 0) => k,
                    (Some(k), 1) => (k + 1) % nkeys.max(2),
                    _ => rng.below(nkeys + 1),
                };
                Ev { decoy: Some(d), ..e }
            } else {
                e
            }
        })
        .collect()
}

fn pick_joins(rng: &mut Rng) -> Vec<JoinSpec> {
    let durs = [0u64, 999, 1000, 1999, 2000, 3000, 5000, 5000];
    let names: &[&str] = TOPOLOGIES[rng.below(TOPOLOGIES.len() as u64) as usize];
    let same = rng.chance(1, 2);
    let (d0, c0) = (*rng.pick(&durs), if rng.chance(2, 3) { 0 } else { rng.range(1, 3) });
    names
        .iter()
        .map(|n| {
            let cs: Vec<char> = n.chars().collect();
            let (dur, cond) =
                if same { (d0, c0) } else { (*rng.pick(&durs), if rng.chance(2, 3) { 0 } else { rng.range(1, 3) }) };
            JoinSpec { l: cs[0], r: cs[1], dur, cond }
        })
        .collect()
}

/// family "joins come and go on a live manager": `unregister_join(id)` and `register_join(same id, fresh node)` before
/// the first event, back to back in the middle of a run, with traffic in between, several times over, for one or two
/// of the registered joins, and unregistering without coming back. A re-registered join starts with empty buffers:
/// its batches are compared with the reference join of what arrived SINCE the registration; while it is away its
/// handler must receive nothing; the other joins of the manager must not notice.
fn ctl_cases(rng: &mut Rng, out: &mut Vec<String>, thorough: bool) {
    let joins = pick_joins(rng);
    let mut streams: Vec<char> = Vec::new();
    for j in &joins {
        for c in [j.l, j.r] {
            if !streams.contains(&c) {
                streams.push(c);
            }
        }
    }
    streams.sort();
    let maxper: u64 = if thorough { 4 } else { 3 };
    let nkeys = rng.range(1, 2);
    let dom = *rng.pick(&[3u64, 5, 8]);
    let keyless = rng.chance(1, 4);
    let seqs: Vec<Vec<Op>> = streams
        .iter()
        .map(|c| {
            let n = rng.range(1, maxper).max(rng.range(0, maxper)) as usize;
            rand_events(rng, n, nkeys, dom, keyless).into_iter().map(|e| Op::Ev(c.to_ascii_uppercase(), e)).collect()
        })
        .collect();
    let slack = rng.below(4) as i64;
    for m in merges_k(&seqs, if thorough { 24 } else { 8 }, rng) {
        let i = rng.below(joins.len() as u64) as usize;
        let n = m.len();
        let ug = |k: usize| vec![Op::Ctl('U', k), Op::Ctl('G', k)];
        let splice = |base: &[Op], at: usize, ins: Vec<Op>| -> Vec<Op> {
            let mut v = base[..at].to_vec();
            v.extend(ins);
            v.extend_from_slice(&base[at..]);
            v
        };
        let mut variants: Vec<Vec<Op>> = Vec::new();
        // (a) before any event; sometimes several times over, sometimes for a second join as well
        let mut pre = ug(i);
        if rng.chance(1, 3) {
            pre.extend(ug(i));
        }
        if joins.len() > 1 && rng.chance(1, 2) {
            let i2 = (i + 1 + rng.below(joins.len() as u64 - 1) as usize) % joins.len();
            let at = rng.below(pre.len() as u64 / 2 + 1) as usize * 2;
            pre = splice(&pre, at, ug(i2));
        }
        let a = splice(&m, 0, pre);
        variants.push(a.clone());
        // (b) back to back in the middle of the run
        let p = rng.below(n as u64 + 1) as usize;
        variants.push(splice(&m, p, ug(i)));
        // (c) away for a while: traffic between U and G; then possibly once more
        let q = p + rng.below((n - p) as u64 + 1) as usize;
        let mut c = splice(&m, q, vec![Op::Ctl('G', i)]);
        c = splice(&c, p, vec![Op::Ctl('U', i)]);
        if rng.chance(1, 3) {
            let at = q + 2 + rng.below((n - q) as u64 + 1) as usize;
            c = splice(&c, at, ug(i));
        }
        variants.push(c);
        // (d) gone for good
        variants.push(splice(&m, p, vec![Op::Ctl('U', i)]));
        // (e) (a) with a tracking watermark on a random consumed stream after every arrival
        let mut e = Vec::new();
        let mut mx: i64 = 0;
        for op in &a {
            e.push(op.clone());
            if let Some(t) = ts_of(op) {
                mx = mx.max(t as i64);
                e.push(Op::Wm(*rng.pick(&streams), mx - slack));
            }
        }
        variants.push(e);
        for v in variants {
            debug_assert!(ctl_valid(joins.len(), &v));
            out.push(show_jcase(&joins, &v));
        }
    }
}

/// very long keys (see `key_string`): same 4 KiB body + different last character + the bare body (a proper prefix);
/// different first character; 64 KiB keys differing in the last character; ASCII vs non-ASCII last character
const LONG_KEY_CLUSTERS: [&[u64]; 4] = [&[200, 201, 202], &[203, 204, 202], &[205, 206], &[200, 207, 201]];

/// family "unusual but legal key values": key number i of a history becomes the i-th key of a confusable cluster
/// (decoys too); which keys are equal does not change, so neither does the reference join
fn remap_keys(ops: &[Op], cluster: &[u64]) -> Vec<Op> {
    let m = |k: u64| cluster[(k as usize) % cluster.len()];
    ops.iter()
        .map(|op| match op {
            Op::Ev(s, e) => Op::Ev(*s, Ev { key: e.key.map(m), decoy: e.decoy.map(m), ..e.clone() }),
            o => o.clone(),
        })
        .collect()
}

/// a cluster in a random rotation / order, so that every member gets to be key number 0, 1, …
fn pick_cluster(rng: &mut Rng) -> Vec<u64> {
    let mut c: Vec<u64> = KEY_CLUSTERS[rng.below(KEY_CLUSTERS.len() as u64) as usize].to_vec();
    // the empty key, when the cluster has it, stays in front half of the time (it is the most likely to be special-cased)
    if !(c[0] == 100 && rng.chance(1, 2)) {
        rng.shuffle(&mut c);
    }
    c
}

fn unusual_key_cases(rng: &mut Rng, n: usize, tier: &str, out: &mut Vec<String>) {
    let thorough = tier == "thorough";
    // the thorough tier has ~8x the configurations and larger ones (4+4: 70 merges); a third of the rate keeps it in budget
    let n = if thorough { n / 3 } else { n };
    let maxn: u64 = if thorough { 4 } else { 3 };
    // (7a) exhaustive tiny domain around the EMPTY key: every 2+2 configuration over ts in {0,2} x key in {"", key0, none},
    // every merge, node and manager, without watermarks and with a tracking watermark
    let choices: Vec<(u64, Option<u64>)> =
        vec![(0, Some(100)), (0, Some(0)), (0, None), (2, Some(100)), (2, Some(0)), (2, None)];
    let nc = choices.len();
    for code in 0..nc * nc * nc * nc {
        let pick = |j: usize| choices[(code / nc.pow(j as u32)) % nc];
        // configurations without any empty key are family (1) again
        if (0..4).all(|j| pick(j).1 != Some(100)) {
            continue;
        }
        let ev = |id: u64, c: (u64, Option<u64>)| Ev { id, ts: c.0, key: c.1, v: 0, decoy: None };
        let ls = vec![ev(0, pick(0)), ev(1, pick(1))];
        let rs = vec![ev(0, pick(2)), ev(1, pick(3))];
        for (mi, m) in merges(&ls, &rs).iter().enumerate() {
            let mode = if (code + mi) % 2 == 0 { 'M' } else { 'D' };
            if (code + mi) % 3 == 0 {
                out.push(show_case(mode, 1500, 0, &with_tracking_wm(m, 0, rng)));
            } else {
                out.push(show_case(mode, 1000, 0, m));
            }
        }
    }
    // (7b) random configurations as in (2), keys drawn from ONE confusable cluster (2..4 of its members, sometimes next
    // to key-less events and decoys), ALL merges, the three watermark variants, node and manager
    for _ in 0..n / 3 {
        let cluster = pick_cluster(rng);
        let nl = rng.range(1, maxn).max(rng.range(0, maxn)) as usize;
        let nr = rng.range(1, maxn).max(rng.range(0, maxn)) as usize;
        let nkeys = rng.range(1, (cluster.len() as u64).min(4));
        let dom = *rng.pick(&[3u64, 5, 8]);
        let keyless = rng.chance(1, 2);
        let dur = *rng.pick(&[0u64, 999, 1000, 1999, 2000, 3000, 5000, 5000]);
        let cond = if rng.chance(2, 3) { 0 } else { rng.range(1, 3) };
        let ls = rand_events(rng, nl, nkeys, dom, keyless);
        let rs = rand_events(rng, nr, nkeys, dom, keyless);
        let (ls, rs) =
            if rng.chance(1, 3) { (with_decoys(ls, nkeys, rng), with_decoys(rs, nkeys, rng)) } else { (ls, rs) };
        let slack = rng.below(4) as i64;
        for m in merges(&ls, &rs) {
            let m = remap_keys(&m, &cluster);
            let mode = if rng.chance(1, 2) { 'D' } else { 'M' };
            out.push(show_case(mode, dur, cond, &m));
            out.push(show_case(mode, dur, cond, &with_tracking_wm(&m, slack, rng)));
            let b = with_random_wm(&m, dom, rng);
            let b = if mode == 'M' { with_unrouted(&b, rng) } else { b };
            out.push(show_case(mode, dur, cond, &b));
        }
    }
    // (7c) long histories (sliding per-key queues, evictions) over a cluster
    for i in 0..n / 12 {
        let cluster = pick_cluster(rng);
        let (nl, nr) = (rng.range(5, 12) as usize, rng.range(5, 12) as usize);
        let (dur, cond, ops) = long_history(rng, nl, nr);
        out.push(show_case(if i % 2 == 0 { 'D' } else { 'M' }, dur, cond, &remap_keys(&ops, &cluster)));
    }
    // (7d) VERY LONG keys (4 KiB .. 64 KiB, differing in the last / first character or proper prefixes of each other)
    for _ in 0..n / 40 {
        let cluster = LONG_KEY_CLUSTERS[rng.below(LONG_KEY_CLUSTERS.len() as u64) as usize];
        let nl = rng.range(1, 2) as usize;
        let nr = rng.range(1, 2) as usize;
        let nkeys = cluster.len() as u64;
        let ls = rand_events(rng, nl, nkeys, 3, false);
        let rs = rand_events(rng, nr, nkeys, 3, false);
        for m in merges(&ls, &rs) {
            let m = remap_keys(&m, cluster);
            let mode = if rng.chance(1, 2) { 'D' } else { 'M' };
            out.push(show_case(mode, 5000, 0, &m));
            out.push(show_case(mode, 1000, 0, &with_tracking_wm(&m, 1, rng)));
        }
    }
    // (7e) the multi-join and the unregister / register-again families over a cluster
    for i in 0..n / 24 {
        let cluster = pick_cluster(rng);
        let mut tmp = Vec::new();
        if i % 2 == 0 {
            multi_join_cases(rng, &mut tmp, false);
            tmp.truncate(60);
        } else {
            ctl_cases(rng, &mut tmp, false);
        }
        for c in tmp {
            if let Some((joins, ops)) = parse_jcase(&c) {
                out.push(show_jcase(&joins, &remap_keys(&ops, &cluster)));
            }
        }
    }
}

/// family "`clear()` and reuse": the manager is cleared (before the first event, in the middle of a run, twice in a row,
/// after some join was already unregistered, at the very end) and some or all joins are registered again under their
/// ids — at once or one by one with traffic in between, in registration order, reversed or shuffled. A cleared manager
/// must route nothing (no stale `stream_to_joins` entry: a join registered again would otherwise receive every event
/// twice), every join registered again starts empty and each of its lives is checked against its own reference join.
fn clear_cases(rng: &mut Rng, out: &mut Vec<String>, thorough: bool) {
    let joins = pick_joins(rng);
    let nj = joins.len();
    let mut streams: Vec<char> = Vec::new();
    for j in &joins {
        for c in [j.l, j.r] {
            if !streams.contains(&c) {
                streams.push(c);
            }
        }
    }
    streams.sort();
    let maxper: u64 = if thorough { 4 } else { 3 };
    let nkeys = rng.range(1, 2);
    let dom = *rng.pick(&[3u64, 5, 8]);
    let keyless = rng.chance(1, 4);
    let seqs: Vec<Vec<Op>> = streams
        .iter()
        .map(|c| {
            let n = rng.range(1, maxper).max(rng.range(0, maxper)) as usize;
            rand_events(rng, n, nkeys, dom, keyless).into_iter().map(|e| Op::Ev(c.to_ascii_uppercase(), e)).collect()
        })
        .collect();
    let slack = rng.below(4) as i64;
    let k = Op::Ctl('K', 0);
    for m in merges_k(&seqs, if thorough { 18 } else { 6 }, rng) {
        let n = m.len();
        let splice = |base: &[Op], at: usize, ins: Vec<Op>| -> Vec<Op> {
            let mut v = base[..at].to_vec();
            v.extend(ins);
            v.extend_from_slice(&base[at..]);
            v
        };
        let mut order: Vec<usize> = (0..nj).collect();
        match rng.below(3) {
            0 => {}
            1 => order.reverse(),
            _ => rng.shuffle(&mut order),
        }
        let all_back: Vec<Op> = order.iter().map(|i| Op::Ctl('G', *i)).collect();
        let mut variants: Vec<Vec<Op>> = Vec::new();
        // (a) clear + everything back before the first event (sometimes cleared twice)
        let mut pre = vec![k.clone()];
        if rng.chance(1, 3) {
            pre.push(k.clone());
        }
        pre.extend(all_back.clone());
        let a = splice(&m, 0, pre);
        variants.push(a.clone());
        // (b) clear + everything back, back to back in the middle of the run
        let p = rng.below(n as u64 + 1) as usize;
        let mut mid = vec![k.clone()];
        mid.extend(all_back.clone());
        variants.push(splice(&m, p, mid));
        // (c) cleared for a while: traffic in between, then the joins come back one by one with traffic in between;
        // some may never come back
        let mut c: Vec<Op> = m[..p].to_vec();
        c.push(k.clone());
        let mut back = order.clone();
        if nj > 1 && rng.chance(1, 3) {
            back.pop();
        }
        let mut rest: Vec<Op> = m[p..].to_vec();
        for i in back {
            let take = rng.below(rest.len() as u64 + 1) as usize;
            c.extend(rest.drain(..take));
            c.push(Op::Ctl('G', i));
        }
        c.extend(rest);
        variants.push(c);
        // (d) one join unregistered first, then the clear, then everything back (and once more a clear at the end)
        let i = rng.below(nj as u64) as usize;
        let q = p + rng.below((n - p) as u64 + 1) as usize;
        let mut d = splice(&m, q, {
            let mut v = vec![k.clone()];
            v.extend(all_back.clone());
            v
        });
        d = splice(&d, p, vec![Op::Ctl('U', i)]);
        if rng.chance(1, 2) {
            d.push(k.clone());
        }
        variants.push(d);
        // (e) cleared for good in the middle
        variants.push(splice(&m, p, vec![k.clone()]));
        // (f) (b) with a tracking watermark on a random consumed stream after every arrival
        let mut e = Vec::new();
        let mut mx: i64 = 0;
        for op in &variants[1].clone() {
            e.push(op.clone());
            if let Some(t) = ts_of(op) {
                mx = mx.max(t as i64);
                e.push(Op::Wm(*rng.pick(&streams), mx - slack));
            }
        }
        variants.push(e);
        for v in variants {
            debug_assert!(ctl_valid(nj, &v));
            out.push(show_jcase(&joins, &v));
        }
    }
}

fn gen(rng: &mut Rng, n: usize, tier: &str) -> Vec<String> {
    let mut out = Vec::new();
    let maxn: u64 = if tier == "thorough" { 4 } else { 3 };

    // (1) exhaustive tiny domain: every 2+2 configuration over ts ∈ {0,2}, key ∈ {0,1,none},
    // every merge, window 1 s; without watermarks and with a tracking watermark of slack 0
    let choices: Vec<(u64, Option<u64>)> =
        vec![(0, Some(0)), (0, Some(1)), (0, None), (2, Some(0)), (2, Some(1)), (2, None)];
    let nc = choices.len();
    for code in 0..nc * nc * nc * nc {
        let pick = |j: usize| choices[(code / nc.pow(j as u32)) % nc];
        let ev = |id: u64, c: (u64, Option<u64>)| Ev { id, ts: c.0, key: c.1, v: 0, decoy: None };
        let ls = vec![ev(0, pick(0)), ev(1, pick(1))];
        let rs = vec![ev(0, pick(2)), ev(1, pick(3))];
        for (mi, m) in merges(&ls, &rs).iter().enumerate() {
            let mode = if (code + mi) % 2 == 0 { 'D' } else { 'M' };
            out.push(show_case(mode, 1000, 0, m));
            out.push(show_case(mode, 1500, 0, &with_tracking_wm(m, 0, rng)));
        }
    }

    // (2) n random configurations of ≤ maxn + maxn events, ALL merges of each, each merge
    // without watermarks, with a tracking watermark, and with arbitrary watermark calls
    for _ in 0..n {
        // sizes biased towards the largest (most merges): max of two draws
        let nl = rng.range(0, maxn).max(rng.range(0, maxn)) as usize;
        let nr = rng.range(0, maxn).max(rng.range(0, maxn)) as usize;
        let nkeys = rng.range(1, 3);
        let dom = *rng.pick(&[3u64, 5, 8]);
        let keyless = rng.chance(1, 2);
        let dur = *rng.pick(&[0u64, 999, 1000, 1999, 2000, 3000, 5000]);
        let cond = if rng.chance(1, 2) { 0 } else { rng.range(1, 3) };
        let ls = rand_events(rng, nl, nkeys, dom, keyless);
        let rs = rand_events(rng, nr, nkeys, dom, keyless);
        // half of the configurations: decoy values under the other side's key field
        let (ls, rs) =
            if rng.chance(1, 2) { (with_decoys(ls, nkeys, rng), with_decoys(rs, nkeys, rng)) } else { (ls, rs) };
        let slack = rng.below(4) as i64;
        for m in merges(&ls, &rs) {
            let mode = if rng.chance(1, 2) { 'D' } else { 'M' };
            out.push(show_case(mode, dur, cond, &m));
            let a = with_tracking_wm(&m, slack, rng);
            out.push(show_case(mode, dur, cond, &a));
            let b = with_random_wm(&m, dom, rng);
            let b = if mode == 'M' { with_unrouted(&b, rng) } else { b };
            out.push(show_case(mode, dur, cond, &b));
        }
    }

    // (3) long histories in ONE interleaving each: 5..12 (thorough: ..24) events per side of 1..3 keys, progressing
    // timestamps, evicting watermark advances in between (sliding per-key queues: ring buffers wrap, grow, empty)
    let thorough = tier == "thorough";
    let maxlong: u64 = if thorough { 24 } else { 12 };
    for i in 0..n / 2 {
        let nl = rng.range(5, maxlong) as usize;
        let nr = if rng.chance(1, 4) { rng.range(1, 4) as usize } else { rng.range(5, maxlong) as usize };
        let (nl, nr) = if rng.chance(1, 2) { (nl, nr) } else { (nr, nl) };
        let (dur, cond, ops) = long_history(rng, nl, nr);
        // one in three: decoy values under the other side's key field on some events
        let ops: Vec<Op> = if rng.chance(1, 3) {
            ops.into_iter()
                .map(|op| match op {
                    Op::Ev(s, e) if rng.chance(1, 3) => Op::Ev(s, Ev { decoy: Some(rng.below(3)), ..e }),
                    o => o,
                })
                .collect()
        } else {
            ops
        };
        let mode = if i % 3 == 2 { 'M' } else { 'D' };
        let ops = if mode == 'M' && rng.chance(1, 2) { with_unrouted(&ops, rng) } else { ops };
        // one in six of them on epoch-scale timestamps
        let ops = if i % 6 == 5 { shifted(&ops, *rng.pick(&BIG_BASES)) } else { ops };
        out.push(show_case(mode, dur, cond, &ops));
    }

    // (4) large timestamps (epoch seconds .. nanoseconds, beyond 2^24 / 2^31 / 2^32 / 2^53 / 2^62): configurations as in (2) on top of a large base offset,
    // ALL merges, the same three watermark variants (watermarks carry the offset too; a few stay small / negative)
    for _ in 0..n / 4 {
        let nl = rng.range(0, maxn).max(rng.range(1, maxn)) as usize;
        let nr = rng.range(0, maxn).max(rng.range(1, maxn)) as usize;
        let nkeys = rng.range(1, 2);
        let base = *rng.pick(&BIG_BASES);
        let (dom, durs): (u64, &[u64]) = if rng.chance(3, 4) {
            (*rng.pick(&[3u64, 5, 8]), &[0, 999, 1000, 1999, 2000, 3000, 5000])
        } else {
            (*rng.pick(&[300u64, 600, 1100]), &[0, 1000, 5000, 100_000, 255_000, 256_000, 300_000, 512_000])
        };
        let dur = *rng.pick(durs);
        let cond = if rng.chance(2, 3) { 0 } else { rng.range(1, 3) };
        let ls = rand_events(rng, nl, nkeys, dom, false);
        let rs = rand_events(rng, nr, nkeys, dom, false);
        let (ls, rs) =
            if rng.chance(1, 3) { (with_decoys(ls, nkeys, rng), with_decoys(rs, nkeys, rng)) } else { (ls, rs) };
        let slack = rng.below(4) as i64;
        for m in merges(&ls, &rs) {
            let mode = if rng.chance(2, 3) { 'D' } else { 'M' };
            out.push(show_case(mode, dur, cond, &shifted(&m, base)));
            out.push(show_case(mode, dur, cond, &shifted(&with_tracking_wm(&m, slack, rng), base)));
            let b = shifted(&with_random_wm(&m, dom, rng), base);
            // small and negative watermarks next to huge timestamps never evict
            let b = if rng.chance(1, 4) {
                let mut b = b;
                b.insert(rng.below(b.len() as u64 + 1) as usize, Op::Wm('l', rng.below(9) as i64 - 4));
                b
            } else {
                b
            };
            out.push(show_case(mode, dur, cond, &b));
        }
    }

    // (5) several joins registered on ONE manager, sharing streams in the same and in different roles; every
    // join's batches are compared with ITS OWN reference join
    for _ in 0..n / 6 {
        multi_join_cases(rng, &mut out, thorough);
    }

    // (6) joins unregistered and registered again under the same id on a live manager (before the first event, in
    // the middle of a run, away for a while, gone for good), next to joins that stay
    for _ in 0..n / 6 {
        ctl_cases(rng, &mut out, thorough);
    }

    // (7) unusual but legal join key values (empty, blank, confusable, numeric-looking, stream names, separators,
    // case / Unicode-normalisation pairs, very long)
    unusual_key_cases(rng, n, tier, &mut out);

    // (8) clear() on a live manager followed by normal use
    for _ in 0..(if thorough { n / 18 } else { n / 6 }) {
        clear_cases(rng, &mut out, thorough);
    }

    // (9) every fifth (thorough: fifteenth) case of ALL families above once more with statistics probes `S` (get_stats on the node,
    // get_join_stats + get_all_stats on the manager) sprinkled between the calls: they must not disturb the join
    let total = out.len();
    for idx in (0..total).step_by(if thorough { 15 } else { 5 }) {
        let c = out[idx].clone();
        let probe = |ops: &[Op], rng: &mut Rng| -> Vec<Op> {
            let mut v = Vec::new();
            for op in ops {
                if rng.chance(1, 3) {
                    v.push(Op::Stats);
                }
                v.push(op.clone());
            }
            v.push(Op::Stats);
            v
        };
        if c.starts_with("J ") {
            if let Some((joins, ops)) = parse_jcase(&c) {
                out.push(show_jcase(&joins, &probe(&ops, rng)));
            }
        } else if let Some((mode, dur, cond, ops)) = parse_case(&c) {
            out.push(show_case(mode, dur, cond, &probe(&ops, rng)));
        }
    }
    out
}

/// candidates with smaller values inside the ops (payload, timestamps, watermarks)
fn shrink_values(ops: &[Op]) -> Vec<Vec<Op>> {
    let mut out = Vec::new();
    // common offset of all timestamps (and watermarks): drop it, halve it, lower it below 2^53
    let min_ts = ops.iter().filter_map(ts_of).min().unwrap_or(0);
    if min_ts > 0 {
        let mut subs = vec![min_ts, min_ts / 2];
        if min_ts > (1 << 53) {
            subs.push(min_ts - (1 << 53));
        }
        if min_ts > 1000 {
            subs.push(min_ts % 1000);
            subs.push(1);
        }
        for sub in subs {
            if sub == 0 {
                continue;
            }
            out.push(
                ops.iter()
                    .map(|op| match op {
                        Op::Ev(s, e) => Op::Ev(*s, Ev { ts: e.ts - sub, ..e.clone() }),
                        Op::Wm(s, w) => Op::Wm(*s, *w - sub as i64),
                        Op::Ctl(c, i) => Op::Ctl(*c, *i),
                        Op::Stats => Op::Stats,
                    })
                    .collect(),
            );
        }
    }
    for i in 0..ops.len() {
        match &ops[i] {
            Op::Ctl(_, _) | Op::Stats => {}
            Op::Ev(s, e) => {
                // one candidate per thing that can get smaller: drop the decoy, zero the payload, lower the timestamp
                let mut cands: Vec<Ev> = Vec::new();
                if e.decoy.is_some() {
                    cands.push(Ev { decoy: None, ..e.clone() });
                }
                if e.v != 0 {
                    cands.push(Ev { v: 0, ..e.clone() });
                } else if e.ts > 0 {
                    cands.push(Ev { ts: e.ts - 1, ..e.clone() });
                }
                for c in cands {
                    let mut v = ops.to_vec();
                    v[i] = Op::Ev(*s, c);
                    out.push(v);
                }
            }
            Op::Wm(s, w) => {
                if *w != 0 {
                    let mut v = ops.to_vec();
                    v[i] = Op::Wm(*s, *w / 2);
                    out.push(v);
                }
            }
        }
    }
    out
}

fn shrink(case: &str) -> Vec<String> {
    if case.starts_with("J ") {
        let Some((joins, ops)) = parse_jcase(case) else { return vec![] };
        let mut out: Vec<String> = Vec::new();
        if joins.len() > 1 {
            for i in 0..joins.len() {
                let mut js = joins.clone();
                js.remove(i);
                out.push(show_jcase(&js, &ops));
            }
        }
        // a whole unregister / register-again pair of one join at once
        for a in 0..ops.len() {
            if let Op::Ctl('U', i) = &ops[a] {
                if let Some(b) = (a + 1..ops.len()).find(|b| matches!(&ops[*b], Op::Ctl(_, k) if k == i)) {
                    let mut v = ops.clone();
                    v.remove(b);
                    v.remove(a);
                    out.push(show_jcase(&joins, &v));
                }
            }
        }
        out.extend(shrink_list(&ops).into_iter().map(|v| show_jcase(&joins, &v)));
        for i in 0..joins.len() {
            if joins[i].cond != 0 {
                let mut js = joins.clone();
                js[i].cond = 0;
                out.push(show_jcase(&js, &ops));
            }
        }
        out.extend(shrink_values(&ops).into_iter().map(|v| show_jcase(&joins, &v)));
        // candidates that break the alternation of the control ops (or refer to a dropped join) are not cases
        out.retain(|c| parse_jcase(c).is_some());
        return out;
    }
    let Some((mode, dur, cond, ops)) = parse_case(case) else { return vec![] };
    let mut out: Vec<String> =
        shrink_list(&ops).into_iter().map(|v| show_case(mode, dur, cond, &v)).collect();
    if mode == 'M' {
        out.push(show_case('D', dur, cond, &ops));
    }
    if cond != 0 {
        out.push(show_case(mode, dur, 0, &ops));
    }
    out.extend(shrink_values(&ops).into_iter().map(|v| show_case(mode, dur, cond, &v)));
    out
}

fn main() {
    main_with(Prop { gen, exec, shrink });
}
