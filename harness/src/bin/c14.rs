//! C14 — inner time-window stream join (`StreamJoinNode`, directly and through `StreamJoinManager`).
//! case := `<mode> <durMs> <cond> <op,op,...>`
//!    mode  D = calls on the node, M = calls through the manager (one registered join left/right)
//!    durMs = window duration in milliseconds (`JoinStrategy::TimeWindow { duration }`)
//!    cond  0 = always true, 1 = left.v < right.v, 2 = left.v != right.v, 3 = left.ts <= right.ts
//!    op    `L<id>:<ts>:<key|->:<v>` `R…` `X…`  event on stream left / right / other
//!          `Wl<int>` `Wr<int>` `Wx<int>`       watermark (stream letter used in manager mode)
//! obs  := `nocalls` | call;call;…   call := `-` | `lid:rid,…` sorted   (the Vec<JoinedEvent> of that call)
use rre_harness::*;
use rust_rule_engine::rete::stream_join_node::{JoinStrategy, JoinType, JoinedEvent, StreamJoinNode};
use rust_rule_engine::streaming::event::StreamEvent;
use rust_rule_engine::streaming::join_manager::StreamJoinManager;
use rust_rule_engine::types::Value;
use std::collections::HashMap;
use std::sync::{Arc, Mutex};
use std::time::Duration;

#[derive(Clone, Debug, PartialEq)]
struct Ev {
    id: u64,
    ts: u64,
    key: Option<u64>,
    v: i64,
}

#[derive(Clone, Debug, PartialEq)]
enum Op {
    Ev(char, Ev),  // 'L' | 'R' | 'X'
    Wm(char, i64), // 'l' | 'r' | 'x'
}

fn show_op(op: &Op) -> String {
    match op {
        Op::Ev(s, e) => format!(
            "{}{}:{}:{}:{}",
            s,
            e.id,
            e.ts,
            e.key.map(|k| k.to_string()).unwrap_or_else(|| "-".into()),
            e.v
        ),
        Op::Wm(s, w) => format!("W{}{}", s, w),
    }
}

fn show_case(mode: char, dur: u64, cond: u64, ops: &[Op]) -> String {
    let o = if ops.is_empty() {
        "-".to_string()
    } else {
        ops.iter().map(show_op).collect::<Vec<_>>().join(",")
    };
    format!("{} {} {} {}", mode, dur, cond, o)
}

fn parse_op(s: &str) -> Option<Op> {
    let c = s.chars().next()?;
    match c {
        'L' | 'R' | 'X' => {
            let f: Vec<&str> = s[1..].split(':').collect();
            if f.len() != 4 {
                return None;
            }
            Some(Op::Ev(
                c,
                Ev {
                    id: f[0].parse().ok()?,
                    ts: f[1].parse().ok()?,
                    key: if f[2] == "-" { None } else { Some(f[2].parse().ok()?) },
                    v: f[3].parse().ok()?,
                },
            ))
        }
        'W' => {
            let st = s[1..].chars().next()?;
            if !"lrx".contains(st) {
                return None;
            }
            Some(Op::Wm(st, s[2..].parse().ok()?))
        }
        _ => None,
    }
}

fn parse_case(case: &str) -> Option<(char, u64, u64, Vec<Op>)> {
    let t: Vec<&str> = case.split_whitespace().collect();
    if t.len() != 4 {
        return None;
    }
    let mode = match t[0] {
        "D" => 'D',
        "M" => 'M',
        _ => return None,
    };
    let ops = if t[3] == "-" {
        vec![]
    } else {
        t[3].split(',').map(parse_op).collect::<Option<Vec<_>>>()?
    };
    Some((mode, t[1].parse().ok()?, t[2].parse().ok()?, ops))
}

fn stream_name(c: char) -> &'static str {
    match c {
        'L' | 'l' => "left",
        'R' | 'r' => "right",
        _ => "other",
    }
}

fn mk_event(side: char, e: &Ev) -> StreamEvent {
    let mut data = HashMap::new();
    match e.key {
        Some(k) => {
            data.insert("k".to_string(), Value::String(format!("key{}", k)));
        }
        // key-less: the field is absent, or present with a non-string value (extractor -> None)
        None => {
            if e.id % 2 == 1 {
                data.insert("k".to_string(), Value::Integer(7));
            }
        }
    }
    data.insert("v".to_string(), Value::Integer(e.v));
    let mut ev = StreamEvent::with_timestamp("e", data, stream_name(side), e.ts);
    ev.id = e.id.to_string();
    ev
}

fn v_of(e: &StreamEvent) -> i64 {
    e.data.get("v").and_then(|v| v.as_integer()).unwrap_or(0)
}

fn mk_node(dur: u64, cond: u64) -> StreamJoinNode {
    let c: Box<dyn Fn(&StreamEvent, &StreamEvent) -> bool + Send + Sync> = match cond {
        0 => Box::new(|_, _| true),
        1 => Box::new(|l, r| v_of(l) < v_of(r)),
        2 => Box::new(|l, r| v_of(l) != v_of(r)),
        _ => Box::new(|l, r| l.metadata.timestamp <= r.metadata.timestamp),
    };
    StreamJoinNode::new(
        "left".to_string(),
        "right".to_string(),
        JoinType::Inner,
        JoinStrategy::TimeWindow { duration: Duration::from_millis(dur) },
        Box::new(|e| e.data.get("k").and_then(|v| v.as_string())),
        Box::new(|e| e.data.get("k").and_then(|v| v.as_string())),
        c,
    )
}

fn id_of(e: &Option<StreamEvent>) -> String {
    match e {
        Some(e) => e.id.clone(),
        None => "_".to_string(),
    }
}

fn show_call(js: &[JoinedEvent]) -> String {
    if js.is_empty() {
        return "-".to_string();
    }
    let mut ps: Vec<(u64, u64, String)> = js
        .iter()
        .map(|j| {
            let l = id_of(&j.left);
            let r = id_of(&j.right);
            (l.parse().unwrap_or(u64::MAX), r.parse().unwrap_or(u64::MAX), format!("{}:{}", l, r))
        })
        .collect();
    ps.sort();
    ps.into_iter().map(|p| p.2).collect::<Vec<_>>().join(",")
}

fn exec(case: &str) -> String {
    let Some((mode, dur, cond, ops)) = parse_case(case) else { return "bad-case".into() };
    let mut calls: Vec<String> = Vec::new();
    if mode == 'D' {
        let mut node = mk_node(dur, cond);
        for op in &ops {
            let out = match op {
                Op::Ev('L', e) => node.process_left(mk_event('L', e)),
                Op::Ev('R', e) => node.process_right(mk_event('R', e)),
                Op::Ev(_, _) => vec![], // an event of an unrelated stream is never handed to the node
                Op::Wm(_, w) => node.update_watermark(*w),
            };
            calls.push(show_call(&out));
        }
    } else {
        let sink: Arc<Mutex<Vec<JoinedEvent>>> = Arc::new(Mutex::new(Vec::new()));
        let s2 = sink.clone();
        let mut mgr = StreamJoinManager::new();
        mgr.register_join(
            "j".to_string(),
            mk_node(dur, cond),
            Box::new(move |j| s2.lock().unwrap().push(j)),
        );
        for op in &ops {
            match op {
                Op::Ev(s, e) => mgr.process_event(mk_event(*s, e)),
                Op::Wm(s, w) => mgr.update_watermark(stream_name(*s), *w),
            }
            let out: Vec<JoinedEvent> = sink.lock().unwrap().drain(..).collect();
            calls.push(show_call(&out));
        }
    }
    if calls.is_empty() { "nocalls".into() } else { calls.join(";") }
}

// ------------------------------------------------------------------------------------ generation

/// all merges of `ls` and `rs` (both orders preserved)
fn merges(ls: &[Ev], rs: &[Ev]) -> Vec<Vec<Op>> {
    fn go(ls: &[Ev], rs: &[Ev], cur: &mut Vec<Op>, out: &mut Vec<Vec<Op>>) {
        if ls.is_empty() && rs.is_empty() {
            out.push(cur.clone());
            return;
        }
        if let Some((l, rest)) = ls.split_first() {
            cur.push(Op::Ev('L', l.clone()));
            go(rest, rs, cur, out);
            cur.pop();
        }
        if let Some((r, rest)) = rs.split_first() {
            cur.push(Op::Ev('R', r.clone()));
            go(ls, rest, cur, out);
            cur.pop();
        }
    }
    let mut out = Vec::new();
    go(ls, rs, &mut Vec::new(), &mut out);
    out
}

fn ts_of(op: &Op) -> Option<u64> {
    match op {
        Op::Ev(_, e) => Some(e.ts),
        _ => None,
    }
}

/// a watermark advance after every arrival: w = (largest timestamp so far) − slack
fn with_tracking_wm(ops: &[Op], slack: i64, rng: &mut Rng) -> Vec<Op> {
    let mut out = Vec::new();
    let mut mx: i64 = 0;
    for op in ops {
        out.push(op.clone());
        if let Some(t) = ts_of(op) {
            mx = mx.max(t as i64);
            out.push(Op::Wm(*rng.pick(&['l', 'r']), mx - slack));
        }
    }
    out
}

/// watermark calls with arbitrary values (negative, regressing, far ahead) at random places
fn with_random_wm(ops: &[Op], dom: u64, rng: &mut Rng) -> Vec<Op> {
    let mut out = Vec::new();
    for op in ops {
        if rng.chance(1, 3) {
            let w = rng.below(dom + 6) as i64 - 2;
            out.push(Op::Wm(*rng.pick(&['l', 'r']), w));
        }
        out.push(op.clone());
    }
    if rng.chance(1, 2) {
        out.push(Op::Wm('l', rng.below(dom + 6) as i64));
    }
    out
}

/// sprinkle traffic the join must ignore (manager mode): unrelated stream events / watermarks
fn with_unrouted(ops: &[Op], rng: &mut Rng) -> Vec<Op> {
    let mut out = Vec::new();
    for op in ops {
        if rng.chance(1, 4) {
            if rng.chance(1, 2) {
                out.push(Op::Ev('X', Ev { id: 50 + rng.below(5), ts: rng.below(8), key: Some(rng.below(2)), v: 0 }));
            } else {
                out.push(Op::Wm('x', 1000));
            }
        }
        out.push(op.clone());
    }
    out
}

fn rand_events(rng: &mut Rng, n: usize, nkeys: u64, dom: u64, keyless: bool) -> Vec<Ev> {
    (0..n)
        .map(|i| Ev {
            id: i as u64,
            ts: rng.below(dom),
            key: if keyless && rng.chance(1, 5) { None } else { Some(rng.below(nkeys)) },
            v: rng.below(3) as i64 - 1,
        })
        .collect()
}

fn gen(rng: &mut Rng, n: usize, tier: &str) -> Vec<String> {
    let mut out = Vec::new();
    let maxn: u64 = if tier == "thorough" { 4 } else { 3 };

    // (1) exhaustive tiny domain: every 2+2 configuration over ts ∈ {0,2}, key ∈ {0,1,none},
    // every merge, window 1 s; without watermarks and with a tracking watermark of slack 0
    let choices: Vec<(u64, Option<u64>)> =
        vec![(0, Some(0)), (0, Some(1)), (0, None), (2, Some(0)), (2, Some(1)), (2, None)];
    let nc = choices.len();
    for code in 0..nc * nc * nc * nc {
        let pick = |j: usize| choices[(code / nc.pow(j as u32)) % nc];
        let ev = |id: u64, c: (u64, Option<u64>)| Ev { id, ts: c.0, key: c.1, v: 0 };
        let ls = vec![ev(0, pick(0)), ev(1, pick(1))];
        let rs = vec![ev(0, pick(2)), ev(1, pick(3))];
        for (mi, m) in merges(&ls, &rs).iter().enumerate() {
            let mode = if (code + mi) % 2 == 0 { 'D' } else { 'M' };
            out.push(show_case(mode, 1000, 0, m));
            out.push(show_case(mode, 1500, 0, &with_tracking_wm(m, 0, rng)));
        }
    }

    // (2) n random configurations of ≤ maxn + maxn events, ALL merges of each, each merge
    // without watermarks, with a tracking watermark, and with arbitrary watermark calls
    for _ in 0..n {
        // sizes biased towards the largest (most merges): max of two draws
        let nl = rng.range(0, maxn).max(rng.range(0, maxn)) as usize;
        let nr = rng.range(0, maxn).max(rng.range(0, maxn)) as usize;
        let nkeys = rng.range(1, 3);
        let dom = *rng.pick(&[3u64, 5, 8]);
        let keyless = rng.chance(1, 2);
        let dur = *rng.pick(&[0u64, 999, 1000, 1999, 2000, 3000, 5000]);
        let cond = if rng.chance(1, 2) { 0 } else { rng.range(1, 3) };
        let ls = rand_events(rng, nl, nkeys, dom, keyless);
        let rs = rand_events(rng, nr, nkeys, dom, keyless);
        let slack = rng.below(4) as i64;
        for m in merges(&ls, &rs) {
            let mode = if rng.chance(1, 2) { 'D' } else { 'M' };
            out.push(show_case(mode, dur, cond, &m));
            let a = with_tracking_wm(&m, slack, rng);
            out.push(show_case(mode, dur, cond, &a));
            let b = with_random_wm(&m, dom, rng);
            let b = if mode == 'M' { with_unrouted(&b, rng) } else { b };
            out.push(show_case(mode, dur, cond, &b));
        }
    }
    out
}

fn shrink(case: &str) -> Vec<String> {
    let Some((mode, dur, cond, ops)) = parse_case(case) else { return vec![] };
    let mut out: Vec<String> =
        shrink_list(&ops).into_iter().map(|v| show_case(mode, dur, cond, &v)).collect();
    if mode == 'M' {
        out.push(show_case('D', dur, cond, &ops));
    }
    if cond != 0 {
        out.push(show_case(mode, dur, 0, &ops));
    }
    for i in 0..ops.len() {
        let mut v = ops.clone();
        match &mut v[i] {
            Op::Ev(_, e) => {
                if e.v != 0 {
                    e.v = 0;
                } else if e.ts > 0 {
                    e.ts -= 1;
                } else {
                    continue;
                }
            }
            Op::Wm(_, w) => {
                if *w != 0 {
                    *w /= 2;
                } else {
                    continue;
                }
            }
        }
        out.push(show_case(mode, dur, cond, &v));
    }
    out
}

fn main() {
    main_with(Prop { gen, exec, shrink });
}
