//! C13 — WatermarkedStream under every watermark / late-data strategy.
//! case := `<W> <L> <ev,ev,...>`  W ∈ B<dur>|M|C|P<interval> ; L ∈ D|A<dur>|S|R ; event ids are positions.
//! dur := <ms> (Duration::from_millis) | <secs>s<nanos> (Duration::new(secs, nanos), nanos < 10^9) | MAX (Duration::MAX): the
//! configured max_delay / max_lateness is a `Duration`; the code works with `d.as_millis() as u64` (model: `C13.durMillisU64`).
//! ev := <ts> | <ts>@<now>: `now` is the reading (ms) of the generator's processing-time clock when the event is
//! offered (hook `watermark::verif_clock`, cfg rre_verif; default 0; the stream is created at reading 0). Readings are generated for
//! EVERY watermark strategy: Periodic depends on them, the other three must ignore them (`clock_family`).
//! The binary installs a `log` logger at Trace (`SinkLogger`): log-macro arguments in the library are evaluated on every run.
//! Every ev may end in a DECORATION `#<src>.<typ>.<pay>.<ids>.<seq>.<tag>` (indices into the tables SOURCES / TYPES / payload /
//! id style / sequence number / tags below; missing trailing fields = 0; no `#` = all 0 = the event every older case offers): the
//! fields of a StreamEvent the watermark logic must IGNORE (`metadata.source`, `event_type`, `data`, the text of `id`,
//! `metadata.sequence`, `metadata.tags`). The Lean driver drops the decoration (the model is a function of id position, timestamp
//! and clock reading only), the oracle is unchanged: whatever the decoration, the observations must satisfy `C13.runOk`.
//! obs  := step;step;…  step := wm/hist/events/side/late,dropped,allowed,sidecount
use rre_harness::*;
use rust_rule_engine::streaming::event::StreamEvent;
use rust_rule_engine::streaming::watermark::*;
use rust_rule_engine::types::Value;
use std::collections::HashMap;
use std::time::Duration;

/// (timestamp, clock reading, decoration)
type Evt = (u64, u64, [u64; 6]);

fn parse_evs(s: &str) -> Option<Vec<Evt>> {
    if s == "-" {
        return Some(vec![]);
    }
    s.split(',')
        .map(|t| {
            let (t, deco) = match t.split_once('#') {
                Some((a, d)) => {
                    let mut deco = [0u64; 6];
                    let parts: Vec<&str> = d.split('.').collect();
                    if parts.len() > 6 {
                        return None;
                    }
                    for (i, p) in parts.iter().enumerate() {
                        deco[i] = p.parse().ok()?;
                    }
                    (a, deco)
                }
                None => (t, [0u64; 6]),
            };
            match t.split_once('@') {
                Some((a, b)) => Some((a.parse().ok()?, b.parse().ok()?, deco)),
                None => Some((t.parse().ok()?, 0, deco)),
            }
        })
        .collect()
}

fn join_evs(v: &[Evt]) -> String {
    if v.is_empty() {
        return "-".into();
    }
    v.iter()
        .map(|(t, n, d)| {
            let mut s = if *n == 0 { t.to_string() } else { format!("{}@{}", t, n) };
            if d.iter().any(|x| *x != 0) {
                let last = d.iter().rposition(|x| *x != 0).unwrap();
                s.push('#');
                s.push_str(&d[..=last].iter().map(|x| x.to_string()).collect::<Vec<_>>().join("."));
            }
            s
        })
        .collect::<Vec<_>>()
        .join(",")
}

/// `metadata.source` values: index 0 is the source of every undecorated event; the empty string, look-alikes (case, trailing
/// blank), a long one
const SOURCES: [&str; 8] = ["h", "", "gw-a", "gw-b", "H", "h ", "sensor/1/\u{e9}", "0"];
/// `event_type` values (0 = undecorated)
const TYPES: [&str; 6] = ["E", "", "Watermark", "late", "e", "E "];
const N_PAY: u64 = 8;
const N_IDS: u64 = 6;
const N_SEQ: u64 = 5;
const N_TAG: u64 = 4;

/// payload `data` of an event: 0 empty; 1..3 a field called "timestamp" whose value is NOT the event's timestamp (integer far
/// ahead / behind, float, string); 4 fields named after the other metadata; 5 large (300 fields); 6 nested / Null values;
/// 7 "timestamp" = u64::MAX as i64 bits / negative
fn payload(k: u64, ts: u64, i: usize) -> HashMap<String, Value> {
    let mut m = HashMap::new();
    match k {
        0 => {}
        1 => {
            m.insert("timestamp".to_string(), Value::Integer((ts as i64).wrapping_add(1000)));
        }
        2 => {
            m.insert("timestamp".to_string(), Value::Integer(0));
            m.insert("event_time".to_string(), Value::Number(ts as f64 * 2.0 + 0.5));
        }
        3 => {
            m.insert("timestamp".to_string(), Value::String((ts / 2).to_string()));
            m.insert("ts".to_string(), Value::String("1".into()));
        }
        4 => {
            m.insert("source".to_string(), Value::String(format!("other-{}", i)));
            m.insert("id".to_string(), Value::String("0".into()));
            m.insert("watermark".to_string(), Value::Integer(i64::MAX));
            m.insert("sequence".to_string(), Value::Integer(i as i64));
            m.insert("late".to_string(), Value::Boolean(true));
        }
        5 => {
            for j in 0..300 {
                m.insert(format!("f{}", j), Value::Integer(j as i64 * 7 + i as i64));
            }
            m.insert("blob".to_string(), Value::String("x".repeat(4096)));
        }
        6 => {
            m.insert("timestamp".to_string(), Value::Null);
            m.insert("nested".to_string(), Value::Array(vec![Value::Integer(ts as i64), Value::Null, Value::String(String::new())]));
            m.insert(String::new(), Value::Boolean(false));
        }
        _ => {
            m.insert("timestamp".to_string(), Value::Integer(-1));
            m.insert("metadata.timestamp".to_string(), Value::Integer(i64::MIN));
            m.insert("max_timestamp".to_string(), Value::Number(f64::NAN));
        }
    }
    m
}

/// the TEXT of the caller-assigned id of the event at position `i` (every style is injective in `i`, and two styles give the same
/// text only for the same `i`, so ids stay unique within a case): plain, zero padded, timestamp first, long, source first,
/// empty string for position 0
fn id_text(style: u64, i: usize, ts: u64, src: &str) -> String {
    match style {
        0 => i.to_string(),
        1 => format!("evt_{:08}", i),
        2 => format!("{}-{}", ts, i),
        3 => format!("{}{}", "ab".repeat(200), i),
        4 => format!("{}:{}", src, i),
        _ => {
            if i == 0 {
                String::new()
            } else {
                format!("#{}", i)
            }
        }
    }
}

fn seq_of(k: u64, i: usize, ts: u64) -> u64 {
    match k {
        0 => 0,
        1 => i as u64 + 1,
        2 => 1000 - (i as u64).min(1000),
        3 => u64::MAX,
        _ => ts.wrapping_mul(3),
    }
}

fn tags_of(k: u64, ts: u64) -> Vec<(String, String)> {
    match k {
        0 => vec![],
        1 => vec![("timestamp".into(), ts.wrapping_add(7).to_string()), ("source".into(), "tagged".into())],
        2 => vec![("late".into(), "true".into()), ("watermark".into(), "0".into())],
        _ => vec![("".into(), "".into()), ("allowed_lateness".into(), u64::MAX.to_string())],
    }
}

/// `<ms>` | `<secs>s<nanos>` | `MAX`
fn parse_dur(s: &str) -> Option<Duration> {
    if s == "MAX" {
        return Some(Duration::MAX);
    }
    match s.split_once('s') {
        None => Some(Duration::from_millis(s.parse().ok()?)),
        Some((a, b)) => {
            let (secs, nanos): (u64, u32) = (a.parse().ok()?, b.parse().ok()?);
            if nanos < 1_000_000_000 { Some(Duration::new(secs, nanos)) } else { None }
        }
    }
}

fn parse_case(case: &str) -> Option<(WatermarkStrategy, LateDataStrategy, Vec<Evt>)> {
    let t: Vec<&str> = case.split_whitespace().collect();
    if t.len() != 3 {
        return None;
    }
    let w = match t[0] {
        "M" => WatermarkStrategy::MonotonicAscending,
        "C" => WatermarkStrategy::Custom,
        s if s.starts_with('B') => WatermarkStrategy::BoundedOutOfOrder {
            max_delay: parse_dur(&s[1..])?,
        },
        s if s.starts_with('P') => WatermarkStrategy::Periodic {
            interval: Duration::from_millis(s[1..].parse().ok()?),
        },
        _ => return None,
    };
    let l = match t[1] {
        "D" => LateDataStrategy::Drop,
        "S" => LateDataStrategy::SideOutput,
        "R" => LateDataStrategy::RecomputeWindows,
        s if s.starts_with('A') => LateDataStrategy::AllowedLateness {
            max_lateness: parse_dur(&s[1..])?,
        },
        _ => return None,
    };
    Some((w, l, parse_evs(t[2])?))
}

/// the events as their positions in the case (looked up by the text of their id; an id the case never offered prints `?`)
fn ids(evs: &[StreamEvent], pos: &HashMap<String, usize>) -> String {
    join_nums(&evs.iter().map(|e| pos.get(&e.id).map(|p| p.to_string()).unwrap_or_else(|| "?".into())).collect::<Vec<_>>())
}

fn exec(case: &str) -> String {
    let Some((w, l, ts)) = parse_case(case) else { return "bad-case".into() };
    verif_clock::set(Some(0));
    let mut s = WatermarkedStream::new(w, l);
    let mut steps = Vec::new();
    let mut pos: HashMap<String, usize> = HashMap::new();
    for (i, (t, _, d)) in ts.iter().enumerate() {
        if d[0] >= SOURCES.len() as u64 || d[1] >= TYPES.len() as u64 || d[2] >= N_PAY || d[3] >= N_IDS || d[4] >= N_SEQ || d[5] >= N_TAG {
            return "bad-case".into();
        }
        if pos.insert(id_text(d[3], i, *t, SOURCES[d[0] as usize]), i).is_some() {
            return "bad-case".into();
        }
    }
    for (i, (t, now, d)) in ts.iter().enumerate() {
        verif_clock::set(Some(*now));
        let src = SOURCES[d[0] as usize];
        let mut e = StreamEvent::with_timestamp(TYPES[d[1] as usize], payload(d[2], *t, i), src, *t);
        e.id = id_text(d[3], i, *t, src);
        e.metadata.sequence = seq_of(d[4], i, *t);
        for (k, v) in tags_of(d[5], *t) {
            e.add_tag(k, v);
        }
        if s.add_event(e).is_err() {
            return "err".into();
        }
        let st = s.late_stats();
        steps.push(format!(
            "{}/{}/{}/{}/{},{},{},{}",
            s.current_watermark().timestamp,
            join_nums(&s.watermark_history().iter().map(|w| w.timestamp).collect::<Vec<_>>()),
            ids(s.events(), &pos),
            ids(s.side_output(), &pos),
            st.total_late,
            st.dropped,
            st.allowed,
            st.side_output
        ));
    }
    verif_clock::set(None);
    if steps.is_empty() { "-".into() } else { steps.join(";") }
}

fn strategies(dom: u64) -> (Vec<String>, Vec<String>) {
    let mut ws = vec!["M".to_string(), "C".to_string()];
    for d in 0..=dom + 1 {
        ws.push(format!("B{}", d));
    }
    let mut ls = vec!["D".to_string(), "S".to_string(), "R".to_string()];
    for m in 0..=dom {
        ls.push(format!("A{}", m));
    }
    (ws, ls)
}

fn gen(rng: &mut Rng, n: usize, tier: &str) -> Vec<String> {
    let mut out = Vec::new();
    // exhaustive part: every timestamp sequence of length <= k over 0..dom, every strategy pair
    let (k, dom) = if tier == "thorough" { (5usize, 4u64) } else { (4usize, 3u64) };
    let (ws, ls) = strategies(dom);
    let mut seqs: Vec<Vec<u64>> = vec![vec![]];
    let mut frontier: Vec<Vec<u64>> = vec![vec![]];
    for _ in 0..k {
        let mut next = Vec::new();
        for s in &frontier {
            for t in 0..dom {
                let mut s2 = s.clone();
                s2.push(t);
                next.push(s2);
            }
        }
        seqs.extend(next.iter().cloned());
        frontier = next;
    }
    for s in &seqs {
        for w in &ws {
            for l in &ls {
                out.push(format!("{} {} {}", w, l, join_nums(s)));
            }
        }
    }
    // random part: length <= 12, timestamps from a small dense domain, all orders
    for _ in 0..n {
        let len = rng.range(1, 12) as usize;
        let dom = *rng.pick(&[4u64, 8, 16, 40]);
        let mut ts: Vec<u64> = (0..len).map(|_| rng.below(dom)).collect();
        match rng.below(4) {
            0 => ts.sort(),
            1 => {
                ts.sort();
                ts.reverse()
            }
            _ => {}
        }
        let w = match rng.below(6) {
            0 => "M".to_string(),
            1 => "C".to_string(),
            _ => format!("B{}", rng.below(dom + 2)),
        };
        let l = match rng.below(5) {
            0 => "D".to_string(),
            1 => "S".to_string(),
            2 => "R".to_string(),
            _ => format!("A{}", rng.below(dom + 1)),
        };
        out.push(format!("{} {} {}", w, l, join_nums(&ts)));
    }
    let late = |rng: &mut Rng, dom: u64| -> String {
        match rng.below(5) {
            0 => "D".to_string(),
            1 => "S".to_string(),
            2 => "R".to_string(),
            _ => format!("A{}", rng.below(dom + 1)),
        }
    };
    // long streams: 65..200 events, most of them advancing the watermark (the history must stay the full,
    // strictly increasing record of every advance however long the stream runs), with some late ones mixed in
    for _ in 0..(n / 150).max(6) {
        let len = rng.range(65, 200) as usize;
        let step = rng.range(1, 12);
        let mut t = rng.below(50);
        let mut ts = Vec::with_capacity(len);
        for _ in 0..len {
            if rng.chance(1, 7) {
                ts.push(t.saturating_sub(rng.below(40)));
            } else {
                t += rng.range(1, step);
                ts.push(t);
            }
        }
        let w = if rng.chance(1, 3) { "M".to_string() } else { format!("B{}", rng.below(6)) };
        out.push(format!("{} {} {}", w, late(rng, 20), join_nums(&ts)));
    }
    // extreme timestamps: around 2^32, 2^53, 2^63 and u64::MAX, next to small ones (an end-of-stream marker
    // offered at a small watermark; small timestamps offered at a huge watermark)
    let big: [u64; 12] = [
        u32::MAX as u64, (1u64 << 32) + 1, 1_700_000_000_123, (1u64 << 53) - 1, (1u64 << 53) + 1, (1u64 << 62) + 5,
        (1u64 << 63) - 1, 1u64 << 63, (1u64 << 63) + 1, u64::MAX - 10, u64::MAX - 1, u64::MAX,
    ];
    for _ in 0..(n / 20).max(40) {
        let len = rng.range(2, 8) as usize;
        let ts: Vec<u64> = (0..len)
            .map(|_| match rng.below(3) {
                0 => rng.below(200),
                1 => *rng.pick(&big),
                _ => rng.pick(&big).saturating_sub(rng.below(20)),
            })
            .collect();
        let w = match rng.below(4) {
            0 => "M".to_string(),
            1 => format!("B{}", rng.pick(&big)),
            _ => format!("B{}", rng.below(30)),
        };
        let l = match rng.below(4) {
            0 => format!("A{}", rng.pick(&big)),
            _ => late(rng, 30),
        };
        out.push(format!("{} {} {}", w, l, join_nums(&ts)));
    }
    // Periodic strategy under an injected processing-time clock: intervals 0 (every on-time event emits), small and
    // huge (never emits); clock readings that stand still, advance by less / exactly / more than the interval, jump,
    // and run backwards (duration_since fails: no watermark); event timestamps as in the random part so that late
    // events occur once the watermark has moved
    for k in 0..(n / 4).max(300) {
        let len = rng.range(1, 12) as usize;
        let dom = *rng.pick(&[4u64, 8, 16, 40]);
        let iv = match rng.below(6) {
            0 => 0,
            1 => 1,
            2 => 3_600_000,
            _ => rng.range(2, 12),
        };
        let mut now = if rng.chance(1, 3) { 0 } else { rng.below(iv.min(20) + 3) };
        let mut evs = Vec::with_capacity(len);
        for _ in 0..len {
            now = match rng.below(8) {
                0 => now,                                          // clock stands still
                1 => now.saturating_sub(rng.range(1, 5)),          // runs backwards
                2 => now + iv.min(1000),                           // exactly one interval
                3 => now + iv.min(1000).saturating_sub(1),         // just short of it
                4 => now + iv.min(1000) + 1,
                5 => now + rng.below(4),
                6 => now + rng.range(10, 60),
                _ => now + rng.below(iv.min(30) + 2),
            };
            evs.push((rng.below(dom), now, [0u64; 6]));
        }
        if k % 5 == 0 {
            // ascending timestamps: every emission moves the watermark
            let mut t = 0;
            for e in evs.iter_mut() {
                t += rng.range(1, 6);
                if !rng.chance(1, 5) {
                    e.0 = t;
                } else {
                    e.0 = t.saturating_sub(rng.range(1, 9));
                }
            }
        }
        out.push(format!("P{} {} {}", iv, late(rng, dom), join_evs(&evs)));
    }
    // delays that are not round numbers of milliseconds, up to several seconds (a delay is an exact number of
    // milliseconds whatever its size), with events exactly delay / delay±1 behind the maximum
    for _ in 0..(n / 10).max(100) {
        let d = rng.range(999, 6000);
        let base = rng.range(d + 10, 200_000);
        let mut ts = vec![base];
        for _ in 0..rng.range(1, 5) {
            ts.push(match rng.below(5) {
                0 => base - d,
                1 => base - d + 1,
                2 => base - d - 1,
                3 => base + rng.below(3),
                _ => base - rng.below(d + 5),
            });
        }
        let l = match rng.below(3) {
            0 => format!("A{}", rng.range(999, 6000)),
            _ => late(rng, 50),
        };
        out.push(format!("B{} {} {}", d, l, join_nums(&ts)));
    }
    dur_family(rng, n, &mut out);
    clock_family(rng, n, &mut out);
    deco_family(rng, n, tier, &mut out);
    out
}

/// PROCESSING-TIME clock readings on the strategies that must IGNORE the clock (BoundedOutOfOrder, MonotonicAscending, Custom):
/// event time and processing time are different axes — however long the source was quiet on the wall clock (between construction and
/// the first event, or between two events), the bounded watermark stays `max seen - delay`. Gaps: 0, 1 ms, around 2 s (1999 / 2000 /
/// 2001), around the configured delay (delay-1 / delay / delay+1) and around max(delay, 2 s), 10 s, one hour, about 50 years (an epoch
/// clock starting after a 0 reading), and BACKWARDS (duration_since fails).
/// (a) fixed out-of-order sequences scaled to the delay x every position of ONE gap x every gap x every late strategy;
/// (b) random sequences with a random gap in front of every event.
fn clock_family(rng: &mut Rng, n: usize, out: &mut Vec<String>) {
    // (strategy token, effective delay in ms)
    let ws: [(&str, u64); 12] = [
        ("M", 0), ("C", 0), ("B0", 0), ("B1", 1), ("B3", 3), ("B500", 500), ("B1999", 1999), ("B2000", 2000), ("B2001", 2001),
        ("B5000", 5000), ("B1s999999999", 1999), ("B3600000", 3_600_000),
    ];
    let gaps_for = |d: u64| -> Vec<i64> {
        let mut g: Vec<i64> = vec![0, 1, 1999, 2000, 2001, 10_000, 3_600_000, 1_700_000_000_000, -1, -2500];
        for x in [d.saturating_sub(1), d, d + 1, d.max(2000) + 1, 2 * d + 1] {
            if !g.contains(&(x as i64)) {
                g.push(x as i64);
            }
        }
        g
    };
    let advance = |now: u64, gap: i64| -> u64 { if gap < 0 { now.saturating_sub((-gap) as u64) } else { now + gap as u64 } };
    for (w, d) in ws {
        // a unit so that `unit` behind the maximum is within the bound and `2*unit+…` is beyond it
        let u = (d / 2).max(1);
        let seqs: [Vec<u64>; 4] = [
            vec![2 * u, 4 * u, 6 * u, 6 * u - u.min(d), 5 * u],
            vec![10 * u, 10 * u + 1, 9 * u, 12 * u],
            vec![d + 5, d + 5 + d, d + 4, 3 * d + 9, 2 * d + 9],
            vec![3, 1, 2],
        ];
        for ts in &seqs {
            for pos in 0..ts.len() {
                for gap in gaps_for(d) {
                    // the clock starts at 3000 so that a backwards gap is representable; readings before `pos` advance by 1 ms
                    let mut now = if gap < 0 { 3000u64 } else { 0 };
                    let evs: Vec<Evt> = ts
                        .iter()
                        .enumerate()
                        .map(|(i, t)| {
                            now = if i == pos { advance(now, gap) } else { now + (i as u64 % 2) };
                            (*t, now, [0u64; 6])
                        })
                        .collect();
                    for l in ["D", "S", "A2", "R"] {
                        if l != "D" && (pos + gap.unsigned_abs() as usize) % 3 != 0 {
                            continue; // the other late strategies on a third of the points
                        }
                        out.push(format!("{} {} {}", w, l, join_evs(&evs)));
                    }
                }
            }
        }
    }
    for _ in 0..(n / 3).max(400) {
        let (w, d) = *rng.pick(&ws);
        let (w, d) = if rng.chance(1, 3) {
            let d = *rng.pick(&[2u64, 7, 40, 900, 2500, 7000]);
            (format!("B{}", d), d)
        } else {
            (w.to_string(), d)
        };
        let len = rng.range(1, 12) as usize;
        let dom = (*rng.pick(&[4u64, 16, 40])).max(d.min(8000) * 3);
        let gaps = gaps_for(d);
        let mut now = if rng.chance(1, 2) { 0 } else { rng.below(5000) };
        let mut hi = rng.below(dom);
        let mut evs: Vec<Evt> = Vec::with_capacity(len);
        for _ in 0..len {
            now = match rng.below(4) {
                0 => now + rng.below(3),
                _ => advance(now, *rng.pick(&gaps)),
            };
            // mostly near the maximum so far (on time, within / at / just beyond the bound), sometimes anywhere
            let t = match rng.below(5) {
                0 => rng.below(dom),
                1 => hi + rng.range(1, d.max(3)),
                2 => hi.saturating_sub(d),
                3 => hi.saturating_sub(rng.below(d + 2)),
                _ => hi + rng.below(3),
            };
            hi = hi.max(t);
            evs.push((t, now, [0u64; 6]));
        }
        let l = match rng.below(5) {
            0 => "D".to_string(),
            1 => "S".to_string(),
            2 => "R".to_string(),
            _ => format!("A{}", rng.below(d + 3)),
        };
        out.push(format!("{} {} {}", w, l, join_evs(&evs)));
    }
}

/// DECORATED events: the same timestamp sequences, offered as events that differ in the fields the watermark logic must ignore.
/// (a) exhaustive: every timestamp sequence of length <= 3 over 0..3 with every assignment of 3 sources (one of them the empty string)
///     to its events, under ascending / bounded 0,1,2 / periodic-0 watermarks and drop / allowed / side output;
/// (b) a sample of ALL the cases generated so far (every family: random, long, extreme timestamps, periodic clock, durations),
///     re-offered under one decoration mode: 2..4 sources dealt at random / alternating / one straggler / one source per event;
///     event types; payloads (empty, large, a "timestamp" field with another value, Null, NaN); id texts; sequence numbers;
///     tags; or everything at once.
fn deco_family(rng: &mut Rng, n: usize, tier: &str, out: &mut Vec<String>) {
    let k = if tier == "thorough" { 4usize } else { 3 };
    let mut seqs: Vec<Vec<u64>> = vec![];
    let mut frontier: Vec<Vec<u64>> = vec![vec![]];
    for _ in 0..k {
        let mut next = Vec::new();
        for s in &frontier {
            for t in 0..3u64 {
                let mut s2 = s.clone();
                s2.push(t);
                next.push(s2);
            }
        }
        seqs.extend(next.iter().cloned());
        frontier = next;
    }
    let srcs = [0u64, 1, 2];
    for s in &seqs {
        let mut asg = vec![0usize; s.len()];
        loop {
            let evs: Vec<Evt> = s.iter().zip(&asg).map(|(t, a)| (*t, 0, [srcs[*a], 0, 0, 0, 0, 0])).collect();
            for w in ["M", "B0", "B1", "B2", "P0"] {
                for l in ["D", "A1", "S"] {
                    out.push(format!("{} {} {}", w, l, join_evs(&evs)));
                }
            }
            let mut i = 0;
            while i < asg.len() {
                asg[i] += 1;
                if asg[i] < srcs.len() {
                    break;
                }
                asg[i] = 0;
                i += 1;
            }
            if i == asg.len() {
                break;
            }
        }
    }
    let base = out.len();
    for _ in 0..(n * 2).max(2000) {
        let c = out[rng.below(base as u64) as usize].clone();
        let t: Vec<&str> = c.split_whitespace().collect();
        if t.len() != 3 {
            continue;
        }
        let Some(mut evs) = parse_evs(t[2]) else { continue };
        if evs.is_empty() {
            continue;
        }
        // the pool of sources of this case: 2..4 distinct values (the empty string in half of the pools)
        let mut pool: Vec<u64> = (0..SOURCES.len() as u64).collect();
        for i in (1..pool.len()).rev() {
            pool.swap(i, rng.below(i as u64 + 1) as usize);
        }
        pool.truncate(rng.range(2, 4) as usize);
        if rng.chance(1, 2) && !pool.contains(&1) {
            pool[0] = 1;
        }
        let mode = rng.below(10);
        let straggler = rng.below(evs.len() as u64) as usize;
        for (i, e) in evs.iter_mut().enumerate() {
            let src = match rng.below(4) {
                _ if mode > 5 && mode != 9 => e.2[0],
                _ if mode == 0 => *rng.pick(&pool),
                _ if mode == 1 => pool[i % pool.len()],
                _ if mode == 2 => if i == straggler { pool[1] } else { pool[0] },
                _ if mode == 3 => (i as u64) % SOURCES.len() as u64,
                // mode 4 / 5 / 9: mostly one source, another now and then
                0 => *rng.pick(&pool),
                _ => pool[0],
            };
            e.2[0] = src;
            if mode == 5 || mode == 9 {
                e.2[1] = rng.below(TYPES.len() as u64);
            }
            if mode == 6 || mode == 9 {
                e.2[2] = rng.below(N_PAY);
            }
            if mode == 7 || mode == 9 {
                e.2[3] = rng.below(N_IDS);
            }
            if mode == 8 || mode == 9 {
                e.2[4] = rng.below(N_SEQ);
                e.2[5] = rng.below(N_TAG);
            }
        }
        out.push(format!("{} {} {}", t[0], t[1], join_evs(&evs)));
    }
}

/// configured durations that are NOT a whole number of milliseconds below 2^64: `Duration::MAX` (the idiom for "no limit"),
/// `from_secs(u64::MAX)`, whole seconds whose milliseconds pass 2^64 (`as_millis() as u64` keeps the low 64 bits: 2^64 ms + 384,
/// 2^55 s), the values just below / at / above 2^64 ms, 2^54 s (fits), and sub-millisecond parts (999_999 ns is 0 ms, 1_000_001 ns
/// is 1 ms, 1 s + 999_999_999 ns is 1999 ms)
const DURS: [&str; 22] = [
    "MAX", "18446744073709551615s0", "18446744073709551615s999999998", "18446744073709551s615000000", "18446744073709551s615999999",
    "18446744073709551s616000000", "18446744073709551s617000000", "18446744073709551s620999999", "18446744073709552s0",
    "18446744073709552s1000000", "18446744073709553s0", "36028797018963968s0", "18014398509481984s0", "9223372036854775808s0",
    "0s0", "0s999999", "0s1000000", "0s1000001", "0s1999999", "0s3500000", "1s999999999", "0s999999999",
];
/// every such duration as max_delay (with every late strategy) and as max_lateness (behind watermarks that move: ascending, bounded
/// by a small delay, bounded by the same duration), on fixed out-of-order sequences (small timestamps: a wrapped delay of 0 / 1 / 384
/// / 616 ms decides; huge timestamps: a delay of u64::MAX - 999 decides) and on random ones
fn dur_family(rng: &mut Rng, n: usize, out: &mut Vec<String>) {
    let fixed: [&[u64]; 7] = [
        &[1000, 2000, 500, 1950, 3000, 10, 2899, 2900, 0, 3000],
        &[5, 3, 4, 9, 0, 8],
        &[400, 16, 1000, 615, 617, 385, 383],
        &[u64::MAX, 0, u64::MAX - 1, 999, 1001],
        &[1u64 << 63, 1, (1u64 << 63) + 1000, 1u64 << 62],
        &[0, 1, 2, 1, 0],
        &[18446744073709550616, 1000, 999, 18446744073709551615, 1001, 616],
    ];
    for d in DURS {
        for ts in fixed {
            for l in ["D", "A5", "S", "R"] {
                out.push(format!("B{} {} {}", d, l, join_nums(ts)));
            }
            out.push(format!("B{} A{} {}", d, d, join_nums(ts)));
            for w in ["M", "B0", "B3", "B0s999999", "P0"] {
                out.push(format!("{} A{} {}", w, d, join_nums(ts)));
            }
        }
    }
    for _ in 0..(n / 6).max(200) {
        let len = rng.range(1, 12) as usize;
        let dom = *rng.pick(&[4u64, 40, 700, 3000]);
        let ts: Vec<u64> = (0..len).map(|_| if rng.chance(1, 12) { u64::MAX - rng.below(1200) } else { rng.below(dom) }).collect();
        let d = *rng.pick(&DURS);
        let (w, l) = match rng.below(3) {
            0 => (format!("B{}", d), match rng.below(4) { 0 => "D".to_string(), 1 => "S".to_string(), 2 => "R".to_string(), _ => format!("A{}", rng.pick(&DURS)) }),
            1 => (if rng.chance(1, 2) { "M".to_string() } else { format!("B{}", rng.below(5)) }, format!("A{}", d)),
            _ => (format!("B{}s{}", rng.below(3), rng.below(1_000_000_000)), format!("A{}s{}", rng.below(2), rng.below(1_000_000_000))),
        };
        out.push(format!("{} {} {}", w, l, join_nums(&ts)));
    }
}

fn shrink(case: &str) -> Vec<String> {
    let t: Vec<&str> = case.split_whitespace().collect();
    if t.len() != 3 {
        return vec![];
    }
    let ts: Vec<Evt> = parse_evs(t[2]).unwrap_or_default();
    let mut out: Vec<String> = shrink_list(&ts)
        .into_iter()
        .map(|v| format!("{} {} {}", t[0], t[1], join_evs(&v)))
        .collect();
    for i in 0..ts.len() {
        if ts[i].0 > 0 {
            let mut v = ts.clone();
            v[i].0 /= 2;
            out.push(format!("{} {} {}", t[0], t[1], join_evs(&v)));
        }
        if ts[i].1 > 0 {
            let mut v = ts.clone();
            v[i].1 /= 2;
            out.push(format!("{} {} {}", t[0], t[1], join_evs(&v)));
            let mut v = ts.clone();
            v[i].1 = 0;
            out.push(format!("{} {} {}", t[0], t[1], join_evs(&v)));
        }
    }
    // decorations: drop them all, drop one field everywhere, drop one event's, move one event to the next smaller index
    if ts.iter().any(|e| e.2 != [0u64; 6]) {
        let mut v = ts.clone();
        v.iter_mut().for_each(|e| e.2 = [0; 6]);
        out.push(format!("{} {} {}", t[0], t[1], join_evs(&v)));
        for f in 0..6 {
            if ts.iter().any(|e| e.2[f] != 0) {
                let mut v = ts.clone();
                v.iter_mut().for_each(|e| e.2[f] = 0);
                out.push(format!("{} {} {}", t[0], t[1], join_evs(&v)));
            }
        }
        for i in 0..ts.len() {
            if ts[i].2 != [0u64; 6] {
                let mut v = ts.clone();
                v[i].2 = [0; 6];
                out.push(format!("{} {} {}", t[0], t[1], join_evs(&v)));
                for f in 0..6 {
                    if ts[i].2[f] > 0 {
                        let mut v = ts.clone();
                        v[i].2[f] -= 1;
                        out.push(format!("{} {} {}", t[0], t[1], join_evs(&v)));
                    }
                }
            }
        }
    }
    out
}

/// A `log` logger that accepts every record up to Trace and formats it into a sink: the arguments of `log::debug!` / `trace!` /
/// `info!` lines in the library are only EVALUATED when a logger with that level is installed (log's default max level is Off), so
/// without one any side effect hidden in a log argument is invisible. A host application with `RUST_LOG=trace` must see the same
/// watermark behaviour: the property does not depend on the logging configuration.
struct SinkLogger;
struct Sink;
impl std::fmt::Write for Sink {
    fn write_str(&mut self, _: &str) -> std::fmt::Result {
        Ok(())
    }
}
impl log::Log for SinkLogger {
    fn enabled(&self, _: &log::Metadata) -> bool {
        true
    }
    fn log(&self, record: &log::Record) {
        // run every Display / Debug impl of the arguments too
        let _ = std::fmt::Write::write_fmt(&mut Sink, *record.args());
    }
    fn flush(&self) {}
}
static SINK_LOGGER: SinkLogger = SinkLogger;

fn main() {
    // VERIF_NO_LOGGER=1 runs without a logger (what every run did before)
    if std::env::var_os("VERIF_NO_LOGGER").is_none() {
        log::set_logger(&SINK_LOGGER).expect("no other logger is installed");
        log::set_max_level(log::LevelFilter::Trace);
    }
    main_with(Prop { gen, exec, shrink });
}
