//! C03 — `execute` returns within `max_cycles`, at a fixpoint or at the bound.
//! Same case/observation format and the same executor as C02 (see c02.rs): one engine, a history of
//! calls; here the histories are one or two `execute_at_time` / `execute_with_callback` calls on
//! self-triggering and mutually triggering rule sets without no-loop, `max_cycles` in 0..=64, timeout None.
//! Every case runs in its own thread with a 5 s deadline: a call that does not return is observed as `hang`
//! (after two hangs the remaining cases of the batch are reported as `hang-skipped`).
#[path = "c02.rs"]
#[allow(dead_code)]
mod c02;
use c02::*;
use rre_harness::*;

fn rule(name: u64, sal: i64, flags: u8, cond: (char, u64, i64), acts: Vec<(char, u64, i64)>) -> RuleSpec {
    RuleSpec { name, sal, flags, ag: None, actg: None, eff: None, exp: None, effh: How::Z, exph: How::Z, cond, acts }
}

fn gen(rng: &mut Rng, n: usize, _tier: &str) -> Vec<String> {
    let mut out = Vec::new();
    // every max_cycles value on the three canonical non-quiescing / slowly quiescing sets
    for maxc in 0..=64usize {
        let counter = vec![rule(0, 0, 1, ('L', 0, 40), vec![('A', 0, 1)])];
        let toggle = vec![rule(0, 0, 1, ('E', 0, 0), vec![('S', 0, 1)]), rule(1, 0, 1, ('E', 0, 1), vec![('S', 0, 0)])];
        let pingpong = vec![
            rule(0, 7, 1, ('E', 0, 0), vec![('S', 0, 1), ('A', 1, 1)]),
            rule(1, -5, 1, ('E', 0, 1), vec![('S', 0, 0), ('A', 2, 1)]),
        ];
        for (rs, op) in [(counter, "X10"), (toggle, "C"), (pingpong, "X10;C")] {
            out.push(show_case(&Case { maxc, facts: vec![Some(0), Some(0), Some(0)], rules: rs, ops: vec![op.into()] }));
        }
    }
    for _ in 0..n {
        let nf = 3u64;
        let maxc = match rng.below(8) {
            0 => 0,
            1 => 1,
            2 => 64,
            _ => rng.range(0, 64) as usize,
        };
        let mut rules = Vec::new();
        let kind = rng.below(6);
        let nr = match kind {
            0 => {
                // counters with different bounds and steps
                let k = rng.range(1, 3);
                for i in 0..k {
                    rules.push(rule(i, *rng.pick(&[0i64, 7, -5]), 1, ('L', i % nf, rng.range(1, 70) as i64), vec![('A', i % nf, rng.range(1, 3) as i64)]));
                }
                k
            }
            1 => {
                // never quiesces: always-true self trigger
                rules.push(rule(0, 0, 1, ('G', 0, -1), vec![('A', 0, 1)]));
                rules.push(rule(1, 7, 1, ('E', 1, 5), vec![('S', 1, 0)]));
                2
            }
            2 => {
                // toggle / ping-pong over a ring of states
                let k = rng.range(2, 4);
                for i in 0..k {
                    rules.push(rule(i, rng.range(0, 2) as i64, 1, ('E', 0, i as i64), vec![('S', 0, ((i + 1) % k) as i64), ('A', 1, 1)]));
                }
                k
            }
            3 => {
                // mutual triggering through two fields, quiesces when f2 reaches a bound
                let b = rng.range(1, 30) as i64;
                rules.push(rule(0, 7, 1, ('E', 0, 0), vec![('S', 0, 1), ('A', 2, 1)]));
                rules.push(rule(1, 0, 1, ('E', 0, 1), vec![('S', 0, 2)]));
                rules.push(rule(2, -5, 1, ('L', 2, b), vec![('S', 0, 0)]));
                3
            }
            _ => {
                // random sets, mostly without no-loop
                let k = rng.range(1, 6);
                for i in 0..k {
                    let mut flags = 1u8;
                    if rng.chance(1, 10) {
                        flags |= 2;
                    }
                    if rng.chance(1, 12) {
                        flags |= 4;
                    }
                    if rng.chance(1, 15) {
                        flags &= 6;
                    }
                    let na = rng.range(1, 2);
                    let acts = (0..na).map(|_| gen_act(rng, nf, 2)).collect();
                    let mut r = rule(i, *rng.pick(&[i32::MIN as i64, -5, 0, 0, 7, 7, i32::MAX as i64]), flags, gen_cond(rng, nf), acts);
                    if rng.chance(1, 6) {
                        r.ag = Some(rng.below(2));
                    }
                    if rng.chance(1, 8) {
                        r.actg = Some(0);
                    }
                    rules.push(r);
                }
                k
            }
        };
        let _ = nr;
        let facts: Vec<Option<i64>> = (0..nf).map(|_| if rng.chance(1, 25) { None } else { Some(rng.below(3) as i64) }).collect();
        let mut ops: Vec<String> = Vec::new();
        if rng.chance(1, 6) {
            ops.push(format!("S{}.{}", rng.below(nf), rng.below(3)));
        }
        let ne = if rng.chance(1, 4) { 2 } else { 1 };
        for _ in 0..ne {
            ops.push(if rng.chance(1, 2) { "C".to_string() } else { format!("X{}", rng.pick(&[10u64, 20, 30])) });
        }
        out.push(show_case(&Case { maxc, facts, rules, ops }));
    }
    out
}

fn main() {
    if std::env::args().nth(1).as_deref() == Some("exec") {
        exec_main(exec_case, 5);
    } else {
        main_with(Prop { gen, exec: exec_case, shrink });
    }
}
